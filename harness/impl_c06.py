"""C06 implementation driver: runs inside /venv/bin/python with Scenic from $VERIF_REPO.
JSON in: {mode2D: bool, jobs: [{cls, insts:[instance ids]}]} ; JSON out: classes, table, cases."""
import json
import random
import sys
import warnings

warnings.filterwarnings("ignore")


def main():
    req = json.load(sys.stdin)
    random.seed(0)
    try:
        import numpy
        numpy.random.seed(0)
    except Exception:
        pass
    import c06_rt as rt
    if req.get("kind") == "merge":
        try:
            out = rt.merge_cases(req.get("hiers", []))
        except Exception as e:  # noqa
            import traceback
            out = dict(crash=f"{type(e).__name__}: {e}", tb=traceback.format_exc()[-1500:])
        sys.stdout.write("\n" + json.dumps(out) + "\n")
        return
    import scenic
    import c06_catalog as cat

    rt.INST.clear()
    rt.CLASSES.clear()
    rt.JOBS = req.get("jobs", [])
    rt.RESULT = None
    src = cat.program()
    out = None
    try:
        scenic.scenarioFromString(src, mode2D=bool(req.get("mode2D")))
        out = dict(crash="program finished without reaching rt.main()")
    except rt.Done:
        out = rt.RESULT
    except Exception as e:
        if rt.RESULT is not None:
            out = rt.RESULT
        else:
            import traceback
            out = dict(crash=f"{type(e).__name__}: {e}", tb=traceback.format_exc()[-1500:])
    sys.stdout.write("\n" + json.dumps(out) + "\n")


if __name__ == "__main__":
    main()
