"""C09 implementation-side driver (runs under /venv/bin/python with Scenic from $VERIF_REPO).
JSON on stdin: {"kind": "scan"|"compare"|"fragments"|"meta", ...}; JSON result on the last stdout line.

compare: for each job (a file, optionally with an identifier renamed) obtain
  ref      = ast.parse(src)                                   (CPython)
  out      = compileScenicAST(parse_string(src))              (Scenic: parser generated from scenic.gram + compiler.py)
  expected = rewrite_doc_py(ref)                              (independent implementation of the documented rewrites)
and report whether ast.dump(out, include_attributes=True) == ast.dump(expected, include_attributes=True);
for jobs flagged "model" also the token form of ref / out / expected for the extracted Coq model."""
import ast
import io
import json
import keyword
import os
import sys
import time
import tokenize
import traceback

sys.path.insert(0, os.path.dirname(os.path.abspath(__file__)))

sys.setrecursionlimit(20000)

TRACKED = ("ego", "workspace")
GP = "globalParameters"
LIFT = {"str": "_toStrScenic", "int": "_toIntScenic", "float": "_toFloatScenic"}
BUILTIN = (GP, "str", "int", "float")
LOCATTRS = ("lineno", "col_offset", "end_lineno", "end_col_offset")

# ----------------------------------------------------------------------------- documented rewrites (independent)

def _at(new, old):
    for a in LOCATTRS:
        setattr(new, a, getattr(old, a))
    return new


class Rejected(Exception):
    pass


def rewrite_doc_py(node, ctx):
    """Top-down rewriting of a CPython AST; inserted nodes carry the location of the node they replace.
    ctx = dict(inBehavior, inCompose, locals)."""
    if isinstance(node, list):
        return [rewrite_doc_py(x, ctx) for x in node]
    if not isinstance(node, ast.AST):
        return node
    if isinstance(node, ast.Name):
        if isinstance(node.ctx, ast.Load) and (node.id in TRACKED or node.id == GP):
            return _at(ast.Call(func=_at(ast.Name(id=node.id, ctx=ast.Load()), node), args=[], keywords=[]), node)
        if node.id not in BUILTIN and node.id not in TRACKED and node.id in ctx["locals"]:
            return _at(ast.Attribute(value=_at(ast.Name(id="_Scenic_current_behavior", ctx=ast.Load()), node),
                                     attr=node.id, ctx=node.ctx), node)
        return node
    if isinstance(node, ast.Call):
        wrap = not ctx["inBehavior"]
        func = rewrite_doc_py(node.func, ctx)
        if isinstance(func, ast.Name) and func.id in LIFT:
            func = _at(ast.Name(id=LIFT[func.id], ctx=func.ctx), func)
        args = []
        star = False
        for a in node.args:
            if isinstance(a, ast.Starred) and wrap:
                star = True
                inner = _at(ast.Call(func=_at(ast.Name(id="wrapStarredValue", ctx=ast.Load()), node),
                                     args=[rewrite_doc_py(a.value, ctx), _at(ast.Constant(value=a.value.lineno), node)],
                                     keywords=[]), node)
                args.append(_at(ast.Starred(value=inner, ctx=ast.Load()), node))
            else:
                args.append(rewrite_doc_py(a, ctx))
        kws = rewrite_doc_py(node.keywords, ctx)
        if star:
            return _at(ast.Call(func=_at(ast.Name(id="callWithStarArgs", ctx=ast.Load()), node),
                                args=[func] + args, keywords=kws), node)
        return _at(ast.Call(func=func, args=args, keywords=kws), node)
    new = type(node)()
    for a in getattr(node, "_attributes", ()):
        if hasattr(node, a):
            setattr(new, a, getattr(node, a))
    for f in node._fields:
        if hasattr(node, f):
            setattr(new, f, rewrite_doc_py(getattr(node, f), ctx))
    if isinstance(node, ast.ClassDef):
        if not node.bases:
            new.bases = [_at(ast.Name(id="Object", ctx=ast.Load()), node)]
        table = _at(ast.Assign(targets=[_at(ast.Name(id="_scenic_properties", ctx=ast.Store()), node)],
                               value=_at(ast.Dict(keys=[], values=[]), node)), node)
        new.body = new.body + [table]
    return new


def offending(node, ctx, out):
    """Locations of the nodes the documentation says are refused (order-independent)."""
    for n in ast.walk(node):
        if isinstance(n, ast.Name) and (n.id in BUILTIN or n.id in TRACKED) and not isinstance(n.ctx, ast.Load):
            out.append(("name", n.lineno, n.col_offset))
        elif isinstance(n, ast.ClassDef):
            for s_ in n.body:
                if isinstance(s_, ast.AnnAssign):
                    out.append(("annassign", s_.lineno, s_.col_offset))
                    break
        elif isinstance(n, (ast.Yield, ast.YieldFrom)) and (ctx["inBehavior"] or ctx["inCompose"]):
            out.append(("yield", n.lineno, n.col_offset))
    return out


# ----------------------------------------------------------------------------- token form for the Coq model
KINDS = {"Name": 1, "Call": 2, "Starred": 3, "ClassDef": 4, "AnnAssign": 5, "Yield": 6, "YieldFrom": 7,
         "Constant": 8, "Assign": 9, "Dict": 10, "Load": 11, "Store": 12, "Del": 13, "Attribute": 14}
ATOMS = {("none",): 0, ("s", "ego"): 1, ("s", "workspace"): 2, ("s", GP): 3, ("s", "str"): 4, ("s", "int"): 5,
         ("s", "float"): 6, ("s", "_toStrScenic"): 7, ("s", "_toIntScenic"): 8, ("s", "_toFloatScenic"): 9,
         ("s", "Object"): 10, ("s", "_scenic_properties"): 11, ("s", "wrapStarredValue"): 12,
         ("s", "callWithStarArgs"): 13, ("s", "_Scenic_current_behavior"): 14}
# what the model assumes about ast._fields of the kinds it inspects (checked on every run: "meta")
MODEL_FIELDS = {"Name": ["id", "ctx"], "Call": ["func", "args", "keywords"], "Starred": ["value", "ctx"],
                "ClassDef": ["name", "bases", "keywords", "body"], "Constant": ["value", "kind"],
                "Assign": ["targets", "value", "type_comment"], "Dict": ["keys", "values"],
                "Attribute": ["value", "attr", "ctx"]}


class Interner:
    def __init__(self):
        self.kinds = dict(KINDS)
        self.atoms = dict(ATOMS)
        self.scenic = {}

    def kind(self, node):
        name = type(node).__name__
        try:
            import scenic.syntax.ast as s
            if isinstance(node, s.AST):
                return self.scenic.setdefault(name, 1000 + len(self.scenic))
        except ImportError:
            pass
        if name not in self.kinds:
            self.kinds[name] = 100 + len(self.kinds)
        return self.kinds[name]

    def atom(self, v):
        if v is None:
            key = ("none",)
        elif isinstance(v, str):
            key = ("s", v)
        else:
            key = (type(v).__name__, repr(v))
        if key not in self.atoms:
            self.atoms[key] = 100 + len(self.atoms)
        return self.atoms[key]


class OutOfModel(Exception):
    pass


def tokens(node, it, out):
    if isinstance(node, ast.AST):
        out.append("N")
        out.append(str(it.kind(node)))
        if "lineno" in node._attributes:
            vals = [getattr(node, a, None) for a in LOCATTRS]
            if all(v is not None for v in vals):
                out.append("L")
                out.extend(str(v) for v in vals)
            elif all(v is None for v in vals):
                out.append("M")
            else:
                raise OutOfModel(f"partially located {type(node).__name__} node {vals}")
        else:
            out.append("X")
        out.append(str(len(node._fields)))
        for f in node._fields:
            v = getattr(node, f, None)
            if isinstance(node, ast.Constant) and f == "value" and type(v) is int:
                out.append("I")
                out.append(str(v) if abs(v) < 2 ** 60 else ("-" if v < 0 else "") + "0b" + bin(abs(v))[2:])
            else:
                tokens(v, it, out)
    elif isinstance(node, list):
        out.append("S")
        out.append(str(len(node)))
        for x in node:
            tokens(x, it, out)
    else:
        out.append("A")
        out.append(str(it.atom(node)))
    return out


# ----------------------------------------------------------------------------- structural diff
def collect_diffs(a, b, out, path="", chain=(), limit=40, near=(None, None)):
    """All differences between two ASTs (pre-order, at most `limit`); a = implementation, b = expected.
    Does not descend below a node whose type or arity differs."""
    if len(out) >= limit:
        return out
    if isinstance(a, ast.AST) and isinstance(b, ast.AST):
        ch = chain + (type(b).__name__,)
        if getattr(b, "lineno", None) is not None:
            near = (b.lineno, getattr(b, "end_lineno", b.lineno))
        if type(a) is not type(b):
            out.append(dict(path=path, what="type", a=type(a).__name__, b=type(b).__name__, node=type(b).__name__,
                            chain=list(ch[-5:]), lineno=getattr(b, "lineno", None)))
            return out
        for f in a._fields:
            collect_diffs(getattr(a, f, None), getattr(b, f, None), out, f"{path}.{f}", ch, limit, near)
        for at in a._attributes:
            if getattr(a, at, None) != getattr(b, at, None):
                out.append(dict(path=path, what="attr:" + at, a=getattr(a, at, None), b=getattr(b, at, None),
                                node=type(a).__name__, chain=list(ch[-5:]), lineno=getattr(b, "lineno", None),
                                end_lineno=getattr(b, "end_lineno", None), col=getattr(b, "col_offset", None),
                                end_col=getattr(b, "end_col_offset", None)))
        return out
    if isinstance(a, list) and isinstance(b, list):
        if len(a) != len(b):
            out.append(dict(path=path, what="len", a=len(a), b=len(b), node=chain[-1] if chain else None,
                            chain=list(chain[-5:]), lineno=None, near=list(near)))
            return out
        for i, (x, y) in enumerate(zip(a, b)):
            collect_diffs(x, y, out, f"{path}[{i}]", chain, limit, near)
        return out
    if type(a) is not type(b) or a != b:
        out.append(dict(path=path, what="value", a=repr(a)[:120], b=repr(b)[:120], node=chain[-1] if chain else None,
                        chain=list(chain[-5:]), lineno=None, near=list(near),
                        impl_keeps_escapes=isinstance(a, str) and isinstance(b, str) and "\\" in a and _decodes_to(a, b),
                        identifier_not_nfkc_normalised=isinstance(a, str) and isinstance(b, str) and not a.isascii()
                        and path.rsplit(".", 1)[-1] in ("id", "arg", "attr", "name", "asname", "rest") and _nfkc(a) == b))
    return out


def _nfkc(x):
    import unicodedata
    return unicodedata.normalize("NFKC", x)


def _decodes_to(raw, want):
    """Is `want` what Python's escape processing makes of `raw` (the f-string literal part left undecoded)?"""
    try:
        got = ast.literal_eval('"""' + raw.replace('"""', '\\"\\"\\"') + ' """')[:-1]
        return got == want or got.replace("{{", "{").replace("}}", "}") == want
    except Exception:
        return False


def annotate_diffs(diffs, src):
    """Add the facts the known-finding matchers need (kept structural, computed from the source text)."""
    lines = src.splitlines()
    for d in diffs:
        ln = d.get("lineno")
        if ln and 0 < ln <= len(lines):
            d["source_line"] = lines[ln - 1][:160]
        if d["what"] in ("attr:col_offset", "attr:end_col_offset") and isinstance(d.get("a"), int) and isinstance(d.get("b"), int):
            import re as _re
            d["col_delta"] = d["b"] - d["a"]
            if ln and d.get("end_lineno") and 0 < ln <= d["end_lineno"] <= len(lines):
                d["span_has_escaped_brace"] = bool(_re.search(r"\{\{|\}\}", "\n".join(lines[ln - 1:d["end_lineno"]])))
                d["span_has_non_ascii"] = not "\n".join(lines[ln - 1:d["end_lineno"]]).isascii()
                d["multi_line"] = d["end_lineno"] > ln
        if d["what"] in ("attr:col_offset", "attr:end_col_offset") and isinstance(d.get("a"), int):
            # CPython counts columns in UTF-8 bytes; is the implementation's value the same position counted in characters?
            l2 = ln if d["what"] == "attr:col_offset" else d.get("end_lineno")
            if l2 and 0 < l2 <= len(lines):
                line = lines[l2 - 1]
                d["column_counted_in_characters"] = (not line.isascii()) and len(line[:d["a"]].encode("utf-8")) == d["b"]
        near = d.get("near") if d.get("near") and d["near"][0] else [ln, d.get("end_lineno") or ln]
        if "JoinedStr" in (d.get("chain") or []) and near[0]:
            import re
            seg = "\n".join(lines[near[0] - 1:near[1]])
            d["fstring_debug_specifier"] = bool(re.search(r"\{[^{}]*[^=!<>{}]=\s*(![rsa])?(:[^{}]*)?\}", seg))
            d["fstring_escaped_brace_next_to_field"] = bool(re.search(r"\{\{\{|\}\}\}", seg))
        if d["what"] == "attr:end_col_offset" and d["node"] in ("Constant", "JoinedStr") and d.get("end_lineno"):
            # number of string tokens inside the node's span (implicit concatenation)
            seg = "\n".join(lines[ln - 1:d["end_lineno"]]) + "\n"
            n = 0
            try:
                for t in tokenize.generate_tokens(io.StringIO(seg).readline):
                    if t.type in (tokenize.STRING, getattr(tokenize, "FSTRING_START", -1)):
                        pos = (t.start[0] + ln - 1, t.start[1])
                        if (ln, d["col"]) <= pos < (d["end_lineno"], d["end_col"]):
                            n += 1
            except (tokenize.TokenError, IndentationError, SyntaxError):
                pass
            d["string_parts"] = n
            d["implicit_concatenation"] = n > 1
    return diffs


# ----------------------------------------------------------------------------- features / scanning
FEATURES = ["Match", "NamedExpr", "JoinedStr", "FormattedValue", "Starred", "ClassDef", "AsyncFunctionDef", "Await",
            "Try", "TryStar", "Lambda", "ListComp", "DictComp", "SetComp", "GeneratorExp", "Global", "Nonlocal", "With",
            "AsyncWith", "AsyncFor", "Yield", "YieldFrom", "AnnAssign", "AugAssign", "Delete", "Assert", "Raise",
            "IfExp", "Slice", "Set", "TypeAlias", "Import", "ImportFrom", "While", "Bytes"]


def features(tree):
    fs = set()
    for n in ast.walk(tree):
        nm = type(n).__name__
        if nm in FEATURES:
            fs.add(nm)
        if isinstance(n, ast.FormattedValue):
            if n.conversion != -1:
                fs.add("fstring-conversion")
            if n.format_spec is not None:
                fs.add("fstring-format-spec")
        elif isinstance(n, ast.Call):
            if any(isinstance(a, ast.Starred) for a in n.args):
                fs.add("call-star")
            if any(k.arg is None for k in n.keywords):
                fs.add("call-doublestar")
            if isinstance(n.func, ast.Name) and n.func.id in LIFT:
                fs.add("call-" + n.func.id)
        elif isinstance(n, ast.ClassDef):
            fs.add("class-nobase" if not n.bases else "class-bases")
            if n.decorator_list:
                fs.add("class-decorated")
            if getattr(n, "type_params", None):
                fs.add("type-params")
        elif isinstance(n, ast.FunctionDef):
            if n.decorator_list:
                fs.add("def-decorated")
            if n.args.posonlyargs:
                fs.add("posonly-args")
            if n.args.kwonlyargs:
                fs.add("kwonly-args")
            if n.returns is not None:
                fs.add("return-annotation")
            if getattr(n, "type_params", None):
                fs.add("type-params")
        elif isinstance(n, ast.Constant):
            if isinstance(n.value, bytes):
                fs.add("bytes")
            elif isinstance(n.value, complex):
                fs.add("complex")
            elif n.value is Ellipsis:
                fs.add("ellipsis")
            elif isinstance(n.value, str) and n.lineno != n.end_lineno:
                fs.add("multiline-string")
        elif isinstance(n, ast.Name) and n.id in (TRACKED + (GP,)):
            fs.add("name-" + n.id)
        elif isinstance(n, ast.Compare) and len(n.ops) > 1:
            fs.add("chained-compare")
        elif isinstance(n, (ast.Tuple, ast.List)) and isinstance(getattr(n, "ctx", None), ast.Store):
            fs.add("unpack-target")
        elif isinstance(n, ast.Subscript) and isinstance(n.slice, ast.Tuple):
            fs.add("multi-subscript")
    return sorted(fs)


from c09_features import FEATURE_VERSION, features2


def scenic_keywords():
    from scenic.syntax.parser import ScenicParser
    return sorted(set(ScenicParser.KEYWORDS) - set(keyword.kwlist))


def reserved_used(src, reserved):
    used = set()
    try:
        for t in tokenize.generate_tokens(io.StringIO(src).readline):
            if t.type == tokenize.NAME and t.string in reserved:
                used.add(t.string)
    except (tokenize.TokenError, IndentationError, SyntaxError):
        pass
    return sorted(used)


def uses_matmul(tree):
    return any(isinstance(n, ast.MatMult) for n in ast.walk(tree))


def class_annotations(tree):
    for n in ast.walk(tree):
        if isinstance(n, ast.ClassDef) and any(isinstance(s_, ast.AnnAssign) for s_ in n.body):
            return True
    return False


def read_source(path):
    with open(path, "rb") as f:
        data = f.read()
    return data.decode("utf-8")


def rename(src, old, new):
    """Rename every NAME token `old` to `new` (a consistent renaming keeps a Python module valid)."""
    toks = list(tokenize.generate_tokens(io.StringIO(src).readline))
    lines = src.splitlines(keepends=True)
    # replace from the end so that columns stay valid
    for t in reversed(toks):
        if t.type == tokenize.NAME and t.string == old and t.start[0] == t.end[0]:
            ln = t.start[0] - 1
            line = lines[ln]
            lines[ln] = line[:t.start[1]] + new + line[t.end[1]:]
    return "".join(lines)


def scan(paths, reserved):
    res = []
    for p in paths:
        r = dict(path=p)
        try:
            src = read_source(p)
        except (UnicodeDecodeError, OSError) as e:
            r["skip"] = "undecodable:" + type(e).__name__
            res.append(r)
            continue
        r["size"] = len(src)
        try:
            import warnings
            with warnings.catch_warnings():
                warnings.simplefilter("ignore")
                tree = ast.parse(src)
        except (SyntaxError, ValueError, RecursionError, MemoryError) as e:
            r["skip"] = "cpython-rejects:" + type(e).__name__
            res.append(r)
            continue
        used = reserved_used(src, reserved)
        if used:
            r["skip"] = "reserved-word:" + ",".join(used)
        elif class_annotations(tree):
            r["skip"] = "class-annotation-is-property-syntax"
        elif uses_matmul(tree):
            r["skip"] = "matmul-operator-is-scenic-vector-syntax"
        r["features"] = features(tree)
        try:
            r["fine"] = features2(tree, src)
        except RecursionError:
            r["fine"] = []
        r["mtime"] = int(os.path.getmtime(p))
        r["nodes"] = sum(1 for _ in ast.walk(tree))
        names = {}
        for n in ast.walk(tree):
            if isinstance(n, ast.Name):
                names[n.id] = names.get(n.id, 0) + 1
        r["names"] = sorted(names, key=lambda k: (-names[k], k))[:6]
        res.append(r)
    return res


def compare_one(job, reserved):
    from scenic.core.errors import ScenicSyntaxError
    from scenic.syntax.compiler import compileScenicAST
    from scenic.syntax.parser import parse_string
    import warnings

    r = dict(id=job["id"])
    t0 = time.time()
    src = job.get("src")
    if src is None:
        src = read_source(job["path"])
    if job.get("rename"):
        src = rename(src, *job["rename"])
    ctx = dict(inBehavior=False, inCompose=False, locals=[])
    with warnings.catch_warnings():
        warnings.simplefilter("ignore")
        try:
            ref = ast.parse(src)
        except (SyntaxError, ValueError, RecursionError) as e:
            r["status"] = "skip"
            r["reason"] = "cpython-rejects:" + type(e).__name__
            return r
        used = reserved_used(src, reserved)
        if used:
            r["status"] = "skip"
            r["reason"] = "reserved-word"
            return r
        if job.get("rename"):
            # `ego = ...` / `workspace = ...` as a statement is Scenic's own assignment statement, not plain Python
            for n in ast.walk(ref):
                if isinstance(n, ast.Assign) and len(n.targets) == 1 and isinstance(n.targets[0], ast.Name) \
                        and n.targets[0].id in TRACKED:
                    r["status"] = "skip"
                    r["reason"] = "scenic-assignment-statement"
                    return r
        if uses_matmul(ref):
            r["status"] = "skip"
            r["reason"] = "matmul-operator-is-scenic-vector-syntax"
            return r
        if class_annotations(ref) and not job.get("keep_class_annotations"):
            r["status"] = "skip"
            r["reason"] = "class-annotation-is-property-syntax"
            return r
        r["features"] = features(ref)
        r["nodes"] = sum(1 for _ in ast.walk(ref))
        bad = offending(ref, ctx, [])
        r["spec_rejects"] = bool(bad)
        want_model = bool(job.get("model"))
        it = Interner()
        if want_model:
            try:
                r["ref_tokens"] = " ".join(tokens(ref, it, []))
            except OutOfModel as e:
                r["out_of_model"] = str(e)
                want_model = False
        out = None
        try:
            tree = parse_string(src, "exec", filename=job.get("path", "<string>"))
            out, _ = compileScenicAST(tree, filename=job.get("path", "<string>"))
            r["impl"] = "ok"
        except ScenicSyntaxError as e:
            r["impl"] = "syntax-error"
            r["error"] = dict(type=type(e).__name__, msg=str(getattr(e, "msg", e))[:200], lineno=getattr(e, "lineno", None),
                              offset=getattr(e, "offset", None))
        except RecursionError:
            r["status"] = "skip"
            r["reason"] = "recursion-limit"
            return r
        except Exception as e:  # internal error escaping the front end
            tb = traceback.extract_tb(e.__traceback__)
            fr = [f for f in tb if "/scenic/" in f.filename]
            r["impl"] = "crash"
            r["error"] = dict(type=type(e).__name__, msg=str(e)[:200], func=fr[-1].name if fr else None,
                              file=os.path.basename(fr[-1].filename) if fr else None)
        r["t"] = round(time.time() - t0, 2)
        if r["impl"] == "ok":
            if bad:
                r["status"] = "mismatch"
                r["diff"] = dict(what="accepted-but-spec-rejects", offending=bad[:3])
                return r
            expected = rewrite_doc_py(ref, ctx)
            a = ast.dump(out, include_attributes=True)
            b = ast.dump(expected, include_attributes=True)
            if a == b:
                r["status"] = "ok"
            else:
                r["status"] = "mismatch"
                ds = annotate_diffs(collect_diffs(out, expected, []), src) or [dict(what="dump-only")]
                r["diffs"] = ds
                r["diff"] = ds[0]
            if want_model:
                try:
                    r["out_tokens"] = " ".join(tokens(out, it, []))
                    r["exp_tokens"] = " ".join(tokens(expected, it, []))
                except OutOfModel as e:
                    r["out_of_model"] = str(e)
        elif r["impl"] == "syntax-error":
            if bad:
                locs = [(l, c) for _, l, c in bad]
                # makeSyntaxError stores col_offset (0-based) in offset; ScenicParseError may shift it: accept both
                el, eo = r["error"]["lineno"], r["error"]["offset"]
                r["status"] = "ok-rejected" if any(el == l and eo in (c, c + 1) for l, c in locs) else "mismatch"
                if r["status"] == "mismatch":
                    r["diff"] = dict(what="error-location", offending=bad[:3])
            else:
                r["status"] = "mismatch"
                el = r["error"]["lineno"]
                chained = classsub = False
                for n in ast.walk(ref):
                    if isinstance(n, ast.IfExp) and isinstance(n.orelse, (ast.IfExp, ast.Lambda)) \
                            and el is not None and n.lineno <= el <= n.end_lineno:
                        chained = True
                    if isinstance(n, ast.ClassDef):
                        for s_ in n.body:
                            if isinstance(s_, (ast.Assign, ast.AugAssign)) and s_.lineno == el and any(
                                    isinstance(t, ast.Subscript) for t in (s_.targets if isinstance(s_, ast.Assign) else [s_.target])):
                                classsub = True
                r["diff"] = dict(what="valid-python-rejected", msg=r["error"]["msg"], lineno=el,
                                 conditional_with_conditional_or_lambda_else=chained,
                                 class_body_subscript_assignment=classsub,
                                 source_line=(src.splitlines()[el - 1][:160] if el and 0 < el <= len(src.splitlines()) else None))
        else:
            r["status"] = "mismatch"
            r["diff"] = dict(what="crash", **r["error"])
    return r


# ----------------------------------------------------------------------------- Python fragments inside .scenic files
def _pure(node, s_ast, cache):
    """No Scenic node in the subtree."""
    k = id(node)
    if k not in cache:
        cache[k] = not isinstance(node, s_ast.AST) and all(_pure(c, s_ast, cache) for c in ast.iter_child_nodes(node))
    return cache[k]


def _fragments(node, s_ast, cache, flags, out):
    """Maximal Scenic-free expr/stmt subtrees below Scenic nodes, with the compile context of their position."""
    for name, val in ast.iter_fields(node):
        kids = val if isinstance(val, list) else [val]
        for c in kids:
            if not isinstance(c, ast.AST):
                continue
            fl = dict(flags)
            if isinstance(node, s_ast.BehaviorDef):
                fl = dict(inBehavior=True, inMonitor=False, inCompose=False)
            elif isinstance(node, s_ast.MonitorDef):
                fl = dict(inBehavior=False, inMonitor=True, inCompose=False)
            elif isinstance(node, s_ast.ScenarioDef) and name == "compose":
                fl = dict(inBehavior=False, inMonitor=False, inCompose=True)
            elif isinstance(node, (ast.FunctionDef, ast.AsyncFunctionDef, ast.Lambda, ast.ClassDef)):
                pass
            if isinstance(c, (ast.expr, ast.stmt)) and _pure(c, s_ast, cache) \
                    and isinstance(getattr(c, "ctx", None), (type(None), ast.Load)):
                if not isinstance(c, (ast.FunctionDef, ast.AsyncFunctionDef, ast.ClassDef)) or not c.decorator_list:
                    out.append((c, fl, type(node).__name__))
            else:
                _fragments(c, s_ast, cache, fl, out)


def _byte_lines(src):
    return src.encode("utf-8").split(b"\n")


def fragment_text(src, node):
    """Text whose CPython parse puts the fragment at the same (line, byte column) as in the Scenic file."""
    lines = _byte_lines(src)
    l0, c0, l1, c1 = node.lineno, node.col_offset, node.end_lineno, node.end_col_offset
    seg = lines[l0 - 1:l1]
    seg[-1] = seg[-1][:c1]
    seg[0] = seg[0][c0:]
    body = b"\n".join(seg)
    if isinstance(node, ast.expr):
        if c0 == 0:
            text = b"\n" * (l0 - 1) + b"(" + body + b"\n)"      # the parenthesis keeps continuation lines legal
            return None                                          # column 0 cannot be kept with a wrapper
        text = b"\n" * (l0 - 1) + b"(" + b" " * (c0 - 1) + body + b"\n)"
        return text.decode("utf-8"), "eval"
    if c0 == 0:
        return (b"\n" * (l0 - 1) + body + b"\n").decode("utf-8"), "exec"
    if l0 < 2:
        return None
    return (b"\n" * (l0 - 2) + b"if 1:\n" + b" " * c0 + body + b"\n").decode("utf-8"), "wrapped"


def fragments_of(path, reserved_unused=None):
    import copy
    import warnings
    import scenic.syntax.ast as s_ast
    from scenic.core.errors import ScenicSyntaxError
    from scenic.syntax.compiler import compileScenicAST
    from scenic.syntax.parser import parse_string
    res = []
    src = read_source(path)
    try:
        tree = parse_string(src, "exec", filename=path)
    except ScenicSyntaxError as e:
        return [dict(path=path, status="skip", reason="scenic-file-does-not-parse")]
    except Exception as e:
        return [dict(path=path, status="skip", reason="scenic-parser-crash:" + type(e).__name__)]
    frs = []
    _fragments(tree, s_ast, {}, dict(inBehavior=False, inMonitor=False, inCompose=False), frs)
    seen = set()
    for node, fl, parent in frs:
        r = dict(path=path, lineno=node.lineno, col=node.col_offset, parent=parent, kind=type(node).__name__,
                 ctx=("behavior" if fl["inBehavior"] else "monitor" if fl["inMonitor"] else "compose" if fl["inCompose"] else "top"))
        ft = fragment_text(src, node)
        if ft is None:
            r.update(status="skip", reason="fragment-at-column-0")
            res.append(r)
            continue
        text, mode = ft
        key = (ast.dump(node), r["ctx"])
        r["dup"] = key in seen
        seen.add(key)
        with warnings.catch_warnings():
            warnings.simplefilter("ignore")
            try:
                m = ast.parse(text, mode="eval" if mode == "eval" else "exec")
            except SyntaxError as e:
                r.update(status="mismatch", diff=dict(what="cpython-rejects-fragment", msg=str(e)[:120]), text=text[-300:])
                res.append(r)
                continue
        ref = m.body if mode == "eval" else (m.body[-1] if mode == "exec" else m.body[-1].body[0])
        r["nodes"] = sum(1 for _ in ast.walk(ref))
        r["features"] = features(ref)
        # (a) the Scenic parser builds the tree CPython builds
        ds = collect_diffs(node, ref, [])
        if ds:
            r.update(status="mismatch", stage="parse", diffs=annotate_diffs(ds, src), diff=ds[0], text=text.strip()[:300])
            res.append(r)
            continue
        # (b) the compiler applies the documented rewrites in this context
        ctx = dict(inBehavior=fl["inBehavior"], inCompose=fl["inCompose"], locals=[])
        bad = offending(ref, ctx, [])
        it = Interner()
        r["ctx_flags"] = [int(fl["inBehavior"]), int(fl["inCompose"])]
        try:
            r["ref_tokens"] = " ".join(tokens(ref, it, []))
        except OutOfModel as e:
            r["out_of_model"] = str(e)
        try:
            out, _ = compileScenicAST(copy.deepcopy(node), filename=path, inBehavior=fl["inBehavior"],
                                      inMonitor=fl["inMonitor"], inCompose=fl["inCompose"])
            r["impl"] = "ok"
        except ScenicSyntaxError as e:
            r["impl"] = "syntax-error"
            r["error"] = dict(lineno=getattr(e, "lineno", None), offset=getattr(e, "offset", None), msg=str(getattr(e, "msg", e))[:160])
        except Exception as e:
            r["impl"] = "crash"
            r.update(status="mismatch", stage="compile", diff=dict(what="crash", type=type(e).__name__, msg=str(e)[:160]))
            res.append(r)
            continue
        r["spec_rejects"] = bool(bad)
        if r["impl"] == "ok":
            if bad:
                r.update(status="mismatch", stage="compile", diff=dict(what="accepted-but-spec-rejects", offending=bad[:3]))
            else:
                expected = rewrite_doc_py(ref, ctx)
                ds = collect_diffs(out, expected, [])
                if ds:
                    r.update(status="mismatch", stage="compile", diffs=annotate_diffs(ds, src), diff=ds[0], text=text.strip()[:300])
                else:
                    r["status"] = "ok"
                    r["rewritten"] = ast.dump(expected) != ast.dump(ref)
                    if "ref_tokens" in r:
                        r["out_tokens"] = " ".join(tokens(out, it, []))
                        r["exp_tokens"] = " ".join(tokens(expected, it, []))
        else:
            r["status"] = "ok-rejected" if bad else "mismatch"
            if not bad:
                r.update(stage="compile", diff=dict(what="valid-python-rejected", msg=r["error"]["msg"]))
        res.append(r)
    return res



def main():
    req = json.load(sys.stdin)
    kind = req["kind"]
    if kind == "meta":
        fields = {k: list(getattr(ast, k)._fields) for k in MODEL_FIELDS}
        noattr = {k: ("lineno" not in getattr(ast, k)._attributes) for k in ("Load", "Store", "Del")}
        print(json.dumps(dict(fields=fields, expect=MODEL_FIELDS, ctx_noattr=noattr, reserved=scenic_keywords(),
                              python=sys.version.split()[0], feature_version=FEATURE_VERSION)))
    elif kind == "scan":
        print(json.dumps(dict(results=scan(req["paths"], set(req["reserved"])))))
    elif kind == "compare":
        res = []
        reserved = set(req["reserved"])
        budget = req.get("cpu_budget")       # CPU seconds for this worker: independent of the load on the machine
        for job in req["jobs"]:
            if budget and time.process_time() > budget:
                res.append(dict(id=job["id"], status="skip", reason="time-budget"))
                continue
            try:
                res.append(compare_one(job, reserved))
            except Exception as e:
                res.append(dict(id=job["id"], status="harness-error", error=traceback.format_exc()[-1500:]))
        print(json.dumps(dict(results=res)))
    elif kind == "fragments":
        res = []
        for p in req["paths"]:
            try:
                res += fragments_of(p)
            except Exception:
                res.append(dict(path=p, status="harness-error", error=traceback.format_exc()[-1500:]))
        print(json.dumps(dict(results=res)))
    else:
        raise SystemExit("unknown kind " + kind)


if __name__ == "__main__":
    main()
