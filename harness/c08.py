"""C08 — pruning never changes which scenes can be generated.
Proof layer: coq/Properties/C08.v.  Correspondence: (H-a) the real RequirementMatcher / inferXRelations clamps,
relativeHeadingRange and the erosion/dilation iteration counts vs the extracted model on generated inputs, with
the property oracle (bounds implied by the requirement; ranges contain the actual relative heading; buffer
passes suffice) evaluated on what the implementation returned; (H-b) generated programs compiled with pruning
off and on: every accepted unpruned position must lie in the pruned sampling region."""
import concurrent.futures as cf
import json
import math
import os
import sys
from fractions import Fraction

sys.path.insert(0, os.path.dirname(os.path.abspath(__file__)))
import common
from common import Check

PID = "C08"
PI = Fraction(math.pi)
CONSTS = [-3, -1, 0, 0.5, 1, 2, 5, 7.5]
OPS = ["lt", "le", "gt", "ge", "eq", "ne", "is", "isnot", "in", "notin"]


def zs(z):
    return str(z) if abs(z) < 2 ** 60 else ("-" if z < 0 else "") + "0b" + bin(abs(z))[2:]


def qt(x):
    f = Fraction(x)
    return f"{zs(f.numerator)} {zs(f.denominator)}"


def pq(s):
    if s == "None":
        return None
    n, d = s.split("/")
    return Fraction(int(n, 0), int(d, 0))


def fq(e):
    return None if e is None else Fraction(int(e[0]), int(e[1]))


def close(a, b):
    if a is None or b is None:
        return a is None and b is None
    return abs(a - b) <= Fraction(1, 10 ** 9) * max(1, abs(a), abs(b))


# ------------------------------------------------------------------ matcher cases
def gen_term(rng, depth=0):
    k = rng.choice(["atom", "atom", "const", "const", "abs", "abs", "abs", "cc", "other", "ac"])
    c = lambda: ("c", rng.choice(CONSTS))
    a = lambda: ("a", rng.choice([0, 0, 1]))
    if k == "atom":
        return a()
    if k == "const":
        return c()
    if k == "cc":
        return (rng.choice(["add", "sub"]), c(), c())
    if k == "other":
        return ("o", rng.choice([0, 1]))
    if k == "ac":
        return (rng.choice(["add", "sub"]), a(), c())
    inner = rng.choice(["a", "a", "ac", "ca", "ao", "o", "c", "aa"])
    if inner == "a":
        return ("abs", a())
    if inner == "ac":
        return ("abs", (rng.choice(["add", "sub"]), a(), c()))
    if inner == "ca":
        return ("abs", (rng.choice(["add", "sub"]), c(), a()))
    if inner == "ao":
        return ("abs", (rng.choice(["add", "sub"]), a(), ("o", 0)))
    if inner == "o":
        return ("abs", ("o", 1))
    if inner == "aa":
        return ("abs", ("sub", a(), a()))
    return ("abs", c())


def term_tok(t):
    k = t[0]
    if k == "c":
        return "c " + qt(t[1])
    if k == "a":
        return f"a {t[1]}"
    if k == "o":
        return f"o {t[1]}"
    if k == "abs":
        return "abs " + term_tok(t[1])
    return f"{k} {term_tok(t[1])} {term_tok(t[2])}"


def term_src(t):
    k = t[0]
    if k == "c":
        return repr(t[1])
    if k == "a":
        return f"Q(X{t[1]})"
    if k == "o":
        return f"R{t[1]}"
    if k == "abs":
        return f"abs({term_src(t[1])})"
    return f"({term_src(t[1])} {'+' if k == 'add' else '-'} {term_src(t[2])})"


def tval(t, nu, om):
    k = t[0]
    if k == "c":
        return Fraction(t[1])
    if k == "a":
        return nu[t[1]]
    if k == "o":
        return om[t[1]]
    if k == "abs":
        return abs(tval(t[1], nu, om))
    x, y = tval(t[1], nu, om), tval(t[2], nu, om)
    return x + y if k == "add" else x - y


def chain_holds(case, nu, om):
    first = tval(case["left"], nu, om)
    for o, t in case["rest"]:
        second = tval(t, nu, om)
        ok = {"lt": first < second, "le": first <= second, "gt": first > second, "ge": first >= second,
              "eq": first == second, "ne": first != second}.get(o, True)   # is / in: may hold
        if not ok:
            return False
        first = second
    return True


# ------------------------------------------------------------------ programs
def gen_directed(i, j):
    """systematic grid, always run: roll in {0, 90 deg} x pitch in {0, 90 deg} x flat / tall box in a square workspace
    (which inradius may erode the container), and mesh-volume containers incl. one whose coarse voxel mesh is not a
    volume (the erosion retry loop)."""
    if j < 8:
        roll, pitch, flat = (j & 1) * 90, ((j >> 1) & 1) * 90, bool(j & 4)
        dims = (2, 2, 0.1) if flat else (1, 1, 3)
        src = ("workspace = Workspace(PolygonalRegion([0@0, 4@0, 4@4, 0@4]))\n"
               f"ego = new Object in workspace, with width {dims[0]}, with length {dims[1]}, with height {dims[2]}, "
               f"with roll {roll} deg, with pitch {pitch} deg\n")
        return dict(id=f"g{i}", src=src, seed=1000 + j, meta=dict(template="contain2d", directed=True, roll=roll, pitch=pitch, flat=flat),
                    mode2D=False)
    shape, rot, dims = [("cone(radius=3, height=2)", (0.2815787603227047, 0.08504242956601893, 2.5072953117596093), (4, 4, 4)),
                        ("box(extents=[6, 6, 6])", (0.3, 0, 0), (2, 2, 2))][j - 8]
    src = ("import trimesh\nfrom scenic.core.vectors import Orientation\n"
           f"workspace = Workspace(MeshVolumeRegion(trimesh.creation.{shape}, rotation=Orientation.fromEuler{rot}))\n"
           f"ego = new Object in workspace, with width {dims[0]}, with length {dims[1]}, with height {dims[2]}\n")
    return dict(id=f"g{i}", src=src, seed=2000 + j, meta=dict(template="mesh3d", directed=True, shape=shape), mode2D=False)


def gen_program(rng, i):
    kind = rng.choice(["contain2d", "contain2d", "contain2d", "visibility", "rh", "rh", "rh", "rh", "dist", "mesh3d"])
    L = []
    meta = dict(template=kind)
    if kind == "mesh3d":
        sc = rng.choice([1, 2, 5])
        shape = rng.choice([f"cone(radius={3 * sc}, height={rng.choice([2, 6]) * sc})", f"box(extents=[{4 * sc}, {6 * sc}, {3 * sc}])",
                            f"cylinder(radius={2 * sc}, height={3 * sc})", f"icosphere(radius={2 * sc}, subdivisions=2)"])
        rot = tuple(round(rng.uniform(0, 3), 2) for _ in range(3)) if rng.random() < 0.7 else (0, 0, 0)
        d = [rng.choice([0.3, 0.6, 1, 1.5]) * sc for _ in range(3)]
        L.append("import trimesh")
        L.append("from scenic.core.vectors import Orientation")
        L.append(f"workspace = Workspace(MeshVolumeRegion(trimesh.creation.{shape}, rotation=Orientation.fromEuler{rot}))")
        L.append(f"ego = new Object in workspace, with width {d[0]}, with length {d[1]}, with height {d[2]}")
        meta.update(shape=shape, rot=list(rot))
        return dict(id=f"p{i}", src="\n".join(L) + "\n", seed=rng.randint(0, 10 ** 6), meta=meta, mode2D=False)
    if kind == "contain2d":
        w, h = rng.choice([4, 6, 10]), rng.choice([4, 6, 10])
        shape = rng.choice(["rect", "L"])
        if shape == "rect":
            L.append(f"workspace = Workspace(PolygonalRegion([0@0, {w}@0, {w}@{h}, 0@{h}]))")
        else:
            L.append(f"workspace = Workspace(PolygonalRegion([0@0, {w}@0, {w}@{h // 2}, {w // 2}@{h // 2}, {w // 2}@{h}, 0@{h}]))")
        ow = rng.choice(["1", "2", "Range(0.5, 2)", "0.5"])
        ol = rng.choice(["1", "3", "Range(1, 2.5)"])
        # flat / tall shapes and roll / pitch (constants and distributions): the planar-inradius erosion is only
        # valid for objects lying flat; everything else must fall back to the 3D inradius
        oh = rng.choice(["", "", ", with height 0.1", ", with height 0.2", ", with height 4", ", with height Range(0.1, 0.4)"])
        rot = rng.choice(["", "", "", ", with roll 90 deg", ", with roll Range(30, 90) deg", ", with roll 0", ", with pitch 90 deg",
                          ", with pitch Range(-60, 60) deg", ", with roll 60 deg, with pitch 30 deg", ", with roll -90 deg",
                          ", with pitch 0, with roll Uniform(0, 90) deg"])
        if rot:
            face = rng.choice(["", ", with yaw 30 deg", ", with yaw Range(-40, 40) deg", ", with yaw 90 deg"])
        else:
            face = rng.choice(["", ", facing 30 deg", ", facing Range(-40, 40) deg", ", facing 90 deg"])
        face = face + oh + rot
        how = rng.choice(["in workspace", "on workspace", "in workspace", "offset"])
        if how == "offset":
            L.append(f"ego = new Object in workspace, with width {ow}, with length {ol}{face}")
            L.append(f"other = new Object offset by ({rng.choice([1, 2, -1.5])}, {rng.choice([0, 1.5, -2])}), with width 0.5, with length 0.5, with allowCollisions True")
        else:
            L.append(f"ego = new Object {how}, with width {ow}, with length {ol}{face}")
            if rng.random() < 0.5:
                orot = rng.choice(["", "", ", with roll 90 deg, with height 0.1", ", with pitch Range(0, 90) deg, with height 0.2"])
                L.append(f"other = new Object in workspace, with width {rng.choice(['1', 'Range(0.5, 1.5)', '2'])}, with length {rng.choice(['1', '2'])}, with allowCollisions True{orot}")
        meta.update(rolled=bool(rot), flat=("0." in oh))
        meta.update(shape=shape, how=how)
    elif kind == "visibility":
        side = rng.choice([14, 20, 30])
        vd = rng.choice([3, 5, 8])
        size = rng.choice([1, 2, 4])
        L.append(f"workspace = Workspace(RectangularRegion(0@0, 0, {side}, {side}))")
        L.append(f"ego = new Object at (0, 0, 0), with visibleDistance {vd}, with allowCollisions True")
        spec = rng.choice(["with requireVisible True", "visible", "visible from ego"])
        L.append(f"foo = new Object in workspace, with width {size}, with length {size}, with height {size}, with allowCollisions True, {spec}")
        meta.update(spec=spec, size=size, vd=vd)
    elif kind == "rh":
        h1 = rng.choice([0, 30, 90, 170, -170, 180, -90, 135])
        h2 = rng.choice([0, 90, 170, -170, -135, 45, 180])
        # cell geometry, per-object visibleDistance and sizes: which object's visibleDistance / radius bounds the distance
        # between the two matters as soon as they differ
        vis = rng.choice(["with requireVisible True", "visible from ego", "visible from ego", "ego visible from other", "dist", "dist"])
        vdE = rng.choice([15, 30, 60, 100])
        vdO = rng.choice([None, None, 10, 20, 80])
        observer_vd = {"with requireVisible True": vdE, "visible from ego": vdE, "ego visible from other": vdO or 50, "dist": 35}[vis]
        w1 = rng.choice([10, 30, 40])
        gap = rng.choice([g for g in (5, 10, 25, 40, 70) if g < observer_vd] or [5])
        x2 = w1 + gap
        szE, szO = rng.choice([1, 1, 4]), rng.choice([1, 1, 6])
        L.append(f"r1 = PolygonalRegion([0@0, {w1}@0, {w1}@10, 0@10])")
        L.append(f"r2 = PolygonalRegion([{x2}@0, {x2 + 10}@0, {x2 + 10}@10, {x2}@10])")
        L.append(f'vf = PolygonalVectorField("Foo", [[r1.polygons, {h1} deg], [r2.polygons, {h2} deg]])')
        L.append("union = r1.union(r2)")
        egoline = (f"ego = new Object in union, facing vf, with allowCollisions True, with visibleDistance {vdE}, "
                   f"with width {szE}, with length {szE}")
        otherline = (f"other = new Object in union, facing vf, with allowCollisions True, with width {szO}, with length {szO}"
                     + ("" if vdO is None else f", with visibleDistance {vdO}"))
        if vis == "ego visible from other":
            L.append(otherline)
            L.append(egoline + ", visible from other")
        else:
            L.append(egoline)
            L.append(otherline + ("" if vis == "dist" else ", " + vis))
        meta.update(vis=vis, vdE=vdE, vdO=vdO, gap=gap, w1=w1, sizes=[szE, szO])
        b = rng.choice([20, 40, 60, -30, 10])
        form = rng.choice([f"(relative heading of other) >= {b} deg", f"(relative heading of other) <= {b} deg",
                           f"{b - 30} deg <= (relative heading of other) <= {b + 30} deg",
                           f"abs(relative heading of other) <= {abs(b)} deg",
                           f"abs((relative heading of other) - {b} deg) <= 25 deg",
                           f"(relative heading of other) != {b} deg"])
        D = ((h2 - h1 + 180) % 360) - 180      # relative heading of a cell-2 object seen from a cell-1 ego
        if abs(D) >= 40 and rng.random() < 0.6:   # only cross-cell placements satisfy it
            form = f"abs((relative heading of other) - {D} deg) <= 20 deg"
        L.append("require " + form)
        if vis == "dist":
            L.append(f"require (distance to other) <= {rng.choice([25, 35]) if gap < 25 else gap + rng.choice([5, 15])}")
        seam = (abs(h1) >= 135 or abs(h2) >= 135)
        meta.update(h1=h1, h2=h2, form=form, seam=seam, wrap=bool(abs(h2 - h1) > 180))
    else:
        side = rng.choice([10, 20])
        L.append(f"workspace = Workspace(RectangularRegion(0@0, 0, {side}, {side}))")
        L.append("ego = new Object at (0, 0), with allowCollisions True")
        L.append("other = new Object in workspace, with allowCollisions True, with width 1, with length 1")
        d = rng.choice([3, 5, 8])
        form = rng.choice([f"(distance to other) <= {d}", f"(distance to other) != {d}", f"{d} >= (distance to other)",
                           f"1 < (distance to other) < {d}", f"abs((distance to other) - {d}) <= 2"])
        L.append("require " + form)
        meta.update(form=form)
    return dict(id=f"p{i}", src="\n".join(L) + "\n", seed=rng.randint(0, 10 ** 6), meta=meta,
                mode2D=False)


def gen_visrand(rng, i):
    """visibility pruning with an observer whose pose is RANDOM (position in a small region / coordinate ranges, random
    yaw / pitch, restricted view angles, camera offsets): its view region needs sampling, so pruneVisibility buffers the
    bounding box of the view region (the pitch >= 1 fast path of _bufferOverapproximate) instead of voxels.  Observed
    objects are elongated / flat / tall boxes with their own (random) yaw, the view distance is small compared to them,
    and all visibility forms occur: requireVisible, `visible`, `visible from ego`, `visible from <non-ego observer>`."""
    L = []
    ws3d = rng.random() < 0.2
    sx, sy = rng.choice([10, 16, 24]), rng.choice([8, 12])
    if ws3d:
        L.append(f"workspace = Workspace(BoxRegion(dimensions=({sx}, {sy}, 8)))")
    else:
        L.append(f"workspace = Workspace(RectangularRegion(0@0, 0, {sx}, {sy}))")
    vd = rng.choice([1, 1, 1.5, 2, 3, 5])
    va = rng.choice([None, None, None, "(120 deg, 90 deg)", "(60 deg, 40 deg)", "(200 deg, 180 deg)", "(360 deg, 50 deg)"])
    cam = rng.choice([None, None, None, "(0.5, 0, 0)", "(0, 1, 0.5)", "(-1, -0.5, 0)"])
    cx, cy = rng.choice([0, 0, -2, 3]), rng.choice([0, 0, 1.5, -2])
    a, b = rng.choice([0.5, 2, 2, 4]), rng.choice([0.5, 2, 3])
    place = rng.choice(["spot", "spot", "ranges", "fixedpos", "xrange"])
    if place == "spot":
        L.append(f"spot = RectangularRegion({cx}@{cy}, {rng.choice([0, 0, 0.6])}, {a}, {b})")
        where = "in spot"
    elif place == "ranges":
        where = f"at (Range({cx - a / 2}, {cx + a / 2}), Range({cy - b / 2}, {cy + b / 2}), {'Range(-1, 1)' if ws3d else 0})"
    elif place == "xrange":
        where = f"at (Range({cx - a}, {cx + a}), {cy}, 0)"
    else:
        where = f"at ({cx}, {cy}, 0)"
    yaw = rng.choice(["", "", ", facing Range(-180, 180) deg", ", with yaw Range(0, 90) deg", ", facing 45 deg"])
    if place == "fixedpos" and "Range" not in yaw:
        yaw = ", facing Range(-180, 180) deg"     # the pose must stay random
    tilt = rng.choice(["", "", "", ", with pitch Range(-30, 30) deg", ", with roll Range(0, 45) deg"])
    if tilt:
        yaw = yaw.replace("facing", "with yaw")      # `facing` already fixes pitch and roll
    observer = (f"new Object {where}{yaw}{tilt}, with visibleDistance {vd}, with allowCollisions True"
                + (f", with viewAngles {va}" if va else "") + (f", with cameraOffset {cam}" if cam else "")
                + f", with width {rng.choice([1, 1, 0.4])}, with length {rng.choice([1, 2])}")
    spec = rng.choice(["with requireVisible True", "with requireVisible True", "visible", "visible from ego", "visible from obs"])
    if spec == "visible from obs":
        L.append(f"ego = new Object at ({sx / 2 - 1}, {sy / 2 - 1}, 0), with allowCollisions True, with visibleDistance 2")
        L.append("obs = " + observer)
    else:
        L.append("ego = " + observer)
    dims = rng.choice([(6, 1, 1), (6, 1, 1), (1, 6, 1), (1, 1, 1), (4, 4, 0.5), (0.5, 0.5, 5), (3, 1, 2), (2, 2, 2), (8, 0.5, 0.5)])
    oyaw = rng.choice(["", "", ", facing Range(0, 360) deg", ", facing 90 deg", ", with yaw Range(-45, 45) deg"])
    # where the observed object is sampled: mostly a zone around the observer just beyond the reach of its view region plus half
    # the object's longest side (so that most candidate scenes are near the boundary of the visible set), sometimes everywhere
    reach = max(a, b) / 2 + vd + max(dims) / 2 + 1.5
    zoned = rng.random() < 0.85
    if zoned:
        zone = (f"BoxRegion(position=({cx}, {cy}, 0), dimensions=({2 * reach}, {2 * reach}, {min(8, 2 * reach)}))" if ws3d
                else f"RectangularRegion({cx}@{cy}, 0, {2 * reach}, {2 * reach})")
        L.append(f"zone = {zone}")
        how = rng.choice(["in zone", "in zone", "on zone"]) if not ws3d else "in zone"
    else:
        how = rng.choice(["in workspace", "in workspace", "on workspace"]) if not ws3d else "in workspace"
    L.append(f"foo = new Object {how}, with width {dims[0]}, with length {dims[1]}, with height {dims[2]}{oyaw}, "
             f"with allowCollisions True, {spec}")
    if zoned and rng.random() < 0.2:        # a second observed object, sized by a distribution
        L.append(f"bar = new Object {how.replace('on ', 'in ')}, with width Range(0.5, 3), with length {rng.choice([1, 5])}, with height 1, "
                 f"with allowCollisions True, {spec}")
    meta = dict(template="visrand", spec=spec, vd=vd, dims=list(dims), place=place, viewAngles=va, cameraOffset=cam, ws3d=ws3d, how=how)
    return dict(id=f"v{i}", src="\n".join(L) + "\n", seed=rng.randint(0, 10 ** 6), meta=meta, mode2D=False, maxIterations=300, nscenes=40, budget=12)


def gen_bufbox(rng, i):
    """a mesh volume region anywhere in space (boxes and non-box meshes, off-origin, rotated, centred or not) and a
    buffer: input of the pitch >= 1 path of _bufferOverapproximate."""
    shape = rng.choice(["boxregion", "boxregion", "spheroid", "cone", "cylinder", "icosphere", "capsule", "annulus", "box"])
    r = lambda: rng.choice([0.3, 0.5, 1, 1.5, 2, 3.25, 6, 10])
    args = {"boxregion": [r(), r(), r()], "spheroid": [r(), r(), r()], "box": [r(), r(), r()], "cone": [r(), r()], "cylinder": [r(), r()],
            "icosphere": [r()], "capsule": [r(), r()], "annulus": [r(), r(), r()]}[shape]
    pos = [0, 0, 0] if rng.random() < 0.2 else [round(rng.uniform(-20, 20), 3) for _ in range(3)]
    rot = [0, 0, 0] if rng.random() < 0.3 else [round(rng.uniform(-3.1, 3.1), 3) for _ in range(3)]
    return dict(kind="bufbox", id=f"b{i}", shape=shape, args=args, position=pos, rotation=rot, center=rng.random() < 0.7,
                buffer=rng.choice([0, 0.05, 0.37, 0.5, 1, 1, 2.5, 4, 10, round(rng.uniform(0.1, 8), 3)]),
                pitch=rng.choice([1, 1, 1, 1.0, 2, 1.5]), probe_seed=rng.randint(0, 10 ** 6), nprobe=12)


def gen_maxdist(rng, i):
    """three objects with their own visibleDistance / cameraOffset / size, requireVisible flags, `visible from`
    links in any direction and distance requirements: which object's visibleDistance, camera offset and radius enter
    maxDistanceBetween(a, b) for every ordered pair."""
    n = 3
    egoi = rng.randrange(n)
    objs = []
    for k in range(n):
        vd = rng.choice([None, 10, 20, 35, 60, 80, 120])
        cam = rng.choice([None, None, (3, 4), (-3, 4), (0, 2), ("Range(-1, 3)", 4), ("Normal(0, 1)", 0)])
        dims = [rng.choice([1, 1, 2, 4, 6, "Range(1, 3)"]) for _ in range(3)]
        objs.append(dict(vd=vd, cam=cam, dims=dims, reqvis=(k != egoi and rng.random() < 0.35), observer=None))
    order = list(range(n))
    rng.shuffle(order)          # definition order: an observer must be defined before the object it observes
    for pos, k in enumerate(order):
        earlier = order[:pos]
        if earlier and rng.random() < 0.6:
            objs[k]["observer"] = rng.choice(earlier)
    if egoi in order and objs[egoi]["observer"] is not None and False:
        pass
    L = []
    for pos, k in enumerate(order):
        o = objs[k]
        name = "ego" if k == egoi else f"o{k}"
        spec = [f"at (Range({10 * k}, {10 * k + 1}), 0)", "with allowCollisions True", f"with tag {k}",
                f"with width {o['dims'][0]}", f"with length {o['dims'][1]}", f"with height {o['dims'][2]}"]
        if o["vd"] is not None:
            spec.append(f"with visibleDistance {o['vd']}")
        if o["cam"] is not None:
            spec.append(f"with cameraOffset ({o['cam'][0]}, {o['cam'][1]}, 0)")
        if o["reqvis"]:
            spec.append("with requireVisible True")
        if o["observer"] is not None:
            ob = o["observer"]
            spec.append("visible from " + ("ego" if ob == egoi else f"o{ob}"))
        L.append(f"{name} = new Object " + ", ".join(spec))
    # the ego must exist before `require distance to`; requirements come last
    rels = [[] for _ in range(n)]
    for _ in range(rng.choice([0, 1, 2, 3])):
        a = egoi                    # the matcher only recognises distances measured from the ego
        b = rng.choice([k for k in range(n) if k != egoi])
        d = rng.choice([5, 15, 25, 45, 90])
        nb = f"o{b}"
        form = rng.choice(["le", "lt", "chain", "ge-rev"])
        q = rng.choice([f"(distance to {nb})", f"(distance from {nb})"])
        txt = {"le": f"{q} <= {d}", "lt": f"{q} < {d}", "chain": f"1 <= {q} <= {d}", "ge-rev": f"{d} >= {q}"}[form]
        L.append("require " + txt)
        rels[a].append((b, d))
        rels[b].append((a, d))      # the converse relation recorded on the target
    return dict(id=f"m{i}", src="\n".join(L) + "\n", ego=egoi, objs=objs, rels=rels)


def maxdist_line(case, i, j):
    def up(x):     # upper support bound of a generated scalar
        if isinstance(x, str):
            if x.startswith("Range("):
                return float(x[6:-1].split(",")[1])
            return None
        return float(x)
    toks = [f"MD {case['ego']} {len(case['objs'])}"]
    for o in case["objs"]:
        vd = 50.0 if o["vd"] is None else float(o["vd"])
        if o["cam"] is None:
            cam = 0.0
        else:
            cx, cy = up(o["cam"][0]), up(o["cam"][1])
            cam = None if cx is None or cy is None else math.hypot(cx, cy)
        rad = math.hypot(*[up(d) for d in o["dims"]]) / 2
        toks.append(f"{qt(vd)} {'None' if cam is None else qt(cam)} {qt(rad)} {int(o['reqvis'])} "
                    f"{'None' if o['observer'] is None else o['observer']}")
    for rl in case["rels"]:
        toks.append(f"{len(rl)} " + " ".join(f"{t} {qt(u)}" for t, u in rl) if rl else "0")
    toks.append(f"{i} {j}")
    return " ".join(toks)


def main():
    c = Check(PID, "proof")
    c.cov["rule"] = ("(H-a) comparison chains of length 1-3 over every operator (< <= > >= == != is, is not, in, not in), constants / "
                     "quantity atoms / abs of (atom, atom+-const, const+-atom, other) / constant arithmetic on either side; "
                     "relativeHeadingRange on a 1/8-radian grid incl. arcs across the +-pi seam; erosion/dilation iteration counts "
                     "on random boxes; maxDistanceBetween on every ordered pair of three objects with their own visibleDistance / "
                     "cameraOffset / sizes / requireVisible / visible-from links / distance requirements; (H-b) a fixed grid (roll x "
                     "pitch x flat/tall box; mesh-volume workspaces) plus generated programs (2D containment with random sizes/orientations/offsets, "
                     "visibility specifiers, relative-heading and distance requirements on polygonal fields) compiled with pruning "
                     "off/on (2D containment with roll / pitch / height as constants and distributions, rh programs with per-object "
                     "visibleDistance and sizes, cell gaps and three observer relations, mesh-volume containers; visibility programs whose observer has a RANDOM "
                     "pose - position in a small region / coordinate ranges, random yaw / pitch / roll, view angles, camera offsets - with elongated / flat / tall "
                     "observed boxes, visibleDistance 1-5, requireVisible / visible / visible from ego / visible from a non-ego observer: random pruned regions are "
                     "evaluated at the property values of each accepted unpruned scene); the bounding-box fast path of _bufferOverapproximate on random mesh "
                     "regions (boxes, spheroids, cones, cylinders, icospheres, capsules, annuli; off-origin, rotated) vs the extracted buffer_box; a case is non-trivial when the matcher returns a bound / a position was conditioned and unpruned "
                     "scenes were checked against the pruned region")
    common.ensure_parser()
    if not c.proofs():
        c.finish()
    exe = common.build_ocaml(PID)
    quick = c.tier == "quick"
    rng = c.rng
    nmatch = 2000 if quick else 200000
    nrh = 400 if quick else 20000
    niter = 40 if quick else 400
    nprog = 50 if quick else 1500
    nmd = 60 if quick else 1200
    nscenes = 50 if quick else 200
    nbb = 80 if quick else 1500
    nvr = 16 if quick else 200
    import random as _random
    rng3 = _random.Random(f"{PID}-round3-{c.seed}")     # separate stream (seeded from VERIF_SEED): earlier generators keep their cases

    # ================= H-a: matcher
    mcases = []
    for _ in range(nmatch):
        left = gen_term(rng)
        rest = [(rng.choice(OPS), gen_term(rng)) for _ in range(rng.choice([1, 1, 1, 2, 2, 3]))]
        mcases.append(dict(left=left, rest=rest))
    # targeted shapes first
    mcases = [dict(left=("a", 0), rest=[("ne", ("c", 5))]), dict(left=("c", 5), rest=[("ne", ("a", 0))]),
              dict(left=("a", 0), rest=[("is", ("c", 5))]), dict(left=("abs", ("a", 0)), rest=[("notin", ("c", 2))])] + mcases
    impl = common.run_impl("impl_c08.py", dict(kind="matcher", cases=mcases), timeout=3000)["results"]
    lines = [f"MB 1 {qt(PI)} {term_tok(cs['left'])} {len(cs['rest'])} " + " ".join(f"{o} {term_tok(t)}" for o, t in cs["rest"]) for cs in mcases]
    mout = common.run_driver(exe, lines)
    grid = [Fraction(x, 2) for x in range(-8, 21)]
    for cs, r, m in zip(mcases, impl, mout):
        src = term_src(cs["left"]) + "".join(f" {o} {term_src(t)}" for o, t in cs["rest"])
        ops = [o for o, _ in cs["rest"]]
        raw = r["DistanceFrom"]["raw"]
        nontrivial = isinstance(raw, list) and len(raw) > 0
        c.count((src,), nontrivial=nontrivial)
        for o in ops:
            c.hist("op:" + o)
        c.hist("bounds:" + ("inconsistent" if raw == "INCONSISTENT" else str(len(raw)) if isinstance(raw, list) else raw))
        rep = dict(requirement=src, ops=ops, case=cs, impl=r, model=m)
        # --- property oracle: every bound the implementation returns is implied by the requirement
        if isinstance(raw, list):
            bad = None
            for t, lo, hi in raw:
                lo, hi = fq(lo), fq(hi)
                for _ in range(60):
                    nu = {0: rng.choice(grid), 1: rng.choice(grid)}
                    om = {0: rng.choice(grid), 1: rng.choice(grid)}
                    if chain_holds(cs, nu, om):
                        v = nu[t]
                        if (lo is not None and v < lo) or (hi is not None and v > hi):
                            bad = dict(target=t, lower=str(lo), upper=str(hi), valuation={str(k): str(x) for k, x in nu.items()},
                                       others={str(k): str(x) for k, x in om.items()})
                            break
                if bad:
                    break
            if bad:
                c.violation("matcher-unsound", "a bound extracted from a requirement is not implied by it",
                            dict(rep, witness=bad, non_order_op=any(o in ("ne", "is", "isnot", "in", "notin") for o in ops)))
        # --- correspondence with the model
        for fname in ("DistanceFrom", "RelativeHeading"):
            rr = r[fname]
            if m == "INCONSISTENT":
                if rr["raw"] != "INCONSISTENT":
                    c.violation("correspondence", "model reports an inconsistent requirement, implementation does not", rep)
                continue
            if not m.startswith("OK"):
                c.violation("harness", "model driver failed", rep, no_input=True)
                break
            items = [x.split() for x in m[2:].split(" ; ") if x.strip()]
            mraw = [[int(x[0]), pq(x[1]), pq(x[2])] for x in items]
            if not isinstance(rr["raw"], list) or len(rr["raw"]) != len(mraw) or any(
                    a[0] != b[0] or not close(fq(a[1]), b[1]) or not close(fq(a[2]), b[2]) for a, b in zip(rr["raw"], mraw)):
                c.violation("correspondence", f"matchBounds ({fname}) differs from the model", dict(rep, which=fname))
                continue
            col = 3 if fname == "DistanceFrom" else 4
            mrel = []
            for x in items:
                if x[col] != "skip":
                    l, u = x[col].split(",")
                    mrel.append([int(x[0]), pq(l), pq(u)])
            if not isinstance(rr["rels"], list) or len(rr["rels"]) != len(mrel) or any(
                    a[0] != b[0] or not close(fq(a[1]), b[1]) or not close(fq(a[2]), b[2]) for a, b in zip(rr["rels"], mrel)):
                c.violation("correspondence", f"relations recorded by infer{fname}Relations differ from the model (clamps)",
                            dict(rep, which=fname, model_rels=[[a, str(b), str(d)] for a, b, d in mrel]))
        c.sample(dict(requirement=src, impl=r["DistanceFrom"], model=m), limit=3)

    # ================= H-a: relativeHeadingRange, iteration counts
    fcases = []
    g8 = [x / 8 for x in range(-25, 26)]
    for _ in range(nrh):
        ol = rng.choice([0, 0, -0.25, -0.5, -1])
        orr = rng.choice([0, 0, 0.25, 0.5, 1])
        tl = rng.choice([0, 0, -0.125, -0.5])
        tr = rng.choice([0, 0, 0.125, 0.5])
        fcases.append(dict(kind="rh", args=[rng.choice(g8), ol, orr, rng.choice(g8), tl, tr]))
    fcases.insert(0, dict(kind="rh", args=[3.0, 0, 0, -3.0, 0, 0]))
    for _ in range(niter):
        fcases.append(dict(kind="iters", dims=[rng.choice([0.2, 0.4, 1, 2, 5]) for _ in range(3)],
                           pitch=rng.choice([0.1, 0.25, 0.5, 0.05]), amount=rng.choice([0.3, 1, 2.5, 4])))
    # directed: the unit box at the origin, an off-origin rotated box, zero buffer
    fcases.append(dict(kind="bufbox", id="bd0", shape="boxregion", args=[1, 1, 1], position=[0, 0, 0], rotation=[0, 0, 0], buffer=1,
                       pitch=1, probe_seed=1, nprobe=12))
    fcases.append(dict(kind="bufbox", id="bd1", shape="boxregion", args=[6, 1, 1], position=[5, -3, 2], rotation=[0.7, 0.2, -0.4], buffer=3.2,
                       pitch=1, probe_seed=2, nprobe=12))
    fcases.append(dict(kind="bufbox", id="bd2", shape="cone", args=[2, 5], position=[-4, 0, 9], rotation=[1, 2, 3], center=False, buffer=0,
                       pitch=2, probe_seed=3, nprobe=12))
    for i in range(nbb):
        fcases.append(gen_bufbox(rng3, i))
    fres = common.run_impl("impl_c08.py", dict(kind="funcs", cases=fcases), timeout=3000)["results"]
    lines = []
    for cs, r in zip(fcases, fres):
        if cs["kind"] == "bufbox":
            if isinstance(r, dict) and "bounds" in r:
                lo, hi = r["bounds"]
                lines.append(f"BB {qt(cs['buffer'])} 3 " + " ".join(f"{qt(fq(a))} {qt(fq(b))}" for a, b in zip(lo, hi)))
            else:
                lines.append(f"BB {qt(cs['buffer'])} 0")
        elif cs["kind"] == "rh":
            lines.append("RH " + qt(PI) + " " + " ".join(qt(x) for x in cs["args"]))
        else:
            h = fq(r.get("h")) if isinstance(r, dict) and r.get("h") else Fraction(1)
            ext = fq(r.get("ext")) if isinstance(r, dict) and r.get("ext") else Fraction(1)
            lines.append(f"EI {qt(cs['amount'])} {qt(h)}")
            lines.append(f"BI {qt(cs['amount'])} {qt(cs['pitch'])} {qt(ext)}")
    fout = common.run_driver(exe, lines)
    li = 0

    def norm(a):
        while a > math.pi:
            a -= math.tau
        while a < -math.pi:
            a += math.tau
        return a
    for cs, r in zip(fcases, fres):
        if cs["kind"] == "bufbox":
            m = fout[li]; li += 1
            c.count(("bufbox", cs["id"], cs["shape"], tuple(cs["args"]), tuple(cs["position"]), tuple(cs["rotation"]), cs["buffer"]),
                    nontrivial=cs["buffer"] > 0)
            c.hist("bufbox:" + cs["shape"])
            rep = dict(case=cs, impl=r, model=m, which="_bufferOverapproximate fast path (pitch >= 1)")
            if not isinstance(r, dict) or "exc" in r:
                c.violation("buffer-box-raises", "_bufferOverapproximate(minBuffer, pitch >= 1) raises on a mesh volume region", rep)
                continue
            c.cov["traces_validated_against_impl"] += 1
            mm = [pq(x) for x in m.split()]
            mpos, mdim = mm[0::2], mm[1::2]
            b = Fraction(cs["buffer"])
            lo, hi = [[fq(x) for x in row] for row in r["bounds"]]
            tol = Fraction(1, 10 ** 7) * max([1] + [abs(x) for x in lo + hi] + [b])
            if r.get("cls") != "BoxRegion" or "position" not in r or len(mpos) != 3:
                c.violation("correspondence", "the fast path of _bufferOverapproximate does not return a BoxRegion", rep)
                continue
            ipos, idim = [fq(x) for x in r["position"]], [fq(x) for x in r["dimensions"]]
            if any(abs(a - bb) > tol for a, bb in zip(ipos + idim, mpos + mdim)):
                c.violation("correspondence", "the BoxRegion returned by _bufferOverapproximate(minBuffer, pitch >= 1) differs from the "
                            "model (position = midpoint of the mesh bounds, dimensions = extents + 2 minBuffer)",
                            dict(rep, model_position=[float(x) for x in mpos], model_dimensions=[float(x) for x in mdim],
                                 impl_position=[float(x) for x in ipos], impl_dimensions=[float(x) for x in idim]))
            # property oracle, independent of the model: every face at least minBuffer outside the mesh bounds, and points
            # within minBuffer of the mesh are inside the returned region
            rlo, rhi = [[fq(x) for x in row] for row in r["res_bounds"]]
            short = [ax for ax in range(3) if rlo[ax] > lo[ax] - b + tol or rhi[ax] < hi[ax] + b - tol]
            if short or r.get("probes_outside"):
                c.violation("buffer-box-insufficient", "the region returned by _bufferOverapproximate(minBuffer, pitch >= 1) does not contain "
                            "every point within minBuffer of the mesh", dict(rep, short_axes=short, probes_outside=r.get("probes_outside")))
        elif cs["kind"] == "rh":
            m = fout[li]; li += 1
            c.count(("rh", tuple(cs["args"])), nontrivial=True)
            ml, mu = [pq(x) for x in m.split()]
            if not isinstance(r, list) or not close(fq(r[0]), ml) or not close(fq(r[1]), mu):
                c.violation("correspondence", "relativeHeadingRange differs from the model", dict(args=cs["args"], impl=r, model=m))
                continue
            lo, hi = float(fq(r[0])), float(fq(r[1]))
            bh, ol, orr, th, tl, tr = cs["args"]
            bad = None
            for _ in range(12):
                p = bh + rng.uniform(ol, orr)
                tp = th + rng.uniform(tl, tr)
                actual = norm(tp - p)
                # the range holds differences of normalised headings in [-2pi, 2pi]; since fix dc7bbd32 its
                # consumer (feasibleRHPolygon) compares it with the bounds modulo 2pi, so soundness is modulo 2pi
                if not any(lo - 1e-9 <= actual + k * 2 * math.pi <= hi + 1e-9 for k in (-1, 0, 1)):
                    bad = dict(base=p, target=tp, actual_relative_heading=actual, range=[lo, hi])
                    break
            c.hist("rh:" + ("unsound" if bad else "sound"))
            if bad:
                c.violation("rh-unsound", "relativeHeadingRange does not contain the actual relative heading (modulo 2 pi)",
                            dict(args=cs["args"], witness=bad, range_outside_pi=bool(lo < -math.pi - 1e-9 or hi > math.pi + 1e-9),
                                 seam=True))
        else:
            me, mb = fout[li], fout[li + 1]; li += 2
            c.count(("iters", tuple(cs["dims"]), cs["pitch"], cs["amount"]), nontrivial=True)
            if not isinstance(r, dict) or "exc" in r:
                c.hist("iters-unobservable")
                continue
            if r.get("erode") is None:
                c.hist("iters-unobservable")
            elif -int(r["erode"]) != int(me, 0):
                c.violation("correspondence", "erosion iteration count differs from the model", dict(case=cs, impl=r, model=me))
            if cs["pitch"] < 1:
                asis, fixed = [int(x, 0) for x in mb.split()]
                if r.get("buffer") is None:
                    c.hist("iters-unobservable")
                else:
                    ext = float(fq(r["ext"]))
                    grown = int(r["buffer"]) * cs["pitch"] * ext
                    c.hist("buffer:" + ("insufficient" if grown < cs["amount"] - 1e-9 else "sufficient"))
                    if int(r["buffer"]) != asis and int(r["buffer"]) != fixed:
                        c.violation("correspondence", "dilation iteration count is neither the recorded nor the repaired formula",
                                    dict(case=cs, impl=r, model=mb))
                    if grown < cs["amount"] - 1e-9:
                        c.violation("buffer-insufficient", "dilation passes x voxel size is less than the requested buffer",
                                    dict(case=cs, impl=r, grown=grown, max_extent_below_1=bool(ext < 1)))

    # ================= H-a: maxDistanceBetween / visibilityBound plumbing on every ordered pair
    mdcases = [gen_maxdist(rng, i) for i in range(nmd)]
    mdres = common.run_impl("impl_c08.py", dict(kind="maxdist", cases=mdcases), timeout=3000)["results"]
    lines, keys = [], []
    for cs, r in zip(mdcases, mdres):
        if "pairs" not in r:
            continue
        for i, j, d, vb in r["pairs"]:
            lines.append(maxdist_line(cs, i, j))
            keys.append((cs, r, i, j, d))
    mdout = common.run_driver(exe, lines) if lines else []
    for cs, r in zip(mdcases, mdres):
        if "pairs" not in r:
            c.violation("harness", "maxDistanceBetween scenario does not compile", dict(case=cs, result=r), no_input=True)
    for (cs, r, i, j, d), m in zip(keys, mdout):
        finite = isinstance(d, list)
        c.count(("md", cs["src"], i, j), nontrivial=finite)
        c.hist("maxdist:" + ("finite" if finite else str(d)))
        c.cov["traces_validated_against_impl"] += 1
        masis, mfixed = m.split() if not m.startswith("FAIL") else ("FAIL", "FAIL")

        def agrees(mv):
            return (mv == "INF" and d == "INF") or (finite and mv not in ("INF", "ERR", "FAIL") and close(fq(d), pq(mv)))
        rep = dict(maxdist=cs, obj=i, target=j, impl=d, model=m, which="maxDistanceBetween")
        if masis == "ERR" and d == "EXC:TypeError":
            c.violation("maxdist-raises", "maxDistanceBetween raises TypeError: visibilityBound returned None (an unknown camera "
                        "offset bound) and is passed to min()", dict(rep, unknown_bound=True))
        elif not (agrees(masis) or (masis == "ERR" and agrees(mfixed))):
            c.violation("correspondence", "maxDistanceBetween differs from the model (which object's visibleDistance / camera "
                        "offset / radius bounds the distance between the two)", rep)

    # ================= H-b: pruned vs unpruned
    progs = [gen_directed(i, i) for i in range(10)] + [gen_program(rng, 10 + i) for i in range(nprog)]
    progs += [gen_visrand(rng3, i) for i in range(nvr)]
    for p in progs:
        p.setdefault("nscenes", nscenes)
        p.setdefault("budget", 20 if quick else 60)
    if c.replay:
        body = json.load(open(c.replay))
        pc = body.get("case", {}).get("program")
        if pc:
            progs = [pc]
    nw = max(1, min(8, common.NCPU, int(os.environ.get("VERIF_WORKERS", "8"))))
    chunks = [progs[i::nw] for i in range(nw)]
    chunks = [ch for ch in chunks if ch]
    results = {}
    with cf.ThreadPoolExecutor(len(chunks)) as ex:
        for r in ex.map(lambda ch: common.run_impl("impl_c08.py", dict(kind="programs", cases=ch), timeout=7000), chunks):
            for x in r["results"]:
                results[x["id"]] = x
    for p in progs:
        r = results.get(p["id"])
        meta = p["meta"]
        c.hist("program:" + meta["template"])
        if r is None or "crash" in r:
            c.violation("harness", "implementation driver crashed", dict(program=p, crash=(r or {}).get("crash")), no_input=True)
            continue
        if "unpruned_error" in r:
            c.hist("unpruned-compile-error")
            continue
        rep = dict(program=p, template=meta["template"], meta=meta, result=r)
        if r.get("pruned_invalid") and r.get("n_accepted", 0) > 0:
            c.violation("pruned-infeasible", "pruning reports a scenario infeasible although the unpruned program generated scenes", rep)
            continue
        if r.get("pruned_timeout"):
            c.violation("pruning-nontermination", "compiling with pruning does not terminate (the unpruned compilation took "
                        f"{r.get('unpruned_compile_s')} s)", rep)
            continue
        if "pruned_error" in r:
            if r.get("n_accepted", 0) > 0:
                c.violation("pruned-compile-error", "compiling with pruning fails although the unpruned program generates scenes", rep)
            continue
        if r.get("compile_s", 0) > 120:
            c.violation("pruning-slow", "compilation with pruning exceeded the time budget", rep)
        checked = sum(o.get("checked", 0) for o in r["objects"])
        conditioned = any(o.get("conditioned") for o in r["objects"])
        c.count((p["src"],), nontrivial=conditioned and checked > 0, n=max(1, checked))
        c.cov["traces_validated_against_impl"] += checked
        c.hist("conditioned" if conditioned else "not-conditioned")
        if any(o.get("substituted") and o.get("checked") for o in r["objects"]):
            c.hist("random-pruned-region-evaluated-at-scene:" + meta["template"])
        for o in r["objects"]:
            if o.get("contains_error"):
                c.hist("contains-error:" + o["contains_error"].split(":")[0])
        if any(o.get("outside") for o in r["objects"]):
            c.violation("pruned-region-excludes-feasible", "a scene accepted without pruning has an object position outside the pruned sampling region",
                        dict(rep, outside=r["outside"], counts=[[o.get("outside"), o.get("checked")] for o in r["objects"]]))
        if any(o.get("touched") for o in r["objects"]):
            c.violation("non-positional-touched", "pruning conditioned a property other than position", rep)
        if r.get("n_accepted", 0) > 0 and r.get("pruned_gen_ok", 0) == 0:
            c.violation("pruned-infeasible", "the pruned scenario generates no scene although the unpruned one does", rep)
        c.sample(dict(program=p["src"], accepted=r.get("n_accepted"), objects=r["objects"]), limit=6)
    c.assumptions += [
        "pi enters the model as the exact rational of math.pi; floats as exact rationals, tolerance 1e-9",
        "shapely / trimesh / voxel operations are not modelled: H-b observes their effect on generated programs",
        "extraction via ExtrOcamlBasic only; OCaml compiler; driver ocaml/c08/driver.ml",
        "iteration counts are observed by replacing VoxelRegion.dilation from the harness process",
    ]
    if os.environ.get("VERIF_DEBUG"):
        with open(os.path.join(common.WORK, "c08_viol.json"), "w") as f:
            json.dump([dict(kind=k, what=w, replay=r) for k, w, r, _ in c.violations], f, default=str)
    c.finish()


if __name__ == "__main__":
    main()
