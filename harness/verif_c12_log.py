"""Logging back end shared by the generated Scenic programs of C12/C13 and the logging Simulation
subclass (harness/impl_c12.py).  Generated programs `import verif_c12_log as L`."""
LOG = []
SIM = None
TAB = []


def ev(*a):
    LOG.append(list(a))


def c(x):
    """condition: a constant or a truth-table row looked up at the current time step (step 0 while the scene
    is being sampled: SIM is None then)"""
    if x is True or x is False:
        return x
    row = TAB[x] if x < len(TAB) else []
    k = SIM.currentTime if SIM is not None else 0
    return bool(row[k]) if k < len(row) else False


def q(sid, rid, atom, x):
    """atomic proposition `atom` of temporal requirement `rid` stated by scenario `sid`"""
    LOG.append(["Q", sid, rid, atom])
    return c(x)


def tw(sid, idx, x):
    LOG.append(["TW", sid, idx])
    return c(x)


def tc(idx, x):
    LOG.append(["TC", idx])
    return c(x)


def r(rid):
    LOG.append(["R", rid])
    return SIM.currentTime
