"""C05 implementation side (runs under /venv/bin/python with Scenic from $VERIF_REPO).
JSON in: {"cases": [...]}; JSON out: {"results": [...]}.  For every case: compile the Scenic program,
sample it with a seeded RNG, read the sampled values of the random leaves, evaluate the *same
expression text with plain Python* on those values (the oracle), and report both."""
import json
import math
import random
import sys
import traceback


def enc(v):
    if v is None:
        return ["N"]
    if isinstance(v, bool):
        return ["B", int(v)]
    if isinstance(v, int):
        return ["I", str(v)]
    if isinstance(v, float):
        if math.isfinite(v):
            n, d = v.as_integer_ratio()
            return ["F", str(n), str(d)]
        return ["X", repr(v)]
    if type(v) in (tuple, list):
        items = [enc(x) for x in v]
        if all(i[0] in "NBIF" for i in items):
            return ["T" if type(v) is tuple else "L", items]
    cs = getattr(v, "coordinates", None)
    if type(v).__name__ in ("Vector", "PV") and isinstance(cs, tuple) and len(cs) == 3:
        items = [enc(x) for x in cs]
        if all(i[0] in "BIF" for i in items):
            return ["V", items]
    return ["X", repr(v)[:80]]


class PV:
    """independent plain-Python 3D vector for the oracle of the vector cases (no shortcuts, no Scenic code)."""

    def __init__(self, x, y, z=0):
        self.coordinates = (x, y, z)

    def __getitem__(self, i):
        return self.coordinates[i]

    def __len__(self):
        return 3

    def __add__(self, o):
        return PV(self[0] + o[0], self[1] + o[1], self[2] + o[2])

    def __radd__(self, o):
        return PV(o[0] + self[0], o[1] + self[1], o[2] + self[2])

    def __sub__(self, o):
        return PV(self[0] - o[0], self[1] - o[1], self[2] - o[2])

    def __rsub__(self, o):
        return PV(o[0] - self[0], o[1] - self[1], o[2] - self[2])

    def __mul__(self, k):
        return PV(*(c * k for c in self.coordinates))

    __rmul__ = __mul__

    def __truediv__(self, k):
        return PV(*(c / k for c in self.coordinates))

    def rotatedBy(self, a):
        x, y, z = self.coordinates
        c, s = math.cos(a), math.sin(a)
        return PV(c * x - s * y, s * x + c * y, z)

    def __repr__(self):
        return "PV" + repr(self.coordinates)


def same(a, b):
    """Python equality, with a numeric tolerance fallback; returns 'eq' | 'close' | 'ne'."""
    try:
        ca, cb = getattr(a, "coordinates", None), getattr(b, "coordinates", None)
        if isinstance(ca, tuple) or isinstance(cb, tuple):
            if not (isinstance(ca, tuple) and isinstance(cb, tuple) and len(ca) == len(cb)):
                return "ne"
            if all(type(x) is type(y) and x == y for x, y in zip(ca, cb)):
                return "eq"
            ok = all(isinstance(x, (int, float)) and isinstance(y, (int, float)) and
                     math.isclose(x, y, rel_tol=1e-9, abs_tol=1e-9) for x, y in zip(ca, cb))
            return "close" if ok else "ne"
        if type(a) in (tuple, list) and type(a) is type(b) and len(a) == len(b):
            rs = [same(x, y) for x, y in zip(a, b)]
            return "ne" if "ne" in rs else ("close" if "close" in rs else "eq")
        if bool(a == b):
            return "eq"
        if isinstance(a, float) and isinstance(b, float) and math.isnan(a) and math.isnan(b):
            return "eq"      # numpy floats: 0 // 0.0 is nan (no ZeroDivisionError) on both sides
        if isinstance(a, (int, float)) and isinstance(b, (int, float)):
            if math.isclose(a, b, rel_tol=1e-9, abs_tol=1e-9):
                return "close"
        if hasattr(a, "coordinates") and hasattr(b, "coordinates"):
            if all(math.isclose(x, y, rel_tol=1e-9, abs_tol=1e-9) for x, y in zip(a.coordinates, b.coordinates)):
                return "close"
    except Exception:
        pass
    return "ne"


def oracle_env():
    import collections
    from scenic.core.vectors import Vector
    return {"max": max, "min": min, "abs": abs, "hypot": math.hypot, "sin": math.sin, "cos": math.cos,
            "Vector": Vector, "round": round, "namedtuple": collections.namedtuple, "__name__": "oracle",
            "__builtins__": {"len": len, "tuple": tuple, "list": list, "sum": sum, "type": type, "sorted": sorted,
                             "max": max, "min": min, "abs": abs, "divmod": divmod}}


def tyclass(v):
    """coarse Python type of a value: numpy scalars count as the Python number types they subclass / mimic."""
    import numpy
    if isinstance(v, (bool, numpy.bool_)):
        return "bool"
    if isinstance(v, (int, numpy.integer)):
        return "int"
    if isinstance(v, (float, numpy.floating)):
        return "float"
    return type(v).__name__


def same_typed(a, b):
    """value AND type equality (the kind of container is observable: list vs tuple vs namedtuple)."""
    if tyclass(a) != tyclass(b):
        return False
    if isinstance(a, (tuple, list)):
        return len(a) == len(b) and all(same_typed(x, y) for x, y in zip(a, b))
    if isinstance(a, dict):
        return a.keys() == b.keys() and all(same_typed(a[k], b[k]) for k in a)
    return same(a, b) != "ne"


def enc_any(v):
    e = enc(v)
    return e if e[0] != "X" else ["X", tyclass(v) + ":" + repr(v)[:80]]


def run_expr_case(case):
    import numpy
    import scenic
    from scenic.core.distributions import Samplable, supportInterval, RejectionException, needsSampling
    from scenic.core.utils import DefaultIdentityDict
    out = dict(id=case["id"])
    lines = [case.get("prelude", "")]
    for d in case["defs"]:
        lines.append(f"{d['var']} = {d['scenic']}")
    lines.append(f"param out = {case['expr']}")
    for d in case["defs"]:
        lines.append(f"param {d['var']} = {d['var']}")
    lines.append("ego = new Object")
    src = "\n".join(lines) + "\n"
    out["src"] = src
    random.seed(case["seed"])
    numpy.random.seed(case["seed"])
    try:
        scenario = scenic.scenarioFromString(src)
    except Exception as e:
        out["compile_error"] = type(e).__name__
        out["msg"] = str(e)[:200]
        return out
    dist = scenario.params["out"]
    out["random"] = bool(needsSampling(dist))
    try:
        l, u = supportInterval(dist)
        out["support"] = [None if l is None else enc(float(l) if not isinstance(l, (int, float)) else l),
                          None if u is None else enc(float(u) if not isinstance(u, (int, float)) else u)]
        lo, hi = l, u
    except Exception as e:
        out["support_raise"] = type(e).__name__
        lo = hi = None
    leafobjs = []
    for d in case["defs"]:
        obj = scenario.params[d["var"]]
        leafobjs.append(obj.index if d["kind"] == "mux" else obj)
    samples = []
    plans = [("rand", k) for k in range(case["nsamples"])]
    corners = case.get("corners")
    if corners:
        import itertools
        vals = []
        for d in case["defs"]:
            cv = corners[d["var"]]
            vals.append([float(x) if d.get("cfloat") else int(x) for x in cv])
        combos = list(itertools.product(*vals))
        if len(combos) > case.get("maxcorners", 16):
            random.Random(case["seed"]).shuffle(combos)
            combos = combos[:case.get("maxcorners", 16)]
        plans += [("corner", cb) for cb in combos]
    for kind, k in plans:
        rec = {}
        if kind == "corner":
            # the expression evaluated at the extreme values of its leaves (attainable: closed supports)
            rec["corner"] = True
            sub = DefaultIdentityDict()
            for o, v in zip(leafobjs, k):
                if needsSampling(o):
                    sub[o] = v
            try:
                val = ("ok", (sub[dist] if dist in sub else dist.sample(sub)) if needsSampling(dist) else dist)
            except RejectionException:
                continue
            except Exception as e:
                val = ("exc", type(e).__name__, str(e)[:120])
        else:
            random.seed(case["seed"] * 1000 + k)
            numpy.random.seed(case["seed"] * 1000 + k)
            try:
                if k == 0:
                    # end to end: the public path
                    scene, _ = scenario.generate(maxIterations=200, verbosity=0)
                    sub = scene.sample
                    val = ("ok", scene.params["out"])
                else:
                    sub = Samplable.sampleAll([o for o in leafobjs if needsSampling(o)])
                    try:
                        val = ("ok", (sub[dist] if dist in sub else dist.sample(sub)) if needsSampling(dist) else dist)
                    except RejectionException:
                        continue
                    except Exception as e:
                        val = ("exc", type(e).__name__, str(e)[:120])
            except RejectionException:
                continue
            except Exception as e:
                # generate() failed: redo by hand so that the leaves are known
                try:
                    random.seed(case["seed"] * 1000 + k)
                    sub = Samplable.sampleAll([o for o in leafobjs if needsSampling(o)])
                    try:
                        val = ("ok", (sub[dist] if dist in sub else dist.sample(sub)) if needsSampling(dist) else dist)
                    except RejectionException:
                        continue
                    except Exception as e2:
                        val = ("exc", type(e2).__name__, str(e2)[:120])
                except RejectionException:
                    continue
                except Exception as e3:
                    rec["leaf_exc"] = type(e3).__name__
                    samples.append(rec)
                    continue
        env = oracle_env()
        if case.get("top") == "vec3":
            env["Vector"] = PV
        leaves = {}
        try:
            for d, o in zip(case["defs"], leafobjs):
                sv = sub[o] if needsSampling(o) else o
                if isinstance(sv, numpy.generic):
                    # e.g. TruncatedNormal samples are numpy.float64: x / 0 is inf (RuntimeWarning), not ZeroDivisionError
                    rec["np_leaves"] = True
                if d["kind"] == "mux":
                    leaves[d["idx"]] = enc(sv)
                    env[d["var"]] = eval(d["py"], env)[sv]
                else:
                    leaves[d["idx"]] = enc(sv)
                    if case.get("top") == "vec3" and hasattr(sv, "coordinates"):
                        sv = PV(*sv.coordinates)
                    env[d["var"]] = sv
            pv = ("ok", eval(case["py"], env))
        except Exception as e:
            pv = ("exc", type(e).__name__, str(e)[:120])
        rec["leaves"] = leaves
        if val[0] == "ok":
            rec["impl"] = enc(val[1])
            if lo is not None or hi is not None:
                v = val[1]
                if isinstance(v, (int, float)):
                    rec["in_support"] = bool((lo is None or lo - 1e-9 * max(1, abs(lo)) <= v) and
                                             (hi is None or v <= hi + 1e-9 * max(1, abs(hi))))
        else:
            rec["impl_exc"] = val[1]
            rec["impl_msg"] = val[2]
        if pv[0] == "ok":
            rec["py"] = enc(pv[1])
        else:
            rec["py_exc"] = pv[1]
        if val[0] == "ok" and pv[0] == "ok":
            rec["cmp"] = same(val[1], pv[1])
            rec["types"] = [type(val[1]).__name__, type(pv[1]).__name__]
        samples.append(rec)
    out["samples"] = samples
    return out


def run_delayed_case(case):
    """Class defaults / specifier arguments referring to other properties of the object under
    construction: they must see the final values of those properties."""
    import numpy
    import scenic
    out = dict(id=case["id"], src=case["src"])
    random.seed(case["seed"])
    numpy.random.seed(case["seed"])
    try:
        scenario = scenic.scenarioFromString(case["src"])
    except Exception as e:
        out["compile_error"] = type(e).__name__
        out["msg"] = str(e)[:300]
        return out
    samples = []
    for k in range(case["nsamples"]):
        random.seed(case["seed"] * 1000 + k)
        numpy.random.seed(case["seed"] * 1000 + k)
        rec = {}
        try:
            scene, _ = scenario.generate(maxIterations=200, verbosity=0)
        except Exception as e:
            rec["impl_exc"] = type(e).__name__
            rec["impl_msg"] = str(e)[:160]
            samples.append(rec)
            continue
        ego = scene.egoObject
        env = oracle_env()
        env.update(case.get("helpers_py_env", {}))
        exec(case.get("helpers_py", ""), env)
        env["self"] = ego
        rec["props"] = {p: enc_any(getattr(ego, p)) for p in case["props"]}
        checks = []
        for chk in case["checks"]:
            if not isinstance(chk, dict):
                chk = dict(prop=chk[0], alts=chk[1])
            prop = chk["prop"]
            got = getattr(ego, prop)
            typed = chk.get("typed", False)
            alts = []
            for py in chk.get("alts", []):
                try:
                    alts.append(("ok", eval(py, env)))
                except Exception as e:
                    alts.append(("exc", type(e).__name__))
            ok = any((same_typed(got, a[1]) if typed else same(got, a[1]) != "ne") for a in alts if a[0] == "ok")
            res = dict(prop=prop, text=chk.get("text"), got=enc_any(got), got_type=tyclass(got),
                       want=[(enc_any(a[1]) if a[0] == "ok" else ["E", a[1]]) for a in alts],
                       want_types=[tyclass(a[1]) for a in alts if a[0] == "ok"])
            if chk.get("between"):
                try:
                    lo, hi = (eval(x, env) for x in chk["between"])
                    ok = isinstance(got, (int, float)) and lo - 1e-9 <= got <= hi + 1e-9
                    if chk.get("alts_type") == "int":
                        ok = ok and tyclass(got) == "int"
                    res["between"] = [enc_any(lo), enc_any(hi)]
                except Exception as e:
                    ok = False
                    res["between"] = ["E", type(e).__name__]
            res["ok"] = bool(ok)
            checks.append(res)
        rec["checks"] = checks
        samples.append(rec)
    out["samples"] = samples
    return out


def main():
    payload = json.load(sys.stdin)
    res = []
    for case in payload["cases"]:
        try:
            if case.get("kind") == "delayed":
                res.append(run_delayed_case(case))
            else:
                res.append(run_expr_case(case))
        except Exception as e:
            res.append(dict(id=case.get("id"), crash=traceback.format_exc()[-1500:]))
    print(json.dumps(dict(results=res)))


if __name__ == "__main__":
    main()
