"""C20 helper: turn the plain-data export of a Network (impl_c20.export_network) into Gallina data for
coq/C20/Network.v, and parse what the kernel printed back."""
import hashlib
import re

MTYPE = {"STRAIGHT": 1, "LEFT_TURN": 2, "RIGHT_TURN": 3, "U_TURN": 4}

RULES = {
    1: "successor names an element whose predecessor flows into it (weak reciprocity)",
    2: "predecessor names an element whose successor flows out of it (weak reciprocity)",
    3: "adjacent lanes are mutual (and lie on the same road)",
    4: "every maneuver of a lane starts at that lane",
    5: "successor on an ordinary road names a predecessor back (strict reciprocity, ordinary roads)",
    6: "predecessor on an ordinary road names a successor back (strict reciprocity, ordinary roads)",
    7: "laneToLeft is mirrored by the left lane (right/left by direction) and is exactly one of faster/slower",
    8: "laneToRight is mirrored by the right lane (left/right by direction) and is exactly one of faster/slower",
    9: "faster/slower lanes are among laneToLeft/laneToRight",
    10: "opposite lane groups are mutual and of the same road",
    11: "maneuver is listed by its start lane",
    12: "maneuver end lane is a lane",
    13: "connecting lane links start lane to end lane and lies on a connecting road",
    14: "maneuver is listed by its intersection, start lane incoming, end lane outgoing",
    15: "maneuver without connecting lane is a STRAIGHT merger into the start lane's successor, outside intersections",
    16: "intersection maneuvers point back to the intersection and have a connecting lane",
    17: ("incoming lane: road among the intersection's roads, it has a successor and (when that successor leads on) some maneuver of "
         "the intersection passes through it, its maneuvers belong to the intersection"),
    18: "outgoing lane: road among the intersection's roads",
    19: "intersection roads are roads",
    20: "sidewalk crossings point back", 21: "crossing sidewalks list the crossing",
    31: "lane is listed by its group (same road)", 32: "lane is listed by its road",
    33: "lane sections point back to the lane, its group and road", 34: "lane sections are distinct and chained by successor/predecessor",
    35: "lane is in Network.lanes", 36: "group is forwardLanes or backwardLanes of its road, opposite is the other",
    37: "group lanes point back to the group", 38: "group sidewalk belongs to the road", 39: "group shoulder points back",
    40: "bike lane on the same road", 41: "group is in Network.laneGroups",
    42: "lane section is listed by its lane (same group and road)", 43: "lane section direction matches its group; owned by a road section",
    44: "lane section group is a group", 45: "isForward iff openDriveID < 0", 46: "lane section is in Network.laneSections",
    47: "road section is listed by its road", 48: "road section lanes = forward ++ backward, distinct",
    49: "road section forward/backward lanes have that direction and road", 50: "lanesByOpenDriveID maps ids to the section's lanes",
    51: "road has a lane group", 52: "laneGroups = forwardLanes, backwardLanes", 53: "road groups point back",
    54: "road lanes point back, distinct", 55: "road sections point back, distinct, chained", 56: "road sidewalks point back",
    57: "road is in Network.allRoads", 58: "sidewalk road / Network.sidewalks", 59: "shoulder road, group / Network.shoulders",
    60: "intersection in Network.intersections", 61: "crossing in Network.crossings",
    71: "uids distinct", 72: "Network.elements keys are the elements' uids in order", 73: "allRoads = roads + connectingRoads",
    74: "network lists hold elements of their kind", 75: "Network.lanes = lanes of allRoads", 76: "roadSections = sections of roads",
    77: "laneSections = sections of lanes", 78: "network lists have no duplicates",
}


class Interner:
    """uid string -> positive (2..); 1 is reserved for a dangling link (a raw OpenDRIVE id left in a link)."""

    def __init__(self):
        self.ids = {}
        self.names = {1: "<raw>"}

    def add(self, s):
        if s == "<raw>":
            return 1
        if s not in self.ids:
            self.ids[s] = len(self.ids) + 2
            self.names[self.ids[s]] = s
        return self.ids[s]


def _o(it, v):
    return "N_" if v is None else f"(Some {it.add(v)})"


def _l(it, vs):
    return "[" + ";".join(str(it.add(v)) for v in vs) + "]"


def elem_term(it, e, man_base):
    u = it.add(e["uid"])
    g = e["geo"]
    c = e["cls"]
    o = lambda k: _o(it, e.get(k))
    l = lambda k: _l(it, e.get(k) or [])
    ml = lambda k: "[" + ";".join(str(man_base + i) for i in e.get(k) or []) + "]"
    sp = f"{o('_successor')} {o('_predecessor')}"
    if c == "Road":
        return f"mkRoad {u} {g} {sp} {o('forwardLanes')} {o('backwardLanes')} {l('lanes')} {l('laneGroups')} {l('sections')} {l('crossings')} {l('sidewalks')}"
    if c == "LaneGroup":
        return f"mkGroup {u} {g} {sp} {o('road')} {l('lanes')} {o('_sidewalk')} {o('_bikeLane')} {o('_shoulder')} {o('_opposite')}"
    if c == "Lane":
        return f"mkLane {u} {g} {sp} {o('group')} {o('road')} {l('sections')} {l('adjacentLanes')} {ml('maneuvers')}"
    if c == "RoadSection":
        ids = "[" + ";".join(f"(({i})%Z,{it.add(x)}%positive)" for i, x in e["lanesByOpenDriveID"]) + "]"
        return f"mkRoadSec {u} {g} {sp} {o('road')} {l('lanes')} {l('forwardLanes')} {l('backwardLanes')} {ids}"
    if c == "LaneSection":
        return (f"mkLaneSec {u} {g} {sp} {o('lane')} {o('group')} {o('road')} ({e['openDriveID']})%Z {'true' if e['isForward'] else 'false'} "
                f"{l('adjacentLanes')} {o('_laneToLeft')} {o('_laneToRight')} {o('_fasterLane')} {o('_slowerLane')}")
    if c == "Sidewalk":
        return f"mkSidewalk {u} {g} {sp} {o('road')} {l('crossings')}"
    if c == "PedestrianCrossing":
        return f"mkCrossing {u} {g} {sp} {o('parent')} {o('startSidewalk')} {o('endSidewalk')}"
    if c == "Shoulder":
        return f"mkShoulder {u} {g} {sp} {o('road')} {o('group')}"
    if c == "Intersection":
        return f"mkInter {u} {g} {l('roads')} {l('incomingLanes')} {l('outgoingLanes')} {ml('maneuvers')} {l('crossings')}"
    raise ValueError("unknown class " + c)


def net_term(it, d, man_base, elems_name=None, elems_only=False):
    """Gallina term of type net for one exported network."""
    # intern element uids first, in the order of Network.elements
    for e in d["elems"]:
        it.add(e["uid"])
    es = [elem_term(it, e, man_base) for e in d["elems"]]
    for i, m in enumerate(d["mans"], 1):
        es.append(f"mkMan {man_base + i} {MTYPE[m['type']]} {_o(it, m['startLane'])} {_o(it, m['endLane'])} "
                  f"{_o(it, m['connectingLane'])} {_o(it, m['intersection'])}")
    n = d["net"]
    tol = int.from_bytes(hashlib.blake2b(repr(n["tolerance"]).encode(), digest_size=6).digest(), "big")
    parts = ["[" + ";\n  ".join(es) + "]" if elems_name is None else elems_name]
    if elems_only:
        return "[" + ";\n  ".join(es) + "]"
    parts.append(_l(it, n["elements"]))
    for k in ("roads", "connectingRoads", "allRoads", "laneGroups", "lanes", "intersections", "crossings", "sidewalks",
              "shoulders", "roadSections", "laneSections"):
        parts.append(_l(it, n[k]))
    parts.append("true" if n["driveOnLeft"] else "false")
    parts.append(str(tol))
    return "(mkNet\n  " + "\n  ".join(parts) + ")"


PICKLE_MAX = None   # set by the harness: largest network (elements + maneuvers) for which pickle_bad is evaluated (it is quadratic)


def map_file(modname, parsed, cached, suffix=""):
    """The generated per-map file: both networks, the failing (uid, rule) lists printed for the harness,
    the equivalence goal, and the reflection theorems instantiated."""
    it = Interner()
    for e in parsed["elems"]:
        it.add(e["uid"])
    for e in cached["elems"]:
        it.add(e["uid"])
    # maneuver ids live above every element id that can be interned later
    man_base = 10 * (len(it.ids) + len(parsed["mans"]) + 10)
    ep = net_term(it, parsed, man_base, elems_only=True)
    ec = net_term(it, cached, man_base, elems_only=True)
    S = suffix
    # the element lists are emitted once when the two exports print to the same term (coqc spends its time
    # elaborating these lists); any difference gives two terms and net_equiv decides
    pre = f"Definition pelems{S} : list elem := {ep}.\n"
    if ec == ep:
        cname = f"pelems{S}"
    else:
        pre += f"Definition celems{S} : list elem := {ec}.\n"
        cname = f"celems{S}"
    tp = net_term(it, parsed, man_base, elems_name=f"pelems{S}")
    tc = net_term(it, cached, man_base, elems_name=cname)
    if len(it.ids) + 2 >= man_base:
        raise ValueError("uid space overflow")
    size = len(parsed["elems"]) + len(parsed["mans"])
    pickle_expr = f"pickle_bad parsed{S}" if PICKLE_MAX is None or size <= PICKLE_MAX else "[3333333333%positive]"
    text = f"""(* ---- {modname} *)
{pre}Definition parsed{S} : net := {tp}.
Definition cached{S} : net := {tc}.
Definition lbad{S} := Eval vm_compute in links_bad parsed{S}.
Definition hbad{S} := Eval vm_compute in hierarchy_bad parsed{S}.
Definition equiv{S} := Eval vm_compute in net_equiv parsed{S} cached{S}.
Definition pbad{S} := Eval vm_compute in {pickle_expr}.
Print lbad{S}. Print hbad{S}. Print equiv{S}. Print pbad{S}.
(* the pickle placeholder protocol restores every reference of this network (reconnect_inverse) *)
Theorem pickle_instance{S} : pbad{S} = [] ->
  setstate parsed{S} (index (elems parsed{S})) (map getstate (elems parsed{S})) = Some (map direct (elems parsed{S})).
Proof. intros H. apply reconnect_inverse. apply pickle_bad_nil. vm_cast_no_check H. Qed.
(* reflection: every element not named in the printed lists satisfies every linkage / hierarchy rule *)
Theorem links_instance{S} : ReciprocalExcept parsed{S} lbad{S}.
Proof. apply links_bad_sound. vm_cast_no_check (eq_refl lbad{S}). Qed.
Theorem hierarchy_instance{S} : HierarchyExcept parsed{S} hbad{S}.
Proof. apply hierarchy_bad_sound. vm_cast_no_check (eq_refl hbad{S}). Qed.
(* the cached network: equal to the parsed one when net_equiv says so (then the instances transfer) *)
Theorem cached_instance{S} : equiv{S} = true ->
  cached{S} = parsed{S} /\\ ReciprocalExcept cached{S} lbad{S} /\\ HierarchyExcept cached{S} hbad{S}.
Proof.
  intros H. assert (E : parsed{S} = cached{S}) by (apply net_equiv_eq; exact H).
  rewrite <- E. split; [reflexivity|]. split; [exact links_instance{S} | exact hierarchy_instance{S}].
Qed.
"""
    return text, it, man_base


HEADER = """(* generated by harness/c20.py from the networks Scenic built - do not edit *)
From Coq Require Import List Bool PArith NArith ZArith.
From Scenic Require Import C20.Network C20.NetworkProofs C20.Pickle C20.MoreProofs.
Import ListNotations.
Open Scope positive_scope.
"""


def parse_printed(out):
    """{name: value} for `name = [...] : list ...` / `name = true` blocks printed by coqc."""
    res = {}
    for m in re.finditer(r"^(\w+) =\s*(.*?)\n\s*: ", out, flags=re.S | re.M):
        name, body = m.group(1), m.group(2)
        if name.startswith("equiv"):
            res[name] = body.strip() == "true"
        elif name.startswith(("ptbad", "lcbad", "covern")):
            res[name] = [int(x) for x in re.findall(r"(\d+)%N", body)]
        elif name.startswith("pbad"):
            res[name] = [int(x) for x in re.findall(r"\d+", body)]
        else:
            res[name] = [(int(a), int(b)) for a, b in re.findall(r"\(\s*(\d+)\s*,\s*(\d+)", body)]
    return res
