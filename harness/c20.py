"""C20 — road networks are internally consistent for every map, cached or parsed.

Proof layer: coq/Properties/C20.v (certified checkers links_bad / hierarchy_bad / net_equiv, the two-pass
lookup, the cache decision, the options framing).
(G) per (map, options): the network Scenic BUILT is exported (fail-closed) as gen/C20_Net_<case>.v and the
    kernel evaluates the checkers on every element by vm_compute, for the parsed and for the cached network,
    and net_equiv parsed cached.
(H) geometry stays differential: sampled points, every lookup vs the model's find_point_in fed with the
    elements' own containsPoint/distanceTo answers (evaluated by the kernel in the same file), plus the
    property oracle (containment within tolerance, children in parents, drivable area covered, direction
    tangent to the lane centreline); cache protocol probes vs the model's from_file; options digests vs the
    model's framing."""
import concurrent.futures as cf
import glob
import hashlib
import json
import math
import os
import re
import shutil
import struct
import subprocess
import sys
import threading
import time

sys.path.insert(0, os.path.dirname(os.path.abspath(__file__)))
import common
from common import Check
import c20_gen

PID = "C20"
TAG = "" if common.REPO == "/repo" else "_" + common.sha(common.REPO)[:6]   # concurrent runs on scratch worktrees
SCRATCH = os.path.join(common.WORK, "c20" + TAG)
ONLY = os.environ.get("VERIF_C20_ONLY")   # development knob: regex restricting the maps
WORKERS = int(os.environ.get("VERIF_WORKERS", "8"))
DEFAULTS = {"ref_points": 20, "tolerance": 0.05, "fill_gaps": True, "fill_intersections": True,
            "elide_short_roads": False}


# ----------------------------------------------------------------------------- cases
def find_maps():
    maps, skipped = [], []
    for root in ("assets/maps", "tests/formats/opendrive/maps"):
        for p in sorted(glob.glob(os.path.join(common.REPO, root, "**", "*.xodr"), recursive=True)):
            if ONLY and not re.search(ONLY, p):
                continue
            (maps if os.path.getsize(p) > 0 else skipped).append(p)
    return maps, skipped


def opt_combos(tier, size):
    small = size < 300_000
    if tier == "quick":
        if size < 60_000:
            return [{}, {"tolerance": 0.2, "fill_intersections": False}, {"elide_short_roads": True, "fill_gaps": False}]
        if small:
            return [{}, {"tolerance": 0.2, "fill_gaps": False}]
        return [{}]
    out = [{}]
    i = 0
    for fg in (True, False):
        for fi in (True, False):
            for el in (False, True):
                o = {"fill_gaps": fg, "fill_intersections": fi, "elide_short_roads": el,
                     "tolerance": [0.05, 0.2, 0.01][i % 3]}
                i += 1
                if small or (fg, fi, el) in ((True, True, True), (False, False, False), (True, False, False)):
                    out.append(o)
    if small:
        out.append({"ref_points": 7, "tolerance": 0.1})
    return out


def mutate_map(src, dst, rng):
    """A mutated variant of a map: one textual change that keeps the XML well formed."""
    text = open(src, encoding="utf-8", errors="replace").read()
    kinds = ["width", "droplink", "lanetype", "length"]
    rng.shuffle(kinds)
    for k in kinds:
        if k == "width":
            ms = list(re.finditer(r'(<width [^>]*\ba=")([-+0-9.eE]+)(")', text))
            if ms:
                m = rng.choice(ms)
                try:
                    v = float(m.group(2)) * rng.choice([0.5, 1.5, 0.9])
                except ValueError:
                    continue
                text = text[:m.start(2)] + repr(v) + text[m.end(2):]
                break
        if k == "droplink":
            ms = list(re.finditer(r'[ \t]*<(?:predecessor|successor) id="-?\d+"\s*/>\s*\n', text))
            if ms:
                m = rng.choice(ms)
                text = text[:m.start()] + text[m.end():]
                break
        if k == "lanetype":
            ms = list(re.finditer(r'(<lane [^>]*\btype=")(driving|sidewalk|shoulder|parking|border|none)(")', text))
            if ms:
                m = rng.choice(ms)
                new = rng.choice([t for t in ("driving", "sidewalk", "shoulder", "none") if t != m.group(2)])
                text = text[:m.start(2)] + new + text[m.end(2):]
                break
        if k == "length":
            ms = list(re.finditer(r'(<geometry [^>]*\blength=")([-+0-9.eE]+)(")', text))
            if ms:
                m = rng.choice(ms)
                try:
                    v = float(m.group(2)) * rng.choice([0.98, 1.02])
                except ValueError:
                    continue
                text = text[:m.start(2)] + repr(v) + text[m.end(2):]
                break
    else:
        k = "none"
    with open(dst, "w", encoding="utf-8") as f:
        f.write(text)
    return k


def cache_variants(rng, opts, quick):
    full = dict(DEFAULTS)
    full.update(opts)
    vs = [dict(kind="same"), dict(kind="nocache", useCache=False)]
    vs += [dict(kind="version", version=v) for v in ("+1", "-1", 0)]
    for _ in range(1 if quick else 3):
        vs.append(dict(kind="digest-byte", pos=rng.randrange(64), xor=rng.randrange(1, 256)))
        vs.append(dict(kind="optdigest-byte", pos=rng.randrange(8), xor=rng.randrange(1, 256)))
        vs.append(dict(kind="map-byte", pos=rng.randrange(10 ** 7), xor=rng.randrange(1, 256)))
    vs.append(dict(kind="map-append", data=rng.choice([" ", "\n", "<!-- x -->"])))
    for n in ([0, 3, 50, 75, 76, 400] if quick else [0, 1, 3, 4, 5, 50, 67, 68, 70, 75, 76, 77, 200, 400, 5000]):
        vs.append(dict(kind="truncate", len=n))
    # change each option on its own to a value of EVERY value class (False / 0 / 0.0 / None / '' as well as truthy values;
    # explicitly given options: passing a default explicitly also changes the digest) against the cache written under `opts`
    pools = {"tolerance": [0, 0.0, None, DEFAULTS["tolerance"], full["tolerance"] + 0.01, 1e-9, 1],
             "fill_gaps": [False, True, None, 0, 1, ""],
             "fill_intersections": [False, True, None, 0, 1, ""],
             "elide_short_roads": [False, True, None, 0, 1, ""],
             "ref_points": [0, None, DEFAULTS["ref_points"], full["ref_points"] + 1, 1]}
    absent = object()
    for k, pool in pools.items():
        cur = opts.get(k, absent)
        cands = [v for v in pool if cur is absent or type(v) is not type(cur) or v != cur]
        falsy = [v for v in cands if not v]
        truthy = [v for v in cands if v]
        pick = cands if not quick else [rng.choice(falsy)] + [rng.choice(truthy)] + [rng.choice(cands)]
        seen = []
        for v in pick:
            if any(type(v) is type(w) and v == w for w in seen):
                continue
            seen.append(v)
            o = dict(opts)
            o[k] = v
            vs.append(dict(kind="option", opts=o, changed=k, value_class=("falsy" if not v else "truthy") + ":" + type(v).__name__))
    for k in sorted(opts):   # an explicitly given option removed again (also when its value was falsy)
        o = dict(opts)
        del o[k]
        vs.append(dict(kind="option", opts=o, changed="-" + k, value_class=("falsy" if not opts[k] else "truthy") + ":" + type(opts[k]).__name__))
    # same printed value, different type: {"k": 1} vs {"k": "1"} (the framing encodes str(value) only)
    for k in sorted(opts):
        if not isinstance(opts[k], str):
            o = dict(opts)
            o[k] = str(opts[k])
            vs.append(dict(kind="option-type", opts=o, changed=k, value_class="str-of-" + type(opts[k]).__name__))
    return vs


def alt_opts(rng, opts):
    """Option maps whose digest must differ from that of `opts`: one option set to another printed value (falsy values
    included), a default given explicitly, an explicitly given option removed.  (Same printed value with another type
    is C20-F5 and is probed by `option-type` only.)"""
    full = dict(DEFAULTS)
    full.update(opts)
    alts = []
    pools = {"tolerance": [0, 0.0, full["tolerance"] + 0.25, 1e-9, None],
             "fill_gaps": [False, 0, None, ""] if full["fill_gaps"] else [True, 1],
             "fill_intersections": [False, 0, None, ""] if full["fill_intersections"] else [True, 1],
             "elide_short_roads": [True, 1] if not full["elide_short_roads"] else [False, 0, None, ""],
             "ref_points": [0, full["ref_points"] + 1, None]}
    for k, pool in pools.items():
        for v in pool:
            if k in opts and str(v) == str(opts[k]):
                continue
            alts.append(dict(opts, **{k: v}))
    for k in DEFAULTS:
        if k not in opts:
            alts.append(dict(opts, **{k: DEFAULTS[k]}))
    for k in opts:
        alts.append({a: b for a, b in opts.items() if a != k})
    rng.shuffle(alts)
    return alts


def path_ops(rng, opts, size, quick):
    """Histories on one directory for the entry paths of Network.fromFile (explicit .xodr, explicit .snet, no extension,
    upper-case / unknown extension) x cache state (valid, absent, other version, truncated, options-digest byte flipped)
    x map state (unchanged, changed, absent) x options (unchanged / changed, falsy values included) x useCache x writeCache.
    State persists between the operations of a scene AND between scenes unless a scene sets it."""
    alts = alt_opts(rng, opts)
    alt = lambda: rng.choice(alts)   # noqa
    L = lambda e, o=None, u=True, w=False: dict(op="load", entry=e, useCache=u, writeCache=w, opts=dict(opts if o is None else o))   # noqa
    M = lambda to: dict(op="map", to=to)   # noqa
    S = lambda to, **kw: dict(op="snet", to=to, **kw)   # noqa
    big = size >= 1_100_000
    scenes = []
    for e in ("noext", "xodr"):
        scenes.append([M("good"), S("good"), L(e, alt())])                         # stale by options
        scenes.append([M(rng.choice(["changed", "changed2"])), S("good"), L(e)])   # stale by map
        scenes.append([M("good"), S("optbyte"), L(e)])
        scenes.append([M("good"), S("version"), L(e)])
        scenes.append([M("good"), S("good"), L(e, alt(), u=False)])
    scenes += [[M("absent"), S("absent"), L("noext")], [M("absent"), S("absent"), L("xodr")], [M("good"), S("absent"), L("snet")],
               [M("good"), S("good"), L("upper")], [M("good"), S("good"), L("other", alt())],
               [M("good"), S("truncate", len=rng.choice([0, 3, 50, 75, 76])), L("snet")],
               [M("absent"), S("truncate", len=rng.choice([0, 3, 50, 75, 76])), L("noext")]]
    core, cheap = scenes[:10], scenes[10:]   # no pickle is loaded or written in these: they run for every case
    exp = []   # scenes that really load a pickle or write one (cost grows with the map)
    for e in ("noext", "xodr"):
        exp.append([M("good"), S("good"), L(e), L(e, w=True)])
        o2 = alt()
        exp.append([M("good"), S("absent"), L(e, w=True), L("noext"), L("xodr", o2), L("noext", o2, w=True), L("xodr", o2), L("noext")])
        exp.append([M("good"), S("absent"), L(e, w=False), L(e, u=False, w=True), L(e, u=False, w=True), L(e)])
        exp.append([M("good"), S("good"), M("changed"), L(e, w=True), L(e), M("good"), L(e), L(e, w=True), L(e)])
    exp.append([M("changed"), S("good"), L("snet", alt(), w=True)])
    exp.append([M("absent"), S("good"), L("noext", alt(), w=True), L("xodr")])
    exp.append([M("good"), S("truncate", len=400), L("noext", w=True), L("noext")])
    rng.shuffle(exp)
    rng.shuffle(cheap)
    if quick:
        exp = exp if size < 60_000 else exp[:3] if size < 300_000 else exp[:1] if not big else []
        cheap = cheap if not big else cheap[:5]
    elif big:
        exp = exp[:2]
    scenes = core + cheap + exp
    rng.shuffle(scenes)
    ops = [o for sc in scenes for o in sc]
    if size < 300_000:   # free-running history: no resets
        cur_opts = [dict(opts)] + alts[:3]
        for _ in range((14 if size < 60_000 else 5) if quick else 60):
            r = rng.random()
            if r < 0.15:
                ops.append(M(rng.choice(["good", "changed", "changed2", "absent"])))
            elif r < 0.25:
                ops.append(S(rng.choice(["good", "absent", "version", "optbyte"])))
            else:
                ops.append(L(rng.choice(["noext", "noext", "xodr", "xodr", "snet", "upper"]), rng.choice(cur_opts),
                             u=rng.random() < 0.8, w=rng.random() < 0.5))
    return ops


# ----------------------------------------------------------------------------- model mirrors (validated by the kernel)
def py_str(v):
    """str(value) as CPython computes it for the option types (harness side; the implementation is not asked)."""
    return str(v)


def frame_bytes(opts):
    out = b""
    for k in sorted(opts, key=str):
        v = opts[k]
        out += b"\0K" + str(k).encode() + b"\0V"
        out += py_str(v).encode() if isinstance(v, (int, float, str)) else b"\0"
    return out


def coq_bytes(b):
    return "[" + ";".join(str(x) for x in b) + "]%N"


BYTE_DEFS = {}   # byte string -> name of its Gallina definition in gen/C20_Cache.v


def coq_bytes_c(b):
    """Shared form for the kernel case files: every DISTINCT byte string is defined once and referred to by name
    (elaborating the numeral lists costs far more than evaluating the cases; digests and headers repeat a lot)."""
    if not b:
        return "[]"
    if b not in BYTE_DEFS:
        BYTE_DEFS[b] = f"bs{len(BYTE_DEFS)}"
    return BYTE_DEFS[b]


def coq_frame_case(opts):
    kvs = []
    for k in sorted(opts, key=str):
        v = opts[k]
        val = f"Some {coq_bytes(py_str(v).encode())}" if isinstance(v, (int, float, str)) else "None"
        kvs.append(f"({coq_bytes(str(k).encode())}, {val})")
    return f"([{';'.join(kvs)}], {coq_bytes(frame_bytes(opts))})"


# ----------------------------------------------------------------------------- a chunk of (map, options) cases
def run_chunk(args):
    """Runs in a worker thread: ONE implementation process for the chunk's jobs, then ONE coqc on the
    generated file holding every network of the chunk."""
    ci, chunk = args
    jobs = [dict(j, out=os.path.join(SCRATCH, j["name"] + ".json")) for j in chunk]
    t0 = time.time()
    crash = None
    try:
        common.run_impl("impl_c20.py", dict(kind="batch", jobs=jobs), timeout=6000)
    except Exception as e:  # noqa
        crash = str(e)[-3000:]
    results = []
    for j in jobs:
        if os.path.exists(j["out"]):
            res = json.load(open(j["out"]))
            os.remove(j["out"])
        else:
            res = dict(crash=crash or "no result written")
        res["job"] = j
        results.append(res)
    impl_s = round(time.time() - t0, 2)
    return coq_chunk(f"C20_Nets{TAG}_{ci}", results, impl_s)


MAX_GEN = 5_000_000   # characters per generated file (coqc memory/time grow with the element and case lists)


def coq_chunk(mod, results, impl_s=0.0, part=0):
    text = c20_gen.HEADER
    rest = []
    for k, res in enumerate(results):
        if "parsed" not in res:
            continue
        if len(text) > MAX_GEN and "suffix" not in res:
            rest.append(res)
            continue
        S = f"_{part}_{k}"
        t, it, man_base = c20_gen.map_file(res["job"]["name"], res["parsed"], res["cached"], S)
        tol = res["tolerance"]
        cases, meta = point_cases(res, it)
        pts = ";\n  ".join(
            f"({c20_gen._l(it, ex)}, {c20_gen._l(it, wi)}, [" +
            ";".join(f"({t_}%N,{c20_gen._o(it, arg)},{c20_gen._o(it, exp)})" for (t_, arg, exp, _k) in looks) + "])"
            for (ex, wi, looks) in cases)
        t += f"""Definition pts{S} : list pt_case := [{pts}].
Definition ptbad{S} := Eval vm_compute in pts_bad parsed{S} {'true' if tol > 0 else 'false'} pts{S}.
Definition lcbad{S} := Eval vm_compute in lc_bad parsed{S} pts{S}.
Definition covern{S} := Eval vm_compute in cover_count parsed{S} pts{S}.
Print ptbad{S}. Print lcbad{S}. Print covern{S}.
"""
        text += t
        res.update(names={str(a): b for a, b in it.names.items()}, man_base=man_base, pt_meta=meta, n_cases=sum(len(l) for _, _, l in cases), pt_looks=[[k_ for (_, _, _, k_) in l] for _, _, l in cases], suffix=S)
    all_results = results
    if rest:
        coq_chunk(mod, rest, impl_s, part + 1)
        results = [r for r in results if not any(r is x for x in rest)]
    mod = f"{mod}_p{part}"
    live = [r for r in results if "parsed" in r]
    if not live:
        return all_results
    t1 = time.time()
    ok, out = common.run_coq_cases(mod, text, timeout=2400)
    coq_s = round(time.time() - t1, 2)
    if not ok and len(live) > 1:
        # localise: re-run every network of the chunk on its own
        for k, res in enumerate(live):
            coq_chunk(f"{mod}_only{k}", [res])
        return all_results
    pr = c20_gen.parse_printed(out) if ok else {}
    for res in live:
        S = res["suffix"]
        res["coq_ok"] = ok
        res["coq_out"] = out[-3000:] if not ok else ""
        res["printed"] = {k[:-len(S)]: v for k, v in pr.items() if k.endswith(S) and not k.startswith(("ptbad", "lcbad", "covern", "pbad"))}
        res["ptbad"] = pr.get("ptbad" + S)
        res["lcbad"] = pr.get("lcbad" + S)
        res["covern"] = pr.get("covern" + S)
        res["pbad"] = pr.get("pbad" + S)
        res["gen"] = os.path.join(common.GEN, mod + ".v")
        res["impl_s"], res["coq_s"] = impl_s / max(1, len(all_results)), coq_s / len(live)
    return all_results


TAGS = [("element", 0, None), ("road", 1, None), ("lane", 2, None), ("intersection", 3, None), ("sidewalk", 4, None),
        ("shoulder", 5, None), ("laneSection", 6, None), ("laneGroup", 7, None), ("road.lane", 8, "road"),
        ("road.section", 9, "road"), ("lane.section", 10, "lane"), ("group.lane", 11, "group"), ("direl", 12, None),
        ("road.laneGroup", 13, "road")]


def ambiguous(rec, tol):
    """Near the tolerance circle the R-tree query (a 64-gon buffer) and distanceTo may legitimately differ."""
    for u, (cont, dist) in rec["ans"].items():
        if not cont and dist < 1e-9:
            return True
        if tol > 0 and 0.99 * tol <= dist <= 1.0001 * tol:
            return True
    return False


def point_cases(res, it):
    """One case per non-ambiguous point: (exact set, within set, [(tag, arg, impl result, lookup name)])."""
    tol = res["tolerance"]
    E = {e["uid"]: e for e in res["parsed"]["elems"]}
    cases, meta = [], []
    for i, rec in enumerate(res["points"]):
        if ambiguous(rec, tol):
            continue
        ex = [u for u, (c, d) in rec["ans"].items() if c]
        wi = [u for u, (c, d) in rec["ans"].items() if d <= tol]
        L = dict(rec["look"], direl=rec["direl"])
        looks = []
        for key, tag, argk in TAGS:
            if key not in L:
                continue
            arg = None
            if argk == "road":
                arg = L["road"]
            elif argk == "lane":
                arg = L["lane"]
            elif argk == "group":
                arg = E[L["lane"]]["group"] if L.get("lane") in E else None
            if argk and arg is None:
                continue
            looks.append((tag, arg, L[key], key))
        cases.append((ex, wi, looks))
        meta.append(i)
    return cases, meta


# ----------------------------------------------------------------------------- judging one case
def judge(c, res):
    job = res["job"]
    ident = dict(map=os.path.relpath(job["map_orig"], common.REPO), opts=job["opts"], mutation=job.get("mutation"))
    if "crash" in res:
        c.violation("harness", "implementation driver crashed", dict(ident, crash=res["crash"]), no_input=True)
        return
    if "build_error" in res:
        c.hist("build-error:" + res["build_error"].split(":")[0])
        if not job.get("mutation") and not job["opts"]:
            c.violation("build", "a shipped map no longer loads with default options", dict(ident, error=res["build_error"], tb=res.get("build_tb")))
        return
    c.cov["programs"] += 1
    c.hist("networks")
    if "export_error" in res:
        c.violation("export", "the exporter met an attribute/link kind it does not know (fail-closed)",
                    dict(ident, error=res["export_error"]))
        return
    P = res["parsed"]
    E = {e["uid"]: e for e in P["elems"]}
    ordinary = set(P["net"]["roads"])
    conn = set(P["net"]["connectingRoads"])
    names = {int(k): v for k, v in res["names"].items()}
    mb = res["man_base"]
    c.hist("elements", len(P["elems"]))
    c.hist("maneuvers", len(P["mans"]))
    for e in P["elems"]:
        c.hist("cls:" + e["cls"])
        nontriv = any(v for k, v in e.items() if k not in ("key", "cls", "uid", "geo", "openDriveID", "isForward"))
        c.count((ident["map"], json.dumps(job["opts"], sort_keys=True), job.get("mutation"), e["uid"], e["geo"]), nontrivial=nontriv)
    # ---- cache behaviour around the build itself
    c.cov["disagreements_checked"] += 3
    if res["parser_calls_first"] != 1 or not res["cache_written"]:
        c.violation("cache-write", "first load did not parse exactly once and write a cache", dict(ident, calls=res["parser_calls_first"], written=res["cache_written"]))
    if res["parser_calls_second"] != res["parser_calls_first"]:
        c.violation("cache-unused", "an unchanged map with unchanged options was parsed again although a cache exists", dict(ident))
    if res.get("format_version_header") != res["version"]:
        c.violation("cache-header", "dumpPickle wrote a version field different from the current format version", dict(ident, header=res.get("format_version_header"), current=res["version"]))
    # ---- kernel verdicts
    if not res["coq_ok"]:
        c.violation("kernel", "the generated per-map file no longer checks (reflection theorem / evaluation failed)",
                    dict(ident, gen=res["gen"], log=res["coq_out"]), no_input=True)
        return
    pr = res["printed"]

    def describe(u, rule, which):
        d = dict(ident, rule=rule, rule_text=c20_gen.RULES.get(rule, "?"), network=which, gen=res["gen"])
        if u > mb:
            m = P["mans"][u - mb - 1]
            d.update(uid=f"maneuver#{u - mb}", cls="Maneuver", elem=m)
            return d
        name = names.get(u, str(u))
        e = E.get(name, {})
        d.update(uid=name, cls=e.get("cls"), elem={k: v for k, v in e.items() if k != "geo"})
        raw = [k for k in ("_successor", "_predecessor") if e.get(k) == "<raw>"]
        d["raw_link"] = bool(raw) and rule in (1, 2, 5, 6)
        if rule in (5, 6) and not d["raw_link"]:
            k, back = ("_successor", "_predecessor") if rule == 5 else ("_predecessor", "_successor")
            t = E.get(e.get(k), {})
            d["target"] = t.get("uid")
            d["target_backlink_none"] = t.get(back) is None
            d["both_ordinary"] = e.get("road") in ordinary and t.get("road") in ordinary
        if rule in (58, 59):
            d["unreferenced_side_element"] = (e.get("road") is None and not any(
                x.get("_sidewalk") == name or x.get("_shoulder") == name for x in P["elems"] if x["cls"] == "LaneGroup"))
        if rule == 17:
            off = []
            for lu in e.get("incomingLanes", []):
                for mi in E[lu]["maneuvers"]:
                    if mi not in e["maneuvers"]:
                        m = P["mans"][mi - 1]
                        off.append(dict(lane=lu, maneuver=m, end_on_connecting_road=E[m["endLane"]]["road"] in conn,
                                        end_is_successor=E[lu]["_successor"] == m["endLane"],
                                        end_has_successor=E[m["endLane"]]["_successor"] is not None))
            d["offending"] = off
            # incoming lanes (listed through the junction's <laneLink>) whose own lane record declares no successor
            d["incoming_without_successor"] = [lu for lu in e.get("incomingLanes", []) if E[lu].get("_successor") is None]
            d["only_incoming_lanes_without_declared_successor"] = (not off and bool(d["incoming_without_successor"]) and all(
                E[lu].get("_successor") is not None and (E.get(E[lu]["_successor"], {}).get("_successor") is None or any(
                    P["mans"][mi - 1]["connectingLane"] == E[lu]["_successor"] for mi in e["maneuvers"]))
                for lu in e.get("incomingLanes", []) if lu not in d["incoming_without_successor"]))
            # third clause of the rule: the lane's successor leads on, but no maneuver of the intersection passes through it
            # (a successor that is itself a dead end carries no maneuver and is not demanded to)
            conn_of = {P["mans"][mi - 1]["connectingLane"] for mi in e["maneuvers"]}
            d["incoming_successor_without_maneuver"] = [
                dict(lane=lu, successor=E[lu]["_successor"], successor_leads_to=E.get(E[lu]["_successor"], {}).get("_successor"))
                for lu in e.get("incomingLanes", [])
                if E[lu].get("_successor") is not None and E[lu]["_successor"] not in conn_of
                and E.get(E[lu]["_successor"], {}).get("_successor") is not None]
            d["only_dummy_mergers_into_dead_end_connecting_lanes"] = bool(off) and all(
                o["maneuver"]["connectingLane"] is None and o["end_on_connecting_road"] and o["end_is_successor"]
                and not o["end_has_successor"] for o in off)
        return d
    for which, lk, hk in (("parsed", "lbad", "hbad"),):
        for key, kind in ((lk, "links"), (hk, "hierarchy")):
            if key not in pr:
                c.violation("kernel", "the kernel did not print " + key, dict(ident, gen=res["gen"]), no_input=True)
                continue
            c.cov["disagreements_checked"] += 1
            for (u, rule) in pr[key]:
                d = describe(u, rule, which)
                c.hist(f"bad-rule:{rule}")
                c.violation(kind, f"{d['rule_text']} — fails at {d['uid']} of {ident['map']}", d)
    if not pr.get("equiv"):
        diff = None
        for a, b in zip(res["parsed"]["elems"], res["cached"]["elems"]):
            if a != b:
                diff = dict(parsed=a, cached=b)
                break
        if diff is None and res["parsed"]["mans"] != res["cached"]["mans"]:
            diff = dict(maneuvers="differ")
        if diff is None:
            diff = dict(net_parsed={k: v for k, v in res["parsed"]["net"].items() if v != res["cached"]["net"].get(k)})
        c.violation("cache-equiv", "the network loaded from the cache is not equivalent to the parsed one", dict(ident, first_difference=diff, gen=res["gen"]))
    # ---- point lookups: model vs implementation (kernel evaluated)
    tol = res["tolerance"]
    if res["ptbad"] is None:
        c.violation("kernel", "the kernel did not print ptbad", dict(ident, gen=res["gen"]), no_input=True)
    else:
        c.cov["traces_validated_against_impl"] += res["n_cases"]
        c.cov["disagreements_checked"] += res["n_cases"]
        for idx in res["ptbad"]:
            rec = res["points"][res["pt_meta"][idx]]
            c.violation("lookup", "a lookup differs from the two-pass priority-ordered model (elementAt/roadAt/laneAt/... at this point)",
                        dict(ident, point=rec["p"], lookups_compared=res["pt_looks"][idx], impl=dict(rec["look"], direl=rec.get("direl")),
                             answers=rec["ans"], tolerance=tol, gen=res["gen"], case_index=idx))
    # lookup_consistent instantiated: where every road answers like the union of its lanes, laneAt and roadAt agree
    if res.get("covern"):
        c.hist("points:cover_at-holds", res["covern"][0])
        c.hist("points:cover_at-evaluated", len(res["pt_meta"]))
    hyp_broken = any(rule in (54, 74, 75) for (_u, rule) in (res.get("printed") or {}).get("hbad", []))
    if hyp_broken and res.get("lcbad"):
        c.hist("lookup-consistency:skipped-hierarchy-rule-54/74/75-fails")   # the theorem's hypothesis does not hold for this network
    for idx in ([] if hyp_broken else (res.get("lcbad") or [])):
        rec = res["points"][res["pt_meta"][idx]]
        c.violation("lookup-consistency", "laneAt and roadAt disagree at a point where every road answers like the union of its lanes "
                    "(instance of C20_lookup_consistent)", dict(ident, point=rec["p"], impl=rec["look"], answers=rec["ans"], tolerance=tol, gen=res["gen"], case_index=idx))
    # reconnect_inverse instantiated: every object holding a link is walked by Network.__setstate__ and links to registered elements
    if res.get("pbad") is None:
        c.violation("kernel", "the kernel did not print pbad", dict(ident, gen=res["gen"]), no_input=True)
    else:
        names = res["names"]
        if res["pbad"] == [3333333333]:
            c.hist("pickle-scope:not-evaluated-in-quick-tier(large-network)")
        for u in ([] if res["pbad"] == [3333333333] else res["pbad"][:5]):
            e = E.get(names.get(str(u)))
            c.violation("pickle-scope", "an object holding links is outside what Network.__setstate__ reconnects, or links to an element that is "
                        "not in Network.elements (instance of C20_reconnect_inverse fails)",
                        dict(ident, uid=names.get(str(u), u), cls=(e or {}).get("cls"), gen=res["gen"]))
    # conflictingManeuvers / reverseManeuvers
    if "maneuver_error" in res:
        c.violation("harness", "the maneuver probe crashed", dict(ident, tb=res["maneuver_error"]), no_input=True)
    else:
        c.hist("maneuvers-examined", res.get("maneuvers_examined", 0))
        c.cov["disagreements_checked"] += res.get("maneuvers_examined", 0)
        for which in ("maneuver_bad", "maneuver_bad_cached"):
            for b in res.get(which, []):
                c.violation("maneuver-reciprocity", "conflictingManeuvers/reverseManeuvers: " + b["rule"], dict(ident, **b, network="cached" if which.endswith("cached") else "parsed"))
    judge_points(c, res, ident, E, tol)
    # cached network answers the same lookups
    for a, b in zip(res["points"], res["points_cached"]):
        c.cov["disagreements_checked"] += 1
        if a["look"] != b["look"] or a["dirs"] != b["dirs"]:
            c.violation("cache-lookup", "the cached network answers a lookup differently from the parsed one",
                        dict(ident, point=a["p"], parsed=a["look"], cached=b["look"], dirs_parsed=a["dirs"], dirs_cached=b["dirs"]))
    # ---- cache protocol probes vs model
    path_cases(c, res, ident)
    return cache_cases(c, res, ident)


LISTED = {}


def judge_points(c, res, ident, E, tol):
    eps = 1e-7
    for rec in res["points"]:
        p, L, ans = rec["p"], rec["look"], rec["ans"]
        c.hist("point:" + rec["kind"])
        amb = ambiguous(rec, tol)
        if amb:
            c.hist("point-ambiguous")
        nontriv = sum(1 for v in ans.values() if v[0] or v[1] <= tol) >= 2
        c.count(("pt", ident["map"], json.dumps(ident["opts"], sort_keys=True), ident.get("mutation"), round(p[0], 6), round(p[1], 6)), nontrivial=nontriv)

        def bad(kind, what, **kw):
            c.violation(kind, what, dict(ident, point=p, lookups=L, answers=ans, tolerance=tol, **kw))
        # (a) what a lookup reports contains the point within the tolerance
        for key, u in L.items():
            if u is None:
                continue
            a = ans.get(u)
            if a is None or not (a[0] or a[1] <= tol * 1.0001 + 1e-9):
                bad("containment", f"{key} reports an element that does not contain the point within the tolerance", lookup=key, reported=u)
        # (a') exact containers have priority over tolerant ones; None only when nothing is in reach
        for key, cls, lst in (("road", "Road", "allRoads"), ("lane", "Lane", "lanes"), ("intersection", "Intersection", "intersections"),
                              ("sidewalk", "Sidewalk", "sidewalks"), ("shoulder", "Shoulder", "shoulders")):
            # (lookups range over the Network's tuples; an element missing from its tuple is reported by hierarchy rules 57-61)
            listed = LISTED.setdefault((id(res), lst), set(res["parsed"]["net"][lst]))
            exact = [u for u, a in ans.items() if a[0] and E[u]["cls"] == cls and u in listed]
            near = [u for u, a in ans.items() if a[1] <= tol * 0.99 and E[u]["cls"] == cls and u in listed]
            got = L.get(key)
            if exact and got not in exact:
                bad("containment", f"{key}At misses an element that actually contains the point", lookup=key, exact=exact, reported=got)
            if not exact and near and tol > 0 and got is None:
                bad("containment", f"{key}At returns None although an element lies within the tolerance", lookup=key, near=near)
        # (b) children inside parents: an element containing the point has its parents within tolerance of it
        for u, a in ans.items():
            if not a[0]:
                continue
            e = E[u]
            for pk in ("lane", "group", "road"):
                pu = e.get(pk)
                if e["cls"] in ("LaneSection", "Lane", "LaneGroup", "RoadSection") and pu and pu != "<raw>":
                    pa = ans.get(pu)
                    slack = max(tol, 0.0) + 1e-6
                    if pa is None or not (pa[0] or pa[1] <= slack):
                        bad("child-parent", f"a point inside {e['cls']} {u} is not inside its {pk} {pu} (within tolerance)", child=u, parent=pu, parent_answer=pa)
        # (c) the drivable area is covered by what the lookups return
        if rec["kind"] in ("drivable", "intersection", "lanesection"):
            if L["element"] is None or (L["road"] is None and L["intersection"] is None):
                bad("coverage", "a point of the drivable area is reported by no lookup", sampled_in=rec["kind"])
            el = E.get(L["element"], {})
            if el and el["cls"] not in ("Road", "Intersection"):
                # shoulder/sidewalk may overlap the drivable region only at its boundary
                pass
        # (e) reject=True raises exactly when the plain lookup returns None
        for key, r in rec["reject"].items():
            if (r == "REJECT") != (L[key] is None) or (r != "REJECT" and r != L[key]):
                bad("reject", f"{key}At(reject=True) disagrees with {key}At()", lookup=key, rejecting=r)
        # (d) direction tangent to the lane centreline
        if rec["direl"] is None:
            if rec["dirs"] or abs(rec["roadDirection"]) > 0:
                bad("direction", "directions reported off the network")
            continue
        dirs = rec["dirs"]
        if not dirs:
            bad("direction", "no nominal direction on a road/intersection/shoulder")
            continue
        if not any(common_angle(rec["roadDirection"], d) < 1e-6 for d in dirs):
            bad("direction", "roadDirection is not one of nominalDirectionsAt", roadDirection=rec["roadDirection"], dirs=dirs)
        cls = E[rec["direl"]]["cls"]
        if cls != "Intersection" and len(dirs) != 1:
            bad("direction", "several nominal directions outside an intersection", dirs=dirs)
        for uid, segs in rec["tang"]:
            if not segs:
                continue
            if cls == "Road" and rec.get("tang_from") not in ("Lane",):
                continue   # point of the road that lies in no lane: the property speaks of points of a lane
            dmin = segs[0][0]
            cands = [h for d, h in segs if d <= dmin + 1e-7]
            if len(segs) > 1 and len(cands) == 1 and segs[1][0] - dmin < 1e-4:
                c.hist("direction-near-bisector")
                continue   # too close to a vertex bisector to say which segment is nearest
            err = min(common_angle(h, d) for h in cands for d in dirs)
            c.hist("direction-checked")
            if err > 1e-6:
                bad("direction", f"nominal direction is not tangent to the centreline of {uid}", element=uid, error_rad=err, dirs=dirs, segments=segs)


def common_angle(a, b):
    d = (a - b) % (2 * math.pi)
    return min(d, 2 * math.pi - d)


def cache_cases(c, res, ident):
    """Returns Coq text lines (cache_case terms) and judges the oracle part."""
    out = []
    cur = res["version"]
    for pr in res.get("cache_probes", []):
        var = pr["var"]
        k = var["kind"]
        c.hist("cache-probe:" + k + (":" + var["value_class"] if "value_class" in var else ""))
        c.count(("cache", ident["map"], json.dumps(ident["opts"], sort_keys=True), json.dumps(var, sort_keys=True)), nontrivial=k not in ("same",))
        used = pr["outcome"] == "cache"
        if pr["outcome"].startswith("error"):
            c.violation("cache-error", "Network.fromFile raised instead of falling back to the parser", dict(ident, variant=var, outcome=pr["outcome"]))
            continue
        # property oracle: unchanged -> used; anything changed -> ignored
        # cache file shorter than the cut, or the cut removed only bytes after the end of the pickle inside the gzip stream
        # (trailer / final padding: the whole network is still read): nothing the loader depends on changed
        noop = k == "truncate" and var["len"] >= pr["orig_len"]
        tail_only = k == "truncate" and not noop and bool(pr.get("payload_intact"))   # either outcome is legitimate
        should = (k == "same") or noop
        if k == "version" and pr["version"] == cur:
            should = True
        if tail_only:
            c.hist("cache-probe:truncate:only-bytes-after-the-pickle-cut:" + pr["outcome"])
        elif used != should:
            c.violation("cache-decision", ("the cache was ignored although nothing changed" if should else
                                           f"the cache was used although the {k} changed"), dict(ident, variant=var, outcome=pr["outcome"], changed=var.get("changed")))
        # model case
        use = "true" if var.get("useCache", True) else "false"
        d = bytes.fromhex(pr["map_digest"])
        o = hashlib.blake2b(frame_bytes(pr["opts"]), digest_size=8).digest()
        hdr = bytes.fromhex(pr["hdr_hex"])
        payload_ok = used if tail_only else (not (k == "truncate") or noop)
        out.append((f"({use}, {cur}%N, {coq_bytes_c(d)}, {coq_bytes_c(o)}, Some {coq_bytes_c(hdr)}, {'true' if payload_ok else 'false'}, {'true' if used else 'false'})",
                    dict(ident, variant=var, outcome=pr["outcome"])))
    # options digest vs model framing
    fb = frame_bytes(res["opts"])
    c.cov["disagreements_checked"] += 1
    if hashlib.blake2b(fb, digest_size=8).hexdigest() != res["opt_digest"]:
        c.violation("options-digest", "deterministicHash(options) is not blake2b-8 of the model's framing", dict(ident, frame=fb.hex(), impl=res["opt_digest"]))
    return out


PATH_TERMS = []   # (Gallina path_case, replay) of every load of every path history


def entry_kind(path):
    """Entry kind of a path as the documentation reads: the extension of the last component (harness-side rule)."""
    name = os.path.basename(path)
    i = name.rfind(".")
    suffix = name[i:] if 0 < i < len(name) - 1 else ""
    return {".xodr": "EXodr", ".snet": "ESnet", "": "ENoExt"}.get(suffix, "EOther")


def canon_opts(o):
    return json.dumps(sorted((k, type(v).__name__, repr(v)) for k, v in o.items()))


def path_cases(c, res, ident):
    """Judges the loads of the path history (property / documentation oracle) and emits one model case per load."""
    recs = res.get("path_history") or []
    cur = res["version"]
    ops = res["job"].get("path_ops") or []
    loads = [o for o in ops if o["op"] == "load"]
    if not res.get("cache_written"):
        return   # reported as cache-write above; the history needs the case's valid cache
    if len(recs) != len(loads):
        c.violation("path-history", "the path history did not run to its end", dict(ident, loads=len(loads), records=len(recs)), no_input=True)
        return
    it = iter(recs)
    snet_for = None          # (map digest, options) the present cache file is valid for, None: absent or invalid for everything
    steps = []               # compact replay of the history so far
    for op in ops:
        if op["op"] == "map":
            steps.append("map:" + op["to"])
            continue
        if op["op"] == "snet":
            steps.append("snet:" + op["to"] + (str(op.get("len")) if "len" in op else ""))
            snet_for = (res["map_digest"], canon_opts(res["opts"])) if op["to"] == "good" else None
            continue
        r = next(it)
        o = op["opts"]
        kind = entry_kind(r["path"])
        steps.append(f"load:{r['path']}:u={int(op['useCache'])}:w={int(op['writeCache'])}:{json.dumps(o, sort_keys=True)}")
        rep = dict(ident, history=steps[-12:], earlier_steps=max(0, len(steps) - 12), dir=r["dir"], path=r["path"], entry=kind, useCache=op["useCache"], writeCache=op["writeCache"],
                   call_opts=o, outcome=r["outcome"], map_present=r["map_digest"] is not None, cache_present=r["snet_hdr"] is not None,
                   cache_written=r["snet_changed"], cache_valid_for_this_load=None)
        out = r["outcome"]
        map_entry = kind in ("ENoExt", "EXodr")
        c.hist(f"path-probe:{kind}:{'map' if r['map_digest'] else 'nomap'}:{'cache' if r['snet_hdr'] else 'nocache'}:{out}")
        c.cov["disagreements_checked"] += 1
        nontrivial = False
        if map_entry and r["map_digest"] is not None:
            valid = snet_for is not None and snet_for == (r["map_digest"], canon_opts(o)) and r["payload_ok"]
            rep["cache_valid_for_this_load"] = valid
            should = op["useCache"] and valid
            nontrivial = r["snet_hdr"] is not None and not valid
            if out.startswith("error"):
                c.violation("cache-error", "Network.fromFile raised instead of falling back to the parser", rep)
            elif (out == "cache") != should:
                c.violation("cache-decision", ("the cache was ignored although map and options are unchanged" if should else
                                               "a cache was returned although it does not belong to the current map and options"
                                               if op["useCache"] else "a cache was returned although useCache=False"), rep)
            if out == "parse" and not (r["ncalls"] == 1 and all(r["call_path_ok"]) and all(r["call_opts_ok"]) and r["ret_token"]):
                c.violation("parser-args", "the parser did not run exactly once on the map with exactly the caller's options, or its network was not returned",
                            dict(rep, ncalls=r["ncalls"], path_ok=r["call_path_ok"], opts_ok=r["call_opts_ok"], returned_parsed=r["ret_token"]))
            if r["snet_changed"] != (out == "parse" and op["writeCache"]):
                c.violation("cache-write", "the cache file was " + ("rewritten" if r["snet_changed"] else "not written") +
                            " (it must be written exactly when the map was parsed with writeCache=True)", rep)
        else:
            want = None
            if kind == "EOther":
                want = "error:ValueError"
            elif kind == "EXodr" or (kind == "ENoExt" and r["snet_hdr"] is None) or (kind == "ESnet" and r["snet_hdr"] is None):
                want = "error:FileNotFoundError"
            if want and out != want:
                c.violation("path-error", f"documented outcome for this path is {want}", rep)
            if r["snet_changed"] or r["ncalls"]:
                c.violation("cache-write", "a load that cannot parse a map ran the parser or touched the cache file", dict(rep, ncalls=r["ncalls"]))
        extra = [f for f in r["files"] if entry_kind(f) not in ("EXodr", "ESnet")]
        if r["map_changed"] or extra:
            c.violation("cache-write", "Network.fromFile changed the map file or created a file that is neither the map nor its cache", dict(rep, files=r["files"]))
        if out == "parse" and r["snet_changed"]:
            snet_for = (r["map_digest"], canon_opts(o))
        c.count(("path", ident["map"], json.dumps(ident["opts"], sort_keys=True), len(steps), steps[-1]), nontrivial=nontrivial)
        code = {"cache": 0, "parse": 2 if r["snet_changed"] else 1, "error:FileNotFoundError": 3, "error:ValueError": 4,
                "error:UnpicklingError": 5}.get(out, 9)
        ob = lambda h: "None" if h is None else "(Some " + coq_bytes_c(bytes.fromhex(h)) + ")"   # noqa
        od = hashlib.blake2b(frame_bytes(o), digest_size=8).digest()
        PATH_TERMS.append((f"({kind}, {'true' if op['useCache'] else 'false'}, {'true' if op['writeCache'] else 'false'}, {cur}%N, "
                           f"{ob(r['map_digest'])}, {coq_bytes_c(od)}, {ob(r['snet_hdr'])}, {'true' if r['payload_ok'] else 'false'}, "
                           f"{code}%N, {ob(r['snet_hdr_after'])})", rep))


# ----------------------------------------------------------------------------- main
def main():
    c = Check(PID, "translation_validation")
    c.cov["programs"] = 0
    c.cov["rule"] = ("cases = (shipped OpenDRIVE map or a one-edit mutant of it) x (parser option combination); per case the network "
                     "Scenic built is exported and EVERY element is checked by the kernel (an element is non-trivial when it carries at "
                     "least one link; distinct by (map, options, uid, geometry digest)); plus sampled points (uniform in drivable/shoulder/"
                     "sidewalk regions, a band outside, element boundaries pushed out by fractions of the tolerance; non-trivial when at "
                     "least two elements are within reach of the point) and cache-protocol probes (non-trivial when something was changed)")
    common.ensure_parser()
    t_start = time.time()
    if not c.proofs():
        c.finish()
    phase = {"proofs_and_lock_wait": round(time.time() - t_start, 1)}
    quick = c.tier == "quick"
    rng = c.rng
    c20_gen.PICKLE_MAX = None   # pickle_bad is evaluated for every network (vm_compute; the instance theorem is closed by a VM cast)
    shutil.rmtree(SCRATCH, ignore_errors=True)
    os.makedirs(SCRATCH, exist_ok=True)
    maps, skipped = find_maps()
    c.cov["maps"] = len(maps)
    c.cov["maps_skipped_empty"] = [os.path.relpath(p, common.REPO) for p in skipped]
    jobs = []
    npts = 160 if quick else 600     # thorough was 800 (32 min at load 35: trimmed to stay under 35 min on a loaded machine; per-job point seeds, so the case stream is unchanged)
    for p in maps:
        size = os.path.getsize(p)
        base = re.sub(r"\W", "_", os.path.relpath(p, os.path.join(common.REPO, "assets/maps"))[:-5])
        for oi, opts in enumerate(opt_combos(c.tier, size)):
            name = f"{base}__o{oi}"
            jobs.append(dict(kind="export", name=name, map=p, map_orig=p, opts=opts, scratch=os.path.join(SCRATCH, name),
                             seed=rng.randrange(10 ** 9), npts=npts if size < 10 ** 6 or not quick else 120,
                             variants=cache_variants(rng, opts, quick) if (oi == 0 or not quick) else
                             [v for i, v in enumerate(cache_variants(rng, opts, True)) if i < 3 or v["kind"].startswith("option")],
                             path_ops=path_ops(rng, opts, size, quick) if (oi <= 1 or (not quick and size < 1_100_000)) else []))
        nmut = (1 if size < 300_000 else 0) if quick else (6 if size < 10 ** 6 else 2)
        for mi in range(nmut):
            name = f"{base}__m{mi}"
            dst = os.path.join(SCRATCH, "mut", name, os.path.basename(p))
            os.makedirs(os.path.dirname(dst), exist_ok=True)
            kind = mutate_map(p, dst, rng)
            jobs.append(dict(kind="export", name=name, map=dst, map_orig=p, opts={}, mutation=f"{kind}#{mi}",
                             scratch=os.path.join(SCRATCH, name), seed=rng.randrange(10 ** 9), npts=npts // 2, variants=[]))
    # resolve relative version variants later (needs the current version): done in impl via "+1"/"-1"
    if c.replay:
        body = json.load(open(c.replay))
        case = body.get("case", {})
        sel = [j for j in jobs if os.path.relpath(j["map_orig"], common.REPO) == case.get("map") and j["opts"] == case.get("opts")
               and j.get("mutation") == case.get("mutation")]
        jobs = sel or jobs[:3]
    # longest-processing-time-first packing of the jobs into one chunk per worker
    jobs.sort(key=lambda j: -os.path.getsize(j["map"]))
    chunks = [[] for _ in range(min(WORKERS, len(jobs)))]
    load = [0] * len(chunks)
    for j in jobs:
        k = load.index(min(load))
        chunks[k].append(j)
        load[k] += os.path.getsize(j["map"]) + 150_000
    results = []
    # the options-hash cases need one more implementation process: run it beside the chunks (all jobs are generated, so the
    # seeded stream is consumed in a fixed order; the verdicts are collected before judging starts)
    hash_box = {}
    hash_thread = threading.Thread(target=lambda: hash_box.update(frames=hash_cases(c, rng, quick)))
    hash_thread.start()
    with cf.ThreadPoolExecutor(len(chunks)) as ex:
        for rs in ex.map(run_chunk, list(enumerate(chunks))):
            results += rs
    hash_thread.join()
    if "frames" not in hash_box:
        raise RuntimeError("hash cases did not finish")
    phase["networks_impl_and_kernel"] = round(time.time() - t_start - phase["proofs_and_lock_wait"], 1)
    cache_terms = []
    for r in results:
        terms = judge(c, r)
        if terms:
            cache_terms += terms
        if "parsed" in r and len(c.cov["samples"]) < 3:
            e = r["parsed"]["elems"][len(r["parsed"]["elems"]) // 2]
            c.sample(dict(map=os.path.relpath(r["job"]["map_orig"], common.REPO), opts=r["job"]["opts"], elements=len(r["parsed"]["elems"]),
                          maneuvers=len(r["parsed"]["mans"]), an_element={k: v for k, v in e.items() if k != "geo"},
                          a_point=r["points"][0] if r["points"] else None, kernel=r.get("printed"), gen=r.get("gen")), limit=3)
    # ---- cache protocol + framing cases, evaluated by the kernel
    frames = hash_box["frames"]
    text = ("From Coq Require Import List Bool NArith.\nFrom Scenic Require Import C20.Network.\nImport ListNotations.\n"
            + "".join(f"Definition {n} : list byte := {coq_bytes(b)}.\n" for b, n in BYTE_DEFS.items()) +
            "Definition cc : list cache_case := [\n " + ";\n ".join(t for t, _ in cache_terms) + "].\n"
            "Definition cbad := Eval vm_compute in failing_idx cache_ok cc 0%N.\nPrint cbad.\n"
            "Definition pc : list path_case := [\n " + ";\n ".join(t for t, _ in PATH_TERMS) + "].\n"
            "Definition pbad := Eval vm_compute in failing_idx path_ok pc 0%N.\nPrint pbad.\n"
            "Definition fc : list (list (list byte * option (list byte)) * list byte) := [\n " + ";\n ".join(frames) + "].\n"
            "Definition fbad := Eval vm_compute in failing_idx frame_ok fc 0%N.\nPrint fbad.\n")
    phase["judge"] = round(time.time() - t_start - sum(phase.values()), 1)
    ok, out = common.run_coq_cases("C20_Cache" + TAG, text, timeout=900)
    if not ok:
        c.violation("kernel", "gen/C20_Cache.v does not check", dict(log=out[-2000:]), no_input=True)
    else:
        for name, items, what in (("cbad", cache_terms, "Network.fromFile's use-cache decision differs from the model's from_file"),
                                  ("pbad", PATH_TERMS, "Network.fromFile's outcome for this entry path and directory state (which file is tried, which "
                                                       "checks it gets, what is written) differs from the model's from_path"),
                                  ("fbad", None, "the harness' framing mirror differs from the model's frame")):
            m = re.search(rf"^{name} =\s*(.*?)\n\s*: ", out, flags=re.S | re.M)
            idxs = [int(x) for x in re.findall(r"(\d+)%N", m.group(1))] if m else None
            if idxs is None:
                c.violation("kernel", "no " + name, dict(log=out[-500:]), no_input=True)
                continue
            c.cov["disagreements_checked"] += len(items) if items else len(frames)
            for i in idxs:
                c.violation(("path-model" if name == "pbad" else "cache-model") if items else "framing-model", what,
                            items[i][1] if items else dict(case=frames[i]))
    c.cov["cache_cases"] = len(cache_terms)
    c.cov["path_cases"] = len(PATH_TERMS)
    phase["cache_kernel"] = round(time.time() - t_start - sum(phase.values()), 1)
    c.cov["phase_s"] = phase
    c.cov["framing_cases"] = len(frames)
    c.cov["timing"] = dict(path_history_s=round(sum(r.get("path_s", 0) for r in results), 1), parse_s=round(sum(r.get("parse_s", 0) for r in results), 1),
                           impl_s=round(sum(r.get("impl_s", 0) for r in results), 1), coq_s=round(sum(r.get("coq_s", 0) for r in results), 1))
    c.cov["explanation"] = ("translation validation: the OpenDRIVE->network conversion is not modelled; its OUTPUT is validated per run by kernel-"
                            "evaluated certified checkers (proved sound in coq/C20/NetworkProofs.v) on the exported network, parsed and cached")
    c.assumptions += [
        "the fail-closed exporter (harness/impl_c20.py: attribute tables per element class) reports the links the objects hold",
        "geometry (polygons, centrelines, R-tree queries) is not modelled: containsPoint/distanceTo answers are inputs to the lookup model; "
        "points within 1% of the tolerance circle are skipped (the implementation buffers the point by a 64-gon)",
        "blake2b is treated as collision free on the compared inputs; pickle/gzip payload loading is a boolean input of the cache model",
        "Python str() of option values is computed by the harness",
    ]
    shutil.rmtree(SCRATCH, ignore_errors=True)
    c.finish()


def hash_cases(c, rng, quick):
    """Random option maps: implementation digest == blake2b-8 of the framing; distinct framings <-> distinct maps."""
    maps = []
    pool_keys = ["tolerance", "fill_gaps", "ref_points", "a", "ab", "b", "K", "V", "elide_short_roads", "x y", "é"]
    for _ in range(40 if quick else 600):
        m = []
        for k in rng.sample(pool_keys, rng.randint(0, 4)):
            t = rng.choice(["int", "float", "str", "bool", "none", "list"])
            v = {"int": rng.choice([0, 1, -1, 20, 10 ** 12]), "float": rng.choice([0.05, 0.1, 1.0, 1e-9, 2.5e20, -0.0]),
                 "str": rng.choice(["", "1", "True", "a", "K", "0.05", "xé"]), "bool": rng.choice([True, False]),
                 "none": None, "list": [1, 2]}[t]
            m.append([k, [t, v]])
        maps.append(m)
    maps.append([["a", ["int", 1]]])
    maps.append([["a", ["str", "1"]]])
    r = common.run_impl("impl_c20.py", dict(kind="hash", maps=maps))["results"]
    frames = []
    seen = {}
    for m, got in zip(maps, r):
        d = {}
        for k, (t, v) in m:
            d[k] = {"int": int, "float": float, "str": str, "bool": bool, "none": lambda x: None, "list": list}[t](v)
        fb = frame_bytes(d)
        c.count(("hash", fb.hex()), nontrivial=len(d) >= 2)
        c.hist("hash-case")
        c.cov["disagreements_checked"] += 1
        if hashlib.blake2b(fb, digest_size=8).hexdigest() != got["digest"]:
            c.violation("options-digest", "deterministicHash differs from blake2b-8 of the model's framing", dict(options=m, frame=fb.hex(), impl=got["digest"]))
        pairs = json.dumps(sorted(got["strs"], key=lambda kv: str(kv[0])))
        if got["digest"] in seen and seen[got["digest"]] != pairs:
            c.violation("options-collision", "two option maps with different key/value strings have the same digest", dict(a=seen[got["digest"]], b=pairs))
        seen[got["digest"]] = pairs
        frames.append(coq_frame_case(d))
    return frames


if __name__ == "__main__":
    main()
