"""C09 (round 3) — positive neighbours of the error-reporting rules: for every `invalid_*` rule of the regenerated python.gram, VALID
Python modules that are one token away from what the rule reports (the error rules are tried first in the second pass and share
prefixes with valid constructs, so a too-eager error rule, or a changed lookahead in one, rejects valid Python).  Every sentence
goes through the same oracle as a corpus file (Scenic's tree = CPython's tree, compiled tree = documented rewrite, Coq model).
Fail closed: an `invalid_*` rule of the regenerated grammar without entry is reported (kind grammar-sentences)."""
D = "def f({}):\n    pass\n"
L = "g = lambda {}: 0\n"
M = "match x:\n    case {}:\n        pass\n"


def NA(reason):
    return ("na", reason)


NEIGHBOURS = {
    "invalid_arguments": ["f(a, *b)\n", "f(a=1, *b)\n", "f(*a, *b, c=1, **d)\n", "f(**k, c=1)\n", "f(a for a in b)\n", "f((a for a in b), c)\n", "f(a, (b for b in c))\n", "f(a, b=(c for c in d))\n",
                          "f(a=1, b=2)\n", "f(a, b=1, *c, d=2, **e)\n", "f(a := 1, b)\n", "f(a, b,)\n", "f(*a,)\n", "f(**k,)\n"],
    "invalid_kwarg": ["f(a=1)\n", "f(a=b == c)\n", "f(a=(b := 1))\n", "f(true=1, none=2)\n", "f(a=[x for x in y])\n", "f(a=(x for x in y))\n", "f(a == b)\n"],
    "invalid_legacy_expression": ["print(a)\n", "exec(a)\n", "print\n", "x = print\n", "print(a, b)\n", "print((yield_))\n", "printx = 1\n"],
    "invalid_expression": ["x = a if b else c\n", "x = (a, b)\n", "x = a, b\n", "f(a, b)\n", "x = [a, b]\n", "x = a if b else c if d else e\n", "x = (a if b else c)\n", "x = 'a' 'b'\n",
                           "x = a if b else (c, d)\n", "x = [a if b else c for a in d]\n", "x = lambda: (a if b else c)\n"],
    "invalid_named_expression": ["(x := 1)\n", "f(x := 1)\n", "x = (y := 1)\n", "if (x := f()) == 1:\n    pass\n", "x = a == b\n", "f(a=b)\n", "x = [y := 1, 2]\n", "x = {(y := 1): 2}\n",
                                 "while (a := b) != c:\n    pass\n", "x = (a == b)\n"],
    "invalid_assignment": ["x: int = 1\n", "(x): int = 1\n", "a.b: int\n", "a[0]: int = 2\n", "x = y = 1\n", "x, y = 1, 2\n", "[x, y] = z\n", "(x, y) = z\n", "x += 1\n", "a.b += 1\n", "a[0] += 1\n",
                           "def f():\n    x = yield\n", "def f():\n    x = y = yield 1\n", "def f():\n    x += yield\n", "*x, y = z\n", "x = (yield_)\n"],
    "invalid_ann_assign_target": ["(x): int\n", "((x)): int = 1\n", "x: list = [1]\n", "x: tuple = (1, 2)\n", "x: (int, str) = 1\n", "x: [int] = 1\n"],
    "invalid_del_stmt": ["del x\n", "del x, y\n", "del (x, y)\n", "del [x, y]\n", "del a.b, a[0]\n", "del (x)\n", "del x,\n", "del a[0:1]\n", "del (a.b)\n"],
    "invalid_block": ["if x:\n    pass\n", "if x: pass\n", "if x:\n\n    pass\n", "if x:\n    # c\n    pass\n", "if x:\n    if y:\n        pass\n", "while x: pass\n", "def f(): pass\n", "class C: pass\n"],
    "invalid_comprehension": ["x = [a for a in b]\n", "x = [(a, b) for a in c]\n", "x = {a for a in b}\n", "x = (a for a in b)\n", "x = [*a, *b]\n", "x = {*a, *b}\n", "x = [[*a] for a in b]\n",
                              "x = [(*a,) for a in b]\n", "x = {(a, b) for a in c}\n", "x = [a for a in (b, c)]\n", "x = [a for a, b in c]\n"],
    "invalid_dict_comprehension": ["x = {**a}\n", "x = {**a, **b}\n", "x = {k: v for k, v in a}\n", "x = {k: {**v} for k, v in a}\n", "x = {**{k: v for k, v in a}}\n"],
    "invalid_parameters": [D.format(p) for p in ("a, b=1", "a=1, b=2", "a, /, b", "a, b=1, /, c=2", "a, /", "a, b, /, c, *, d", "a, /, *, b", "a=1, /, b=2, *c", "a, b=1, *, c", "a, b=1, *, c, d=2",
                                                  "a=1, *, b", "(a), (b)".replace("(a), (b)", "a, b"))],
    "invalid_default": [D.format("a=1"), D.format("a=1, b=2"), D.format("a=(1), /"), L.format("a=1"), D.format("a: int = 1"), D.format("*, a=1"), D.format("a=b == c")],
    "invalid_star_etc": [D.format(p) for p in ("*a", "*, a", "*a, b", "*a, b=1", "*, a, b=1", "*a, **k", "*, a, **k", "*a: int", "*a: int, b", "a, *b", "a, *, b", "*a,", "*, a,")],
    "invalid_kwds": [D.format(p) for p in ("**k", "**k,", "a, **k", "*a, **k", "*, a, **k", "**k: int", "a=1, **k")],
    "invalid_parameters_helper": [D.format(p) for p in ("a=1", "a=1, b=2", "a=1, /", "a, b=1, /")],
    "invalid_lambda_parameters": [L.format(p) for p in ("a, b=1", "a=1, b=2", "a, /, b", "a, b=1, /, c=2", "a, /", "a, b, /, c, *, d", "a, /, *, b", "a=1, /, b=2, *c", "a, b=1, *, c")],
    "invalid_lambda_parameters_helper": [L.format(p) for p in ("a=1", "a=1, b=2", "a=1, /", "a, b=1, /")],
    "invalid_lambda_star_etc": [L.format(p) for p in ("*a", "*, a", "*a, b", "*a, b=1", "*, a, b=1", "*a, **k", "*, a, **k", "a, *b", "a, *, b")],
    "invalid_lambda_kwds": [L.format(p) for p in ("**k", "a, **k", "*a, **k", "*, a, **k", "a=1, **k")],
    "invalid_double_type_comments": NA("needs TYPE_COMMENT tokens, which neither CPython's default mode nor Scenic's tokenizer produce"),
    "invalid_with_item": ["with a as b:\n    pass\n", "with a as b.c:\n    pass\n", "with a as b[0]:\n    pass\n", "with a as (b, c):\n    pass\n", "with a as [b, c]:\n    pass\n", "with a as b, c as d:\n    pass\n",
                          "with (a as b):\n    pass\n", "with (a as b, c as d):\n    pass\n", "with a as (b):\n    pass\n", "with a() as b, c:\n    pass\n"],
    "invalid_for_target": ["for x in y:\n    pass\n", "for x, y in z:\n    pass\n", "for (x, y) in z:\n    pass\n", "for [x, y] in z:\n    pass\n", "for a.b in z:\n    pass\n", "for a[0] in z:\n    pass\n",
                           "for x, in z:\n    pass\n", "for *x, y in z:\n    pass\n", "x = [a for a.b in c]\n", "x = [a for (a) in c]\n", "async def f():\n    async for x in y:\n        pass\n"],
    "invalid_group": ["x = (a)\n", "x = (yield_)\n", "def f():\n    x = (yield)\n", "x = (a := 1)\n", "x = (*a,)\n", "x = (*a, b)\n", "x = [*a]\n", "f(*a)\n", "f(**a)\n", "x = {**a}\n", "x = (a, *b)\n"],
    "invalid_import_from_targets": ["from a import b\n", "from a import b, c\n", "from a import (b, c)\n", "from a import (b, c,)\n", "from a import (b as c,\n    d)\n", "from a import *\n", "from . import b\n",
                                    "from .a import b as c, d as e\n"],
    "invalid_with_stmt": ["with a:\n    pass\n", "with a, b:\n    pass\n", "with (a, b):\n    pass\n", "with (a, b) as c:\n    pass\n", "with (a):\n    pass\n", "with (a), (b):\n    pass\n", "with (a, b,):\n    pass\n",
                          "with (a as b, c):\n    pass\n", "with a: pass\n", "async def f():\n    async with a, b:\n        pass\n", "async def f():\n    async with (a, b):\n        pass\n",
                          "async def f():\n    async with (a as b, c as d,):\n        pass\n", "with (a, b), c:\n    pass\n", "with (yield_):\n    pass\n"],
    "invalid_with_stmt_indent": ["with a:\n    pass\n", "with a: pass\n", "with a:  # c\n    pass\n", "with a:\n\n    pass\n", "with (a as b):\n    pass\n", "with (a as b): pass\n"],
    "invalid_try_stmt": ["try:\n    pass\nexcept E:\n    pass\n", "try:\n    pass\nfinally:\n    pass\n", "try: pass\nfinally: pass\n", "try:\n    pass\nexcept:\n    pass\n",
                         "try:\n    pass\nexcept* E:\n    pass\n", "try:\n    pass\nexcept E:\n    pass\nexcept F:\n    pass\n", "try:\n    pass\nexcept* E:\n    pass\nexcept* F:\n    pass\n",
                         "try:\n    pass\nexcept E:\n    pass\nelse:\n    pass\nfinally:\n    pass\n"],
    "invalid_except_stmt": ["try:\n    pass\nexcept E:\n    pass\n", "try:\n    pass\nexcept (A, B):\n    pass\n", "try:\n    pass\nexcept (A, B) as e:\n    pass\n", "try:\n    pass\nexcept E as e:\n    pass\n",
                            "try:\n    pass\nexcept* (A, B) as e:\n    pass\n", "try:\n    pass\nexcept a.b:\n    pass\n", "try:\n    pass\nexcept f():\n    pass\n", "try:\n    pass\nexcept:\n    pass\n",
                            "try:\n    pass\nexcept* E as e:\n    pass\n"],
    "invalid_finally_stmt": ["try:\n    pass\nfinally:\n    pass\n", "try:\n    pass\nfinally: pass\n", "try:\n    pass\nfinally:\n\n    pass\n"],
    "invalid_except_stmt_indent": ["try:\n    pass\nexcept E:\n    pass\n", "try:\n    pass\nexcept E: pass\n", "try:\n    pass\nexcept:\n    pass\n", "try:\n    pass\nexcept: pass\n", "try:\n    pass\nexcept E as e:\n    # c\n    pass\n"],
    "invalid_except_star_stmt_indent": ["try:\n    pass\nexcept* E:\n    pass\n", "try:\n    pass\nexcept* E: pass\n", "try:\n    pass\nexcept* E as e:\n\n    pass\n"],
    "invalid_match_stmt": ["match x:\n    case 1:\n        pass\n", "match x, y:\n    case (1, 2):\n        pass\n", "match (x):\n    case _:\n        pass\n", "match = 1\n", "match: int = 1\n", "match(x)\n",
                           "match[x]\n", "match.x\n", "match x:\n\n    case 1:\n        pass\n", "x = match\n", "match -x:\n    case 1:\n        pass\n", "match *x, y:\n    case _:\n        pass\n"],
    "invalid_case_block": [M.format("1"), M.format("1 if x"), "match x:\n    case 1: pass\n", "match x:\n    case 1 if y: pass\n", "case = 1\n", "case(x)\n", "match x:\n    case 1:\n\n        pass\n",
                           M.format("[a, b]"), M.format("a, b")],
    "invalid_as_pattern": [M.format("1 as y"), M.format("1 | 2 as y"), M.format("[a, b] as c"), M.format("C() as c"), M.format("(1 as a) | (2 as a)"), M.format("1 | _"),
                           M.format("{'k': v} as d"), M.format("a.b as c")],
    "invalid_class_pattern": [M.format("C(a, b)"), M.format("C(a, k=b)"), M.format("C(k=a, j=b)"), M.format("C(a, b, k=c)"), M.format("C(a, k=b,)"), M.format("C()"), M.format("a.C(b, k=c)"),
                              M.format("C(D(a), k=E(j=b))")],
    "invalid_class_argument_pattern": [M.format("C(a, b, k=c, j=d)"), M.format("C(k=c, j=d)"), M.format("C(a, b)")],
    "invalid_if_stmt": ["if x:\n    pass\n", "if x: pass\n", "if (x):\n    pass\n", "if x:\n\n    pass\n", "if x if y else z:\n    pass\n", "if (x := y):\n    pass\n", "if x:  # c\n    pass\n"],
    "invalid_elif_stmt": ["if x:\n    pass\nelif y:\n    pass\n", "if x:\n    pass\nelif y: pass\n", "if x:\n    pass\nelif y:\n    pass\nelif z:\n    pass\nelse:\n    pass\n", "if x: pass\nelif (y := z): pass\n"],
    "invalid_else_stmt": ["if x:\n    pass\nelse:\n    pass\n", "if x:\n    pass\nelse: pass\n", "while x:\n    pass\nelse:\n    pass\n", "for x in y:\n    pass\nelse:\n    pass\n",
                          "try:\n    pass\nexcept E:\n    pass\nelse:\n    pass\n", "if x:\n    pass\nelse:\n\n    pass\n"],
    "invalid_while_stmt": ["while x:\n    pass\n", "while x: pass\n", "while (x):\n    pass\n", "while x:\n\n    pass\n", "while (x := y):\n    pass\n", "while x if y else z:\n    pass\n"],
    "invalid_for_stmt": ["for x in y:\n    pass\n", "for x in y: pass\n", "for x in y, z:\n    pass\n", "for x in *a, b:\n    pass\n", "for x in y:\n\n    pass\n", "async def f():\n    async for x in y: pass\n",
                         "for x in (y):\n    pass\n"],
    "invalid_def_raw": ["def f():\n    pass\n", "def f(): pass\n", "def f() -> int:\n    pass\n", "def f(a) -> int: pass\n", "async def f():\n    pass\n", "async def f(): pass\n", "def f():\n\n    pass\n",
                        "def f():  # c\n    pass\n", "def f(\n    a,\n):\n    pass\n"],
    "invalid_class_def_raw": ["class C(A): pass\n", "class C(A):\n\n    pass\n", "class C(): pass\n", "class C(A, metaclass=M):\n    x = 1\n", "class C(\n    A,\n):\n    x = 1\n"],
    "invalid_double_starred_kvpairs": ["x = {**a, 'k': 1}\n", "x = {'k': 1, **a}\n", "x = {**a, **b, 'k': 1,}\n", "x = {**a, k: v}\n", "x = {k: v, **a, j: w}\n", "x = {**a,}\n", "x = {k: (*v,)}\n",
                                       "x = {k: [*v]}\n", "x = {k: v if c else w}\n"],
    "invalid_kvpair": ["x = {a: b}\n", "x = {a: b,}\n", "x = {a: b, c: d}\n", "x = {a: (*b,)}\n", "x = {a: b if c else d}\n", "x = {a if c else d: b}\n", "x = {a: lambda: b}\n", "x = {(a): (b)}\n",
                       "x = {a: b for a in c}\n", "x = {a}\n", "x = {a, b}\n", "x = {}\n"],
}
# class definitions inside Scenic are Scenic classes (property syntax): the class-header neighbours above are plain `x = 1` / `pass` bodies


def check(python_nf):
    problems, sentences = [], []
    have = [n for n in python_nf["order"] if n.startswith("invalid_")]
    for n in have:
        ent = NEIGHBOURS.get(n)
        if ent is None:
            problems.append(dict(rule=n, alt=None, problem="error-reporting rule without positive neighbours (valid sentences next to what it reports)"))
        elif isinstance(ent, tuple):
            continue
        elif not ent:
            problems.append(dict(rule=n, alt=None, problem="empty list of positive neighbours"))
        else:
            sentences += [dict(rule="near:" + n, alt=i, text=t) for i, t in enumerate(ent)]
    for n in NEIGHBOURS:
        if n not in have:
            problems.append(dict(rule=n, alt=None, problem="neighbour entry for an error rule the grammar no longer has"))
    return problems, sentences
