"""Imported by the Scenic programs of the C11 check: atoms that read a scripted truth table
indexed by the current simulation step, and the scripted lengths of the compose blocks."""
import scenic.syntax.veneer as _veneer

STATE = dict(table=[[False, False]], offset=0, waits=0, after=0, term=False)
CALLS = []


def _now():
    sim = _veneer.currentSimulation
    return sim.currentTime if sim is not None else 0


def V(i):
    """truth value of atom i in the current step (step 0 while the scene is being sampled)"""
    t = _now()
    table = STATE["table"]
    if t >= len(table):
        raise IndexError(f"verif C11: atom {i} read at step {t} beyond the scripted table")
    CALLS.append((t, i))
    return bool(table[t][i])


def END():
    """`terminate when END()`: stop in the last scripted step (only in 'term' end mode)"""
    return STATE["term"] and _now() >= len(STATE["table"]) - 1


def OFFSET():
    return STATE["offset"]


def WAITS():
    return STATE["waits"]


def AFTER():
    return STATE["after"]
