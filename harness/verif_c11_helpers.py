"""Imported by the Scenic programs of the C11 check: atoms that read a scripted truth table
indexed by the current simulation step, and the scripted lengths of the compose blocks."""
import scenic.syntax.veneer as _veneer

STATE = dict(table=[[False, False]], offset=0, waits=0, after=0, term=False,
             doform=0, dofor=0, until=None, sublimit=0, subn=0, termstmt=False)
CALLS = []


def _now():
    sim = _veneer.currentSimulation
    return sim.currentTime if sim is not None else 0


def V(i):
    """truth value of atom i in the current step (step 0 while the scene is being sampled)"""
    t = _now()
    table = STATE["table"]
    if t >= len(table):
        raise IndexError(f"verif C11: atom {i} read at step {t} beyond the scripted table")
    CALLS.append((t, i))
    return bool(table[t][i])


def END():
    """`terminate when END()`: stop in the last scripted step (only in 'term' end mode)"""
    return STATE["term"] and _now() >= len(STATE["table"]) - 1


def OFFSET():
    return STATE["offset"]


def WAITS():
    return STATE["waits"]


def AFTER():
    return STATE["after"]


def DOFORM():
    """how Main invokes Sub: 0 `do Sub()`, 1 `... for DOFOR() steps`, 2 `... for DOFOR() seconds`, 3 `... until UNTIL()`"""
    return STATE["doform"]


def DOFOR():
    return STATE["dofor"]


def UNTIL():
    u = STATE["until"]
    return u is not None and _now() >= u


def SUBLIMIT():
    """0: the sub-scenario has no time limit; 1: `terminate after SUBN() steps`; 2: `... seconds`"""
    return STATE["sublimit"]


def SUBN():
    return STATE["subn"]


def TERMSTMT():
    """end the compose block with an explicit `terminate` statement instead of running off its end"""
    return STATE["termstmt"]
