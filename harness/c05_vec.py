"""C05 — vector expressions (round 3) and the directed reflected-operator family.

Vector cases: trees over constant vectors with every zero pattern of the coordinates (2D: 4, 3D: 8; zeros written
0 / 0.0 / -0.0), vectors with random coordinates (class Vector), genuine VectorDistributions (results of operators on
random vectors, lifted methods on a constant vector, points sampled in a region) and other vector-valued distributions
(Uniform over vectors, a lifted function, scalar * VectorDistribution), combined with + and - on both sides (constant
given as Vector(...), x @ y, or a raw tuple), `relative to`, `offset by`, scalar * and / (constants 1, 0, k and random
scalars, on both sides) and rotatedBy.  Observation: x, y and z of the value in the scene vs CPython on the sampled
leaves, and vs the extracted Coq model (coq/C05/Vec.v: veval = plain arithmetic, vcap + nev = capture with shortcuts
followed by sampleGiven)."""
import itertools
import math
from fractions import Fraction

NZ = [5, -2, 2.5, 1, -0.5, 3, -4.25]
ZEROS = [0, 0, 0.0, -0.0]
PRELUDE = ("from scenic.core.distributions import distributionFunction\n"
           "@distributionFunction\n"
           "def mkvec(a, b):\n"
           "    return Vector(a, b, a - b)\n")


def cst(v):
    s = repr(v)
    return f"({s})" if s.startswith("-") else s


def qtok(x):
    f = Fraction(x)
    return f"{zs(f.numerator)} {zs(f.denominator)}"


def zs(z):
    return str(z) if abs(z) < 2 ** 60 else ("-" if z < 0 else "") + "0b" + bin(abs(z))[2:]


class VGen:
    def __init__(self, rng):
        self.rng = rng
        self.defs = []
        self.tags = set()
        self.nv = 0
        self.vleaves = {}     # vid -> coordinate specs
        self.vdefs = {}       # def idx -> "d" | "g"
        self.rots = set()     # scalar leaves used as angles
        self.sleaves = set()  # scalar leaves used as scalar operands
        self.prelude = False

    # ---- leaves
    def sleaf(self, positive=False, share=0.4):
        rng = self.rng
        cands = [d for d in self.defs if d.get("role") == "s" and (d.get("positive") or not positive)]
        if cands and rng.random() < share:
            return ("ref", rng.choice(cands)["idx"])
        i = len(self.defs)
        if rng.random() < 0.7:
            a = rng.choice([0.5, 1, 2] if positive else [-3, 0, 0.5, 1, 2, -1.5])
            text = f"Range({a}, {a + rng.choice([1, 2, 0.5])})"
        else:
            a = rng.choice([1, 2] if positive else [-2, 0, 1])
            text = f"DiscreteRange({a}, {a + rng.randint(1, 3)})"
        self.defs.append(dict(idx=i, kind="leaf", var=f"L{i}", scenic=text, py=None, role="s", positive=positive))
        return ("ref", i)

    def opaque(self, cls):
        rng = self.rng
        i = len(self.defs)
        if cls == "d":
            x, y = rng.choice([0, 1, -2]), rng.choice([0, 2, 3])
            text = f"(new Point in RectangularRegion({cst(x)} @ {y}, {rng.choice([0, 0.5])}, 2, 3)).position"
        else:
            if rng.random() < 0.5:
                vs = [self.const_coords(3, [rng.random() < 0.4 for _ in range(3)]) for _ in range(rng.randint(2, 3))]
                text = "Uniform(" + ", ".join("Vector(" + ", ".join(cst(c) for c in v) + ")" for v in vs) + ")"
            else:
                self.prelude = True
                text = f"mkvec(Range({rng.choice([-1, 0, 1])}, 2), {rng.choice([0, 2, -0.5])})"
        self.defs.append(dict(idx=i, kind="leaf", var=f"P{i}", scenic=text, py=None, role="v"))
        self.vdefs[i] = cls
        return ("pv", i)

    def const_coords(self, dim, zeros):
        rng = self.rng
        return [rng.choice(ZEROS) if z else rng.choice(NZ) for z in zeros[:dim]]

    def cvec(self, dim, zeros, render):
        if dim == 3 and render == "at":
            render = "Vector"
        return ("cv", self.const_coords(dim, zeros), render)

    def rvec(self, dim=None, render=None):
        rng = self.rng
        dim = dim or rng.choice([2, 3])
        coords = [self.sleaf() if rng.random() < 0.75 else ("const", rng.choice([0, 0, 1, -2.5])) for _ in range(dim)]
        if not any(c[0] == "ref" for c in coords):
            coords[rng.randrange(dim)] = self.sleaf()
        vid = self.nv
        self.nv += 1
        self.vleaves[vid] = [list(c) for c in coords]
        render = render or ("at" if dim == 2 and rng.random() < 0.7 else "Vector")
        return ("rv", vid, coords, render)

    def scalar(self, random_ok=True, nonzero=False):
        rng = self.rng
        if random_ok and rng.random() < 0.4:
            r = self.sleaf(positive=True)
            self.sleaves.add(r[1])
            return r
        return ("const", rng.choice([1, 2, 0.5, -2, 1.0, True] + ([] if nonzero else [0, 0.0])))

    def angle(self):
        rng = self.rng
        if rng.random() < 0.6:
            r = self.sleaf()
            self.rots.add(r[1])
            return r
        return ("const", rng.choice([0, 0.5, -1.25, 3]))

    # ---- random vectors of a given class
    def X(self, kind, depth=1):
        rng = self.rng
        if kind == "rv":
            return self.rvec()
        if kind == "pd":
            return self.opaque("d")
        if kind == "vod":      # VectorOperatorDistribution
            f = rng.choice(["rv+rv", "rv+rv0", "rv*k", "pd+rv", "rv+cv", "rv.rot"])
            if f == "rv+rv":
                return ("vbin", rng.random() < 0.4, self.rvec(), self.rvec())
            if f == "rv+rv0":   # (Range @ Range) + (Range @ 0)
                a = self.rvec(2)
                vid = self.nv
                self.nv += 1
                c = [self.sleaf(), ("const", 0)]
                self.vleaves[vid] = [list(x) for x in c]
                return ("vbin", False, a, ("rv", vid, c, "at"))
            if f == "rv*k":
                return ("vmul", self.rvec(), self.scalar(nonzero=True))
            if f == "pd+rv":
                return ("vbin", rng.random() < 0.5, self.opaque("d"), self.rvec())
            if f == "rv+cv":
                return ("vbin", rng.random() < 0.5, self.rvec(), self.cvec(3, [False, rng.random() < 0.5, False], "Vector"))
            return ("vrot", self.rvec(), self.angle())
        if kind == "vmd":      # VectorMethodDistribution: a method of a constant vector with a random argument
            f = rng.choice(["cv+rv", "cv-rv", "cv.rot", "cv*R"])
            c = self.cvec(3, [rng.random() < 0.3 for _ in range(3)], "Vector")
            if all(v == 0 for v in c[1]):
                c = ("cv", [c[1][0], c[1][1], rng.choice(NZ)], "Vector")
            if f in ("cv+rv", "cv-rv"):
                return ("vbin", f == "cv-rv", c, self.rvec())
            if f == "cv.rot":
                r = self.sleaf()
                self.rots.add(r[1])
                return ("vrot", c, r)
            r = self.sleaf(positive=True)
            self.sleaves.add(r[1])
            return ("vmul", c, r)
        # generic vector-valued distribution
        f = rng.choice(["opaque", "opaque", "k*vd", "R*cv"])
        if f == "opaque":
            return self.opaque("g")
        if f == "k*vd":
            return ("vrmul", ("const", rng.choice([2, -1, 0.5])), self.X(rng.choice(["vod", "pd"])))
        r = self.sleaf(positive=True)
        self.sleaves.add(r[1])
        return ("vrmul", r, self.cvec(3, [rng.random() < 0.3 for _ in range(3)], "Vector"))

    def tree(self, depth):
        rng = self.rng
        if depth <= 0:
            k = rng.choice(["rv", "pd", "vod", "vmd", "gen", "cv"])
            if k == "cv":
                dim = rng.choice([2, 3])
                return self.cvec(dim, [rng.random() < 0.5 for _ in range(3)], rng.choice(["at", "Vector"]))
            return self.X(k)
        k = rng.choice(["bin", "bin", "rel", "rel", "mul", "rmul", "div", "rot", "tl", "tr"])
        if k == "bin":
            return ("vbin", rng.random() < 0.5, self.tree(depth - 1), self.tree(depth - 1))
        if k == "rel":
            a, b = self.tree(depth - 1), self.tree(depth - 1)
            if rng.random() < 0.4:
                dim = rng.choice([2, 3])
                c = self.cvec(dim, [rng.random() < 0.6 for _ in range(3)], rng.choice(["tuple", "at", "Vector"]))
                a, b = (a, c) if rng.random() < 0.5 else (c, b)
            return ("vrel", rng.choice(["relative to", "offset by"]), a, b)
        if k == "mul":
            return ("vmul", self.tree(depth - 1), self.scalar())
        if k == "rmul":
            return ("vrmul", self.scalar(), self.tree(depth - 1))
        if k == "div":
            return ("vdiv", self.tree(depth - 1), self.scalar(nonzero=rng.random() < 0.9))
        if k == "rot":
            a = self.tree(depth - 1)
            if is_generic(a):
                return a
            return ("vrot", a, self.angle())
        c = self.cvec(3, [rng.random() < 0.6 for _ in range(3)], "tuple")
        self.tags.add("tuple-operand")
        if k == "tl":
            return ("vbin", rng.random() < 0.5, c, self.tree(depth - 1))
        return ("vbin", rng.random() < 0.5, self.tree(depth - 1), c)


def is_generic(t):
    """statically: is the captured object a non-vector Distribution (no rotatedBy handler of its own)?"""
    k = t[0]
    if k == "pv":
        return True      # conservative: opaque leaves of either class
    if k == "vrmul":
        return True
    if k in ("vbin", "vrel"):
        return is_generic(t[2]) or is_generic(t[3])
    if k in ("vmul", "vdiv", "vrot"):
        return is_generic(t[1])
    return False


def vconst(t):
    """no random leaf below: the operand is a constant when the text is evaluated (not isLazy)"""
    return not refs(t, set()) and not vids(t, set())


def vstatic(t, g, hits):
    """What Scenic knows at compile time about the type of a vector-valued operand (type_support.isA(x, Vector)):
    'T' typed as Vector (constants, Vector with random coordinates, VectorDistribution, Uniform over vectors, and whatever a
    special method of those returns); 'U' untyped (`_valueType` is object: a lifted function without annotation, `R * v` with a
    random scalar R first, and operators dispatched on such an object); 'N' the value type is not a class: `a relative to b` /
    `a offset by b` with neither operand typed is resolved at sampling (veneer.lazyRelativeTo, annotated
    `-> Union[Vector, float, Orientation]`).  `hits` collects the operators dispatched to a handler of
    distributions.makeOperatorHandler on an 'N' object with a constant argument (finding C05-F12: the shortcut test
    issubclass(self._valueType, Number) raises TypeError on the union; a random argument skips the test)."""
    k = t[0]
    V = lambda x: vstatic(x, g, hits)
    if k in ("cv", "rv"):
        return "T"
    if k == "pv":
        d = g.defs[t[1]]["scenic"] if hasattr(g, "defs") else ""
        return "U" if d.startswith("mkvec(") else "T"
    if k == "vbin":
        a, b = V(t[2]), V(t[3])
        obj, arg = (b, t[2]) if is_rawtuple(t[2]) else (a, t[3])   # a raw tuple on the left: reflected method of b
        if obj == "N":
            # the handlers of + / reflected + / - (not reflected -) test `not isLazy(arg)` first, then the value type
            if vconst(arg) and not (is_rawtuple(t[2]) and t[1]):
                hits.append("vbin")
            return "U"
        return obj
    if k == "vrel":
        a, b = V(t[2]), V(t[3])
        return "T" if "T" in (a, b) else "N"
    if k in ("vmul", "vdiv"):
        a = V(t[1])
        if a == "N":
            if t[2][0] == "const":
                hits.append(k)
            return "U"
        return a
    if k == "vrmul":
        a = V(t[2])
        if t[1][0] == "ref":
            return "U"                            # Distribution.__mul__ of the random scalar
        if a == "N":
            hits.append(k)
            return "U"
        return a
    if k == "vrot":
        a = V(t[1])
        return "U" if a == "N" else a
    raise ValueError(k)


def is_rawtuple(t):
    return t[0] == "cv" and t[2] == "tuple"


def vrender(t, defs, py, coerce=False):
    k = t[0]
    R = lambda x, c=False: vrender(x, defs, py, c)

    def S(x):
        return defs[x[1]]["var"] if x[0] == "ref" else cst(x[1])
    if k in ("cv", "rv"):
        cs = [cst(v) for v in t[1]] if k == "cv" else [S(c) for c in t[2]]
        r = t[2] if k == "cv" else t[3]
        if r == "at":
            return f"Vector({cs[0]}, {cs[1]})" if py else f"({cs[0]} @ {cs[1]})"
        if r == "tuple" and not (py and coerce):
            return "(" + ", ".join(cs) + ")"
        return "Vector(" + ", ".join(cs) + ")"
    if k == "pv":
        return defs[t[1]]["var"]
    if k == "vbin":
        return f"({R(t[2])} {'-' if t[1] else '+'} {R(t[3])})"
    if k == "vrel":
        if py:
            return f"({R(t[2], True)} + {R(t[3], True)})"
        return f"({R(t[2], True)} {t[1]} {R(t[3], True)})"
    if k == "vmul":
        return f"({R(t[1])} * {S(t[2])})"
    if k == "vrmul":
        return f"({S(t[1])} * {R(t[2])})"
    if k == "vdiv":
        return f"({R(t[1])} / {S(t[2])})"
    if k == "vrot":
        return f"{R(t[1])}.rotatedBy({S(t[2])})"
    raise ValueError(k)


def pad3(cs):
    return list(cs) + [0] * (3 - len(cs))


def vmodel(t, g):
    k = t[0]
    M = lambda x: vmodel(x, g)

    def q3(c):
        return " ".join(qtok(v) for v in pad3(c[1]))

    def SX(x):
        return f"sl {x[1]}" if x[0] == "ref" else "sc " + qtok(x[1])
    if k == "cv":
        return "c " + q3(t)
    if k == "rv":
        return f"r {100 + t[1]}"
    if k == "pv":
        return f"{g.vdefs[t[1]]} {t[1]}"
    if k == "vbin":
        sub = int(t[1])
        if is_rawtuple(t[2]):
            return f"tl {sub} {q3(t[2])} {M(t[3])}"
        if is_rawtuple(t[3]):
            return f"tr {sub} {M(t[2])} {q3(t[3])}"
        return f"bin {sub} {M(t[2])} {M(t[3])}"
    if k == "vrel":
        return f"rel {M(t[2])} {M(t[3])}"
    if k == "vmul":
        return f"mul {M(t[1])} {SX(t[2])}"
    if k == "vrmul":
        return f"rmul {SX(t[1])} {M(t[2])}"
    if k == "vdiv":
        return f"div {M(t[1])} {SX(t[2])}"
    if k == "vrot":
        a = t[2]
        if a[0] == "ref":
            return f"rot {M(t[1])} rl {200 + 2 * a[1]} {201 + 2 * a[1]}"
        return f"rot {M(t[1])} rc {qtok(math.cos(a[1]))} {qtok(math.sin(a[1]))}"
    raise ValueError(k)


def refs(t, acc):
    if isinstance(t, (tuple, list)):
        if len(t) == 2 and t[0] in ("ref", "pv") and isinstance(t[1], int):
            acc.add(t[1])
        else:
            for x in t:
                refs(x, acc)
    return acc


def vids(t, acc):
    if isinstance(t, tuple):
        if t and t[0] == "rv":
            acc.add(t[1])
        else:
            for x in t[1:]:
                vids(x, acc)
    return acc


def finish_case(g, t, cid, seed, nsamples, tags):
    used = refs(t, set())
    hits = []
    vstatic(t, g, hits)
    if hits:
        tags = list(tags) + ["arith-on-untyped-rel"]
    defs = [dict(idx=d["idx"], kind="leaf", var=d["var"], scenic=d["scenic"], py=None) for d in g.defs if d["idx"] in used]
    vleaves = {str(v): g.vleaves[v] for v in sorted(vids(t, set()))}
    return dict(id=cid, kind="expr", seed=seed, nsamples=nsamples, expr=vrender(t, g.defs, False), py=vrender(t, g.defs, True),
                tags=sorted(set(tags) | g.tags), top="vec3", defs=defs, model=None, fpdisc=False, used=sorted(used),
                prelude=(PRELUDE if g.prelude else ""), vmodel=vmodel(t, g), vleaves=vleaves,
                vdefs={str(i): c for i, c in g.vdefs.items() if i in used}, rots=sorted(i for i in g.rots if i in used),
                sleaves=sorted(i for i in g.sleaves if i in used))


def untyped_rel_tree(g):
    rng = g.rng

    def U(depth=1):      # an operand whose `_valueType` is object
        k = rng.choice(["gm", "R*x", "U+x", "k*U", "U/k", "U*k", "tl"] if depth > 0 else ["gm", "R*x"])
        if k == "gm":
            g.prelude = True
            i = len(g.defs)
            g.defs.append(dict(idx=i, kind="leaf", var=f"P{i}", py=None, role="v",
                               scenic=f"mkvec(Range({rng.choice([-1, 0, 1])}, 2), {rng.choice([0, 2, -0.5])})"))
            g.vdefs[i] = "g"
            return ("pv", i)
        if k == "R*x":
            r = g.sleaf(positive=True)
            g.sleaves.add(r[1])
            return ("vrmul", r, g.tree(0))
        if k == "U+x":
            return ("vbin", rng.random() < .5, U(depth - 1), g.tree(0))
        if k == "k*U":
            return ("vrmul", ("const", rng.choice([2, -1, 0.5])), U(depth - 1))
        if k == "U/k":
            return ("vdiv", U(depth - 1), g.scalar(nonzero=True))
        if k == "U*k":
            return ("vmul", U(depth - 1), g.scalar())
        g.tags.add("tuple-operand")
        return ("vbin", rng.random() < .5, g.cvec(3, [False] * 3, "tuple"), U(depth - 1))

    def outer(x):
        k = rng.choice(["bin", "binr", "tl", "tr", "mul", "rmulc", "rmulr", "div", "rel", "relU", "relr"])
        if k == "bin":
            return ("vbin", rng.random() < .5, x, g.tree(rng.choice([0, 1])))
        if k == "binr":
            return ("vbin", rng.random() < .5, g.tree(rng.choice([0, 1])), x)
        if k in ("tl", "tr"):
            g.tags.add("tuple-operand")
            c = g.cvec(3, [rng.random() < 0.3 for _ in range(3)], "tuple")
            return ("vbin", rng.random() < .5, c, x) if k == "tl" else ("vbin", rng.random() < .5, x, c)
        if k == "mul":
            return ("vmul", x, g.scalar())
        if k == "rmulc":
            return ("vrmul", ("const", rng.choice([2, -1, 0.5, 1])), x)
        if k == "rmulr":
            r = g.sleaf(positive=True)
            g.sleaves.add(r[1])
            return ("vrmul", r, x)
        if k == "div":
            return ("vdiv", x, g.scalar(nonzero=True))
        if k == "rel":
            return ("vrel", "offset by", x, g.tree(0))
        if k == "relr":
            return ("vrel", "relative to", g.tree(0), x)
        return ("vrel", "offset by", x, U())

    t = ("vrel", rng.choice(["relative to", "offset by"]), U(), U())
    for _ in range(rng.choice([1, 1, 2, 3])):
        t = outer(t)
    return t


def build_vcases(rng, quick):
    """directed enumeration (every form x zero pattern x rendering, each with a VectorDistribution and with another
    class of random vector) + scalar forms + rotatedBy + random nested trees."""
    cases = []
    nsamples = 3 if quick else 6
    pats = [(3, p) for p in itertools.product([True, False], repeat=3)] + [(2, p + (True,)) for p in itertools.product([True, False], repeat=2)]
    forms = ["X+c", "c+X", "X-c", "c-X", "X rel c", "c rel X", "X off c", "c off X"]
    vd_kinds, other_kinds = ["vod", "vmd", "pd"], ["rv", "gen"]
    rounds = 1 if quick else 4
    n = 0
    off = rng.randrange(6)
    for rnd in range(rounds):
        for form in forms:
            for dim, pat in pats:
                renders = ["Vector", "tuple"] if dim == 3 else ["at", "tuple"]
                for render in renders:
                    if render == "tuple" and dim == 2 and "rel" not in form and "off" not in form:
                        render = "Vector"    # a raw 2-tuple is no operand of + / - even in plain Python (IndexError)
                    for xk in (vd_kinds[(n + off) % 3], other_kinds[(n + off) % 2]):
                        g = VGen(rng)
                        x = g.X(xk)
                        c = g.cvec(dim, pat, render)
                        tags = [f"vform:{form}", f"vpat:{dim}d:" + "".join("0" if z else "n" for z in pat[:dim]), f"vx:{xk}", f"vrender:{render}"]
                        if render == "tuple" and ("rel" not in form and "off" not in form):
                            tags.append("tuple-operand")
                        xleft = form.startswith("X")
                        if "rel" in form or "off" in form:
                            t = ("vrel", "relative to" if "rel" in form else "offset by", x if xleft else c, c if xleft else x)
                        else:
                            t = ("vbin", "-" in form, x if xleft else c, c if xleft else x)
                        cases.append(finish_case(g, t, f"v{n}", rng.randint(0, 10 ** 6), nsamples, tags))
                        n += 1
        # scalar forms
        for xk in vd_kinds + other_kinds:
            for sf in ["X*1", "X*0", "1*X", "0*X", "X/1", "X*k", "k*X", "X/k", "X*R", "R*X", "X/R", "X/0", "X*1.0", "X*True"]:
                g = VGen(rng)
                x = g.X(xk)
                if sf[0] == "X":
                    kk = sf[2:]
                else:
                    kk = sf[0]
                if kk == "R":
                    k = g.sleaf(positive=True)
                    g.sleaves.add(k[1])
                elif kk == "k":
                    k = ("const", rng.choice([2, -2, 0.5, 3]))
                else:
                    k = ("const", {"1": 1, "0": rng.choice([0, 0.0]), "1.0": 1.0, "True": True}[kk])
                t = ("vrmul", k, x) if sf[0] != "X" else (("vdiv", x, k) if "/" in sf else ("vmul", x, k))
                cases.append(finish_case(g, t, f"v{n}", rng.randint(0, 10 ** 6), nsamples, [f"vform:{sf}", f"vx:{xk}"]))
                n += 1
        # constant vector (every zero pattern) as the object of a method with a random argument: preservesZero
        for dim, pat in pats:
            for mf in ["c.rot(R)", "c*R", "c/R", "c-X", "c+X"]:
                g = VGen(rng)
                c = g.cvec(dim, pat, "Vector" if dim == 3 else "at")
                if mf == "c.rot(R)":
                    t = ("vrot", c, g.angle() if rng.random() < 0.3 else (lambda r: (g.rots.add(r[1]), r)[1])(g.sleaf()))
                elif mf in ("c*R", "c/R"):
                    r = g.sleaf(positive=True)
                    g.sleaves.add(r[1])
                    t = ("vmul" if mf == "c*R" else "vdiv", c, r)
                else:
                    t = ("vbin", mf == "c-X", c, g.X(rng.choice(["rv", "vod", "pd", "gen"])))
                cases.append(finish_case(g, t, f"v{n}", rng.randint(0, 10 ** 6), nsamples,
                                         [f"vform:{mf}", f"vpat:{dim}d:" + "".join("0" if z else "n" for z in pat[:dim])]))
                n += 1
    for _ in range(60 if quick else 1500):
        g = VGen(rng)
        t = g.tree(rng.choice([1, 1, 2, 2, 3]))
        cases.append(finish_case(g, t, f"v{n}", rng.randint(0, 10 ** 6), nsamples, ["vtree"]))
        n += 1
    # `relative to` / `offset by` of two operands Scenic cannot type at compile time (resolved at sampling), then more
    # operators on the result (finding C05-F12 for the forms tagged arith-on-untyped-rel)
    for _ in range(8 if quick else 160):
        g = VGen(rng)
        t = untyped_rel_tree(g)
        cases.append(finish_case(g, t, f"v{n}", rng.randint(0, 10 ** 6), nsamples, ["vtree", "untyped-rel"]))
        n += 1
    return cases


def frac(e):
    if e[0] == "B":
        return Fraction(int(e[1]))
    if e[0] == "I":
        return Fraction(int(e[1]))
    if e[0] == "F":
        return Fraction(int(e[1]), int(e[2]))
    raise ValueError(e)


def vec_of(e):
    if e[0] != "V":
        raise ValueError(e)
    return [frac(x) for x in e[1]]


def vline(case, s):
    """driver line for one sample (None if the leaves are not all numeric)."""
    L = s["leaves"]
    try:
        vecs = []
        for vid, coords in case["vleaves"].items():
            vals = [frac(L[str(c[1])]) if c[0] == "ref" else Fraction(c[1]) for c in coords]
            vecs.append((100 + int(vid), pad3(vals)))
        for idx in case["vdefs"]:
            vecs.append((int(idx), vec_of(L[str(idx)])))
        scal = [(i, frac(L[str(i)])) for i in case["sleaves"]]
        for i in case["rots"]:
            a = float(frac(L[str(i)]))
            scal += [(200 + 2 * i, Fraction(math.cos(a))), (201 + 2 * i, Fraction(math.sin(a)))]
    except (KeyError, ValueError):
        return None
    vs = " ".join(f"{i} " + " ".join(qtok(x) for x in v) for i, v in vecs)
    ss = " ".join(f"{i} {qtok(x)}" for i, x in scal)
    return f"V 1 | {len(vecs)} {vs} | {len(scal)} {ss} | {case['vmodel']}"


def parse_vres(s):
    """'OK a/b c/d e/f [cls]' | 'ZERO [cls]' | 'ATTR' -> (kind, [Fractions] | None)"""
    p = s.split()
    if p[0] == "OK":
        return "ok", [Fraction(int(x.split("/")[0], 0), int(x.split("/")[1], 0)) for x in p[1:4]]
    return p[0].lower(), None


# ------------------------------------------------------------------ reflected operators (task: seeds C05-3 / C01-4)
def reflect_cases(rng, nsamples):
    """every non-commutative reversible operator x operand order x kind of int-valued random operand x float constant /
    float-valued random operand: the first operand's method returns NotImplemented, sampleGiven must fall back to the
    REVERSE method of the other operand."""
    ints = [("drange", "DiscreteRange(1, 4)", "drange 0 const I 1 const I 4"),
            ("uniform", "Uniform(1, 2, 3)", None),
            ("len", "len(Uniform((1, 2), (1, 2, 3), (5,)))", None)]
    ops = [("sub", "-"), ("div", "/"), ("fdiv", "//"), ("mod", "%"), ("pow", "**"), ("divmod", None)]
    cases = []
    n = 0
    for opn, sym in ops:
        for ik, itext, imodel in ints:
            for fk in ("const", "range"):
                for order in ("int-first", "float-first"):
                    fc = rng.choice([0.5, 2.5, 1.5, 2.0] + ([] if opn == "pow" else [-2.5, -0.5]))
                    defs = [dict(idx=0, kind="leaf", var="N0", scenic=itext, py=None)]
                    if fk == "range":
                        lo = rng.choice([0.5, 1.5, 2.25])
                        defs.append(dict(idx=1, kind="leaf", var="L1", scenic=f"Range({lo}, {lo + 1})", py=None))
                        f, fm = "L1", f"range 1 const F {qtok(lo)} const F {qtok(lo + 1)}"
                    else:
                        f, fm = cst(fc), "const F " + qtok(fc)
                    a, b = ("N0", f) if order == "int-first" else (f, "N0")
                    text = f"divmod({a}, {b})" if opn == "divmod" else f"({a} {sym} {b})"
                    model = None
                    if imodel and opn in ("sub", "div", "fdiv", "mod"):
                        ma, mb = (imodel, fm) if order == "int-first" else (fm, imodel)
                        model = f"bin {opn} {ma} {mb}"
                    cases.append(dict(id=f"r{n}", kind="expr", seed=rng.randint(0, 10 ** 6), nsamples=nsamples, expr=text, py=text,
                                      tags=["reflect", f"reflect:{opn}:{order}:{ik}:{fk}"], top="num", defs=defs, model=model, tau=[],
                                      fpdisc=opn in ("fdiv", "mod"), used=[d["idx"] for d in defs]))
                    n += 1
    return cases
