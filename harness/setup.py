"""setup_cmd: build the whole Coq development (full .vo build), apply the grep gate, build every
extracted model driver, and (re)generate Scenic's parser from the grammar."""
import os
import sys

sys.path.insert(0, os.path.dirname(os.path.abspath(__file__)))
import common


def main():
    os.makedirs(common.WORK, exist_ok=True)
    common.ensure_parser()
    # Full .vo build of the whole development.  `make -k`: a proof file that no longer checks must fail
    # the check of the property it belongs to (every check rebuilds and re-checks its own dependency
    # closure and reports a broken obligation), not take the other properties' checks down with it.
    ok, log = common.build_coq(keep_going=True)
    if not ok:
        print(log)
        print("WARNING: some Coq files did not build; the checks of the affected properties will report it")
    bad = common.gate()
    if bad:
        print("\n".join(bad))
        print("WARNING: gate failed; the checks of the affected properties will report it")
    for d in sorted(os.listdir(common.COQ)):
        if os.path.exists(os.path.join(common.COQ, d, "Extract.v")):
            try:
                common.build_ocaml(d)
                print("built extracted model", d)
            except Exception as e:
                print("WARNING: extracted model", d, "did not build:", str(e)[-500:])
    print("setup ok" if ok and not bad else "setup finished with warnings")


if __name__ == "__main__":
    main()
