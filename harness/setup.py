"""setup_cmd: build the whole Coq development (full .vo build), apply the grep gate, build every
extracted model driver, and (re)generate Scenic's parser from the grammar."""
import os
import sys

sys.path.insert(0, os.path.dirname(os.path.abspath(__file__)))
import common


def main():
    os.makedirs(common.WORK, exist_ok=True)
    common.ensure_parser()
    ok, log = common.build_coq()
    if not ok:
        print(log)
        sys.exit("Coq build failed")
    bad = common.gate()
    if bad:
        print("\n".join(bad))
        sys.exit("gate failed")
    for d in sorted(os.listdir(common.COQ)):
        if os.path.exists(os.path.join(common.COQ, d, "Extract.v")):
            common.build_ocaml(d)
            print("built extracted model", d)
    print("setup ok")


if __name__ == "__main__":
    main()
