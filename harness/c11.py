"""C11 — temporal requirements accept exactly the traces satisfying the formula.
Proof layer: coq/Properties/C11.v (faithful model of rv_ltl's monitor + Scenic's glue vs finite-trace LTL).
Correspondence: every generated formula x every truth table up to a length bound is run as a REAL
simulation (DummySimulator, atoms reading a scripted table) at five declaration sites and compared with
the extracted model (must agree everywhere) and with the specification (may differ only where the F5
matchers of known_findings apply)."""
import concurrent.futures as cf
import itertools
import json
import os
import random
import sys

sys.path.insert(0, os.path.dirname(os.path.abspath(__file__)))
import common
from common import Check
import c11_formulas as F

PID = "C11"
HDR = "from verif_c11_helpers import V, END, OFFSET, WAITS, AFTER\n"
MAIN_COMPOSE = ("scenario Main():\n    setup:\n        {EGO}\n    compose:\n"
                "        for _ in range(OFFSET()):\n            wait\n        do Sub()\n"
                "        for _ in range(AFTER()):\n            wait\n")
SITES = {
    # requirement declared at top level of the program (compile time; also checked on the sampled scene)
    "top": HDR + "{EGO}\nrequire {F}\nterminate when END()\n",
    # ... in the setup block of the top-level modular scenario (compile time)
    "setup": HDR + "scenario Main():\n    setup:\n        {EGO}\n        require {F}\n        terminate when END()\n",
    # ... in the setup block of a sub-scenario invoked at step OFFSET (run time, before the scenario starts)
    "subsetup": HDR + "scenario Sub():\n    setup:\n        require {F}\n    compose:\n        for _ in range(WAITS()):\n            wait\n" + MAIN_COMPOSE,
    # ... dynamically inside the compose block of the top-level scenario, at step OFFSET
    "compose": HDR + ("scenario Main():\n    setup:\n        {EGO}\n    compose:\n"
                      "        for _ in range(OFFSET()):\n            wait\n        require {F}\n"
                      "        for _ in range(WAITS()):\n            wait\n"),
    # ... dynamically inside the compose block of a sub-scenario
    "subcompose": HDR + "scenario Sub():\n    compose:\n        require {F}\n        for _ in range(WAITS()):\n            wait\n" + MAIN_COMPOSE,
}
SITE_ORDER = ["top", "setup", "subsetup", "compose", "subcompose"]
SCENE_CHECK = {"top": True, "setup": True, "subsetup": False, "compose": False, "subcompose": False}
STYLES = ["min", "full", "rand"]
NW = min(8, common.NCPU)

CORPUS = [  # (formula tokens, natoms) always run on every site: F5 witnesses and end-of-trace distinctions
    ("G U a0 a1", 2), ("U a0 | F a1 a2", 3), ("U a0 a1", 2), ("G a0", 2), ("F a0", 2), ("X a0", 2), ("! X a0", 2),
    ("X X a0", 2), ("G > a0 X a1", 2), ("G F a0", 2), ("F G a0", 2), ("U G a0 a1", 2), ("U a0 G a1", 2),
    ("U a0 U a1 a0", 2), ("U U a0 a1 a0", 2), ("F U a0 a1", 2), ("X U a0 a1", 2), ("> F a0 G a1", 2) ,
    ("| & a0 G a1 F ! a0", 2), ("! U a0 a1", 2), ("& U a0 a1 G ! a1", 2), ("a0", 2), ("! a0", 2), ("> a0 a1", 2),
    # n-ary and/or (the compiler builds one And/Or node with three operands), prefix operators as last operands
    ("& & a0 a1 X a0", 2), ("| | a0 X a1 F a0", 2), ("& & G a0 a1 F a1", 2), ("| | ! a0 a1 G a1", 2),
]


def all_tables(natoms, maxlen):
    out = []
    for L in range(1, maxlen + 1):
        for bits in itertools.product([0, 1], repeat=natoms * L):
            out.append([list(bits[natoms * i:natoms * (i + 1)]) for i in range(L)])
    return out


def make_run(site, window, natoms, h):
    """embed the requirement's window into a whole scripted simulation for this site; h: case hash (int)"""
    L = len(window)
    if site in ("top", "setup"):
        end = "term" if (L == 1 or h % 2 == 0) else "max"
        return dict(table=window, offset=0, waits=0, after=0, end=end)
    frng = random.Random(h)
    offset = h % 3
    after = 0 if site == "compose" else (h // 3) % 2
    filler = lambda n: [[frng.randint(0, 1) for _ in range(natoms)] for _ in range(n)]
    if L >= 2 and (h // 6) % 3 == 0:
        # the scenario is still running when the simulation hits maxSteps: it is stopped from outside
        # ("simulation terminated") and its requirement must be checked then
        return dict(table=filler(offset) + window, offset=offset, waits=L + 4, after=0, end="max")
    return dict(table=filler(offset) + window + filler(after), offset=offset, waits=L - 1, after=after, end="term")


def first_false_now(f, window):
    """for f = always p with p non-temporal: first step at which p is false (else None)"""
    def ev(g, row):
        k = g[0]
        if k == "a":
            return bool(row[g[1]])
        if k == "!":
            return not ev(g[1], row)
        if k == "&":
            return ev(g[1], row) and ev(g[2], row)
        if k == "|":
            return ev(g[1], row) or ev(g[2], row)
        if k == ">":
            return (not ev(g[1], row)) or ev(g[2], row)
        raise ValueError
    for t, row in enumerate(window):
        if not ev(f[1], row):
            return t
    return None


def main():
    c = Check(PID, "proof")
    c.cov["rule"] = ("formulas enumerated exhaustively by depth over {not, and, or, implies, next, eventually, always, until} "
                     "(all of depth <= 1 at every site, depth 2 exhaustively in the thorough tier and sampled in the quick tier, "
                     "depth 3 sampled) plus a fixed corpus, rendered to Scenic text by a printer that follows scenic.gram's "
                     "temporal precedence levels in three parenthesisation styles; x ALL truth tables of the atoms up to the "
                     "length bound; each (formula, site, table) is one real simulation. A case is non-trivial when the formula "
                     "has a temporal operator and the window has >= 2 steps; distinct by hash of (formula, site, style, table)")
    common.ensure_parser()
    if not c.proofs():
        c.finish()
    exe = common.build_ocaml(PID)
    import time
    T = {"proofs": round(time.time() - c.t0, 1)}
    quick = c.tier == "quick"
    rng = c.rng
    maxlen = 4
    tables = {2: all_tables(2, maxlen), 3: all_tables(3, 3)}

    # ---------------- plan: list of (formula, natoms, site, style, tables)
    plan = []
    if c.replay:
        body = json.load(open(c.replay))
        cs = body["case"]
        plan.append((F.parse_tokens(cs["formula"].split()), cs["natoms"], cs["site"], cs.get("style", "min"),
                     [cs["window"]], cs.get("text")))
    else:
        for toks, na in CORPUS:
            f = F.parse_tokens(toks.split())
            for i, site in enumerate(SITE_ORDER):
                plan.append((f, na, site, STYLES[i % 3], tables[na], None))
        d1 = F.all_formulas(1, 2)
        for j, f in enumerate(d1):
            for i, site in enumerate(SITE_ORDER):
                plan.append((f, 2, site, STYLES[(i + j) % 3], tables[2], None))
        d2 = [f for f in F.all_formulas(2, 2) if F.depth(f) == 2]
        if quick:
            d2 = rng.sample(d2, 180)
        for j, f in enumerate(d2):
            plan.append((f, 2, SITE_ORDER[j % 5], STYLES[(j // 5) % 3], tables[2], None))
        nd3 = 50 if quick else 1000
        seen3 = set()
        while len(seen3) < nd3:
            f = F.random_formula(rng, 3, 2)
            if F.depth(f) == 3 and F.is_temporal(f):
                seen3.add(f)
        for j, f in enumerate(sorted(seen3)):
            plan.append((f, 2, SITE_ORDER[j % 5], STYLES[(j // 5) % 3], tables[2], None))
        if not quick:
            t5 = [t for t in all_tables(2, 5) if len(t) == 5]
            for j, f in enumerate(d2[::20]):
                plan.append((f, 2, SITE_ORDER[j % 5], STYLES[j % 3], t5, None))

    # ---------------- processed in rounds of bounded size (memory), each: implementation || model, then compare
    nrec = {}
    state = dict(inexpressible=0, programs=0, model_s=0.0)

    def viol(kind, what, replay, **kw):
        if nrec.get(kind, 0) >= 300:      # keep memory bounded on a badly broken tree
            c.hist("violations-not-stored:" + kind)
            return
        if c.violation(kind, what, replay, **kw):
            nrec[kind] = nrec.get(kind, 0) + 1

    rounds, cur, size = [], [], 0
    for idx, entry in enumerate(plan):
        cur.append((idx, entry))
        size += len(entry[4])
        if size >= 180000:
            rounds.append(cur)
            cur, size = [], 0
    if cur:
        rounds.append(cur)
    for rnd in rounds:
        process_round(c, rnd, exe, state, viol)
    c.cov["inexpressible_formulas_skipped"] = state["inexpressible"]
    c.cov["programs"] = state["programs"]
    T["model_driver_s"] = round(state["model_s"], 1)
    T["total"] = round(time.time() - c.t0, 1)
    c.cov["stage_seconds_cumulative"] = T
    if os.environ.get("C11_DUMP"):
        with open(os.environ["C11_DUMP"], "w") as fh:
            json.dump([dict(kind=k, formula=r.get("formula"), site=r.get("site"), text=r.get("text"), window=r.get("window"),
                            impl=r.get("impl"), model=r.get("model"), spec=r.get("spec_fltl"), shape=r.get("shape"))
                       for k, _, r, _ in c.violations], fh)
    c.assumptions += [
        "model = hand-written Gallina (coq/C11/LTL.v) of rv_ltl's monitor.py/b4.py and Scenic's per-step glue, tied to the code by this differential run",
        "extraction via ExtrOcamlBasic only; OCaml compiler; ocaml/c11/driver.ml",
        "the formula printer (harness/c11_formulas.py) is the reading of scenic.gram's precedence levels; a wrong reading shows up as a correspondence violation, not silently",
        "early-rejection oracle searches continuations of at most 3 further steps (bounded); the unbounded claim is the Coq theorem C11_run_early_reject_sound",
    ]
    c.finish()


def process_round(c, rnd, exe, state, viol):
    import time
    jobs, meta, lines = [], [], []
    for idx, (f, na, site, style, tabs, text) in rnd:
        toks = " ".join(F.tokens(f))
        if text is None:
            try:
                text = F.render(f, style, random.Random(f"{c.seed}-{idx}"))
            except F.Inexpressible:
                state["inexpressible"] += 1
                c.hist("inexpressible-in-grammar")
                continue
        runs = []
        for w in tabs:
            h = int(common.sha(json.dumps([toks, site, w]))[:8], 16)
            runs.append(make_run(site, w, na, h))
            lines.append(f"{1 if SCENE_CHECK[site] else 0} {na} 3 {','.join(''.join(map(str, r)) for r in w)} {toks}")
        # most programs create no object (simulations are ~6x faster); the corpus formulas run with an ego
        ego = "ego = new Object" if (idx < len(CORPUS) * len(SITE_ORDER) or c.replay) else "pass"
        jobs.append(dict(id=len(jobs), src=SITES[site].replace("{F}", text).replace("{EGO}", ego), runs=runs))
        meta.append(dict(f=f, toks=toks, natoms=na, site=site, style=style, text=text, windows=tabs))

    # balance jobs over workers by number of runs
    order = sorted(range(len(jobs)), key=lambda i: -len(jobs[i]["runs"]))
    nchunks = NW   # one interpreter start-up (~3 s of imports) per worker
    chunks = [[] for _ in range(nchunks)]
    for n, i in enumerate(order):
        chunks[n % nchunks].append(jobs[i])
    chunks = [ch for ch in chunks if ch]
    results = {}
    with cf.ThreadPoolExecutor(NW) as ex:
        futs = [ex.submit(common.run_impl, "impl_c11.py", dict(jobs=ch), 7000) for ch in chunks]
        tm = time.time()
        model = common.run_driver(exe, lines) if lines else []
        state["model_s"] += time.time() - tm
        for fu in futs:
            for r in fu.result()["results"]:
                results[r["id"]] = r

    # ---------------- compare
    li = 0
    for jid, m in enumerate(meta):
        r = results[jid]
        f, site = m["f"], m["site"]
        sh = F.shape(f)
        nlines = len(m["windows"])
        mlines = model[li:li + nlines]
        li += nlines
        base = dict(formula=m["toks"], text=m["text"], natoms=m["natoms"], site=site, style=m["style"], shape=sh)
        if r["compile"] != "ok":
            c.count((m["toks"], site, m["style"]))
            c.hist("compile-error")
            viol("parse", "a formula written following scenic.gram's temporal rules does not compile",
                        dict(base, window=m["windows"][0], error=r["compile"], program=jobs[jid]["src"]))
            continue
        c.hist("site:" + site)
        c.hist("depth:%d" % sh["depth"])
        c.hist("style:" + m["style"])
        for op in sh["ops"]:
            c.hist("op:" + op)
        always_now = f[0] == "G" and not F.is_temporal(f[1])
        for w, run, impl, ml in zip(m["windows"], jobs[jid]["runs"], r["outcomes"], mlines):
            L = len(w)
            mo, spec, frag, verdicts, ext = ml.split()
            off = run["offset"]
            if mo.startswith("R"):
                mo_abs = "R%d" % (int(mo[1:]) + off)
            else:
                mo_abs = mo
            c.count((m["toks"], site, m["style"], w), nontrivial=sh["temporal"] and L >= 2)
            c.cov["traces_validated_against_impl"] += 1
            c.hist("len:%d" % L)
            c.hist("outcome:" + (impl[0] if impl[0] in "AGR" else impl.split(":")[1]))
            case = dict(base, window=w, run=run, impl=impl, model=mo_abs, model_verdicts=verdicts,
                        spec_fltl=(spec == "1"), program=jobs[jid]["src"])
            if frag != ("0" if sh["until_below_temporal"] else "1") + ("0" if (sh["until_below_temporal"] or sh["until_temporal_rhs"]) else "1"):
                viol("harness", "fragment classification differs between harness and Coq model", case, no_input=True)
            # (a) correspondence model <-> implementation
            if impl != mo_abs:
                c.cov["disagreements_checked"] += 1
                kind = "correspondence-compose" if site in ("compose", "subcompose") else "correspondence"
                viol(kind, "the implementation's accept/reject outcome differs from the model of rv_ltl + Scenic's glue", case)
                if not impl[0] in "AGR":
                    continue
            # (b) property oracle on what the implementation did
            accepted = impl == "A"
            if impl[0] == "R":
                t_rel = int(impl[1:]) - off
                before_end = t_rel + 1 < L
            else:
                t_rel = 0
                before_end = impl == "G" and L > 1
            if accepted != (spec == "1"):
                viol("spec-accept", "accepted a trace violating the formula" if accepted else
                            "rejected a trace satisfying the formula (finite-trace LTL, strong next/until)",
                            dict(case, rejected_before_end=before_end))
            if not accepted and before_end and impl == mo_abs and ext.startswith("sat:"):
                viol("spec-early-reject", "rejected before the end of the scenario although a continuation satisfies the formula",
                            dict(case, satisfying_continuation=ext[4:]))
            if always_now:
                t0 = first_false_now(f, w)
                want = "A" if t0 is None else ("G" if (t0 == 0 and SCENE_CHECK[site]) else "R%d" % (t0 + off))
                if impl != want:
                    viol("spec-always-immediate", "`always` of a non-temporal condition did not reject exactly when the condition became false",
                                dict(case, expected=want))
        c.sample(dict(formula=m["toks"], text=m["text"], site=site, window=m["windows"][-1], impl=r["outcomes"][-1], model=mlines[-1]), limit=8)
    state["programs"] += len(jobs)


if __name__ == "__main__":
    main()
