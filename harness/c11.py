"""C11 — temporal requirements accept exactly the traces satisfying the formula.
Proof layer: coq/Properties/C11.v (faithful model of rv_ltl's monitor + Scenic's glue vs finite-trace LTL).
Correspondence: every generated formula x every truth table up to a length bound is run as a REAL
simulation (DummySimulator, atoms reading a scripted table) at five declaration sites and compared with
the extracted model (must agree everywhere) and with the specification (may differ only where the F5
matchers of known_findings apply)."""
import concurrent.futures as cf
import itertools
import json
import os
import random
import sys

sys.path.insert(0, os.path.dirname(os.path.abspath(__file__)))
import common
from common import Check
import c11_formulas as F

PID = "C11"
HDR = "from verif_c11_helpers import *\n"
SUB_LIMIT = ("        if SUBLIMIT() == 1:\n            terminate after SUBN() steps\n"
             "        elif SUBLIMIT() == 2:\n            terminate after SUBN() seconds\n")
SUB_TAIL = ("        for _ in range(WAITS()):\n            wait\n"
            "        if TERMSTMT():\n            terminate\n")
# the sub-scenario is invoked with a plain `do`, or stopped from outside by `do ... for/until`
MAIN_COMPOSE = ("scenario Main():\n    setup:\n        {EGO}\n        terminate when END()\n{LIMIT}    compose:\n"
                "        for _ in range(OFFSET()):\n            wait\n"
                "        if DOFORM() == 0:\n            do Sub()\n"
                "        elif DOFORM() == 1:\n            do Sub() for DOFOR() steps\n"
                "        elif DOFORM() == 2:\n            do Sub() for DOFOR() seconds\n"
                "        else:\n            do Sub() until UNTIL()\n"
                "        for _ in range(AFTER()):\n            wait\n")
SITES = {
    # requirement declared at top level of the program (compile time; also checked on the sampled scene)
    "top": HDR + "{EGO}\nrequire {F}\nterminate when END()\n{LIMIT}",
    # ... in the setup block of the top-level modular scenario (compile time)
    "setup": HDR + ("scenario Main():\n    setup:\n        {EGO}\n        require {F}\n        terminate when END()\n{LIMIT}"
                    "    compose:\n" + SUB_TAIL),
    # ... in the setup block of a sub-scenario invoked at step OFFSET (run time, before the scenario starts)
    "subsetup": HDR + "scenario Sub():\n    setup:\n        require {F}\n" + SUB_LIMIT + "    compose:\n" + SUB_TAIL + MAIN_COMPOSE,
    # ... dynamically inside the compose block of the top-level scenario, at step OFFSET
    "compose": HDR + ("scenario Main():\n    setup:\n        {EGO}\n        terminate when END()\n{LIMIT}    compose:\n"
                      "        for _ in range(OFFSET()):\n            wait\n        require {F}\n" + SUB_TAIL),
    # ... dynamically inside the compose block of a sub-scenario
    "subcompose": HDR + "scenario Sub():\n    setup:\n        pass\n" + SUB_LIMIT + "    compose:\n        require {F}\n" + SUB_TAIL + MAIN_COMPOSE,
}
SITE_ORDER = ["top", "setup", "subsetup", "compose", "subcompose"]
SCENE_CHECK = {"top": True, "setup": True, "subsetup": False, "compose": False, "subcompose": False}
STYLES = ["min", "full", "rand"]
NW = min(8, common.NCPU)

# Ways in which the scenario owning the requirement ends (the requirement's window runs from the step the
# statement takes effect to the last step that scenario executes):
#   finish    its compose block runs off its end            termstmt  ... executes `terminate`
#   term      its own `terminate when` becomes true         max       still running when simulate() hits maxSteps
#   after     its OWN `terminate after K steps|seconds` (top-level scenario: a literal in the program, variant B)
#   sublimit  the sub-scenario's own `terminate after N steps|seconds` (evaluated when it is invoked)
#   dofor / dountil   the parent's `do Sub() for N steps|seconds` / `until c` stops it from outside
#   pterm / pafter    the parent ends (its `terminate when` / its `terminate after`) while the sub-scenario runs
MODES = {
    "top": ["term", "max", "after"],
    "setup": ["term", "max", "after", "finish", "termstmt"],
    "compose": ["finish", "max", "termstmt", "term", "after"],
    "subsetup": ["finish", "max", "termstmt", "sublimit", "sublimit-s", "dofor", "dofor-s", "dountil", "pterm", "pafter"],
    "subcompose": ["finish", "max", "termstmt", "sublimit", "sublimit-s", "dofor", "dofor-s", "dountil", "pterm", "pafter"],
}
LATE_STOP = {"dofor", "dofor-s", "dountil", "pafter"}   # the scenario is stopped in the step after its last own step
VARIANT_B = {"after", "pafter"}     # need the literal `terminate after` in the top-level scenario


def limit_literal(site, lmax, seconds):
    """(source line, K in steps, timestep) of the top-level scenario's time limit in variant B"""
    k = lmax - 1 if site in ("top", "setup") else lmax
    ind = "" if site == "top" else "        "
    if seconds:
        return f"{ind}terminate after {k * 0.5} seconds\n", k, 0.5
    return f"{ind}terminate after {k} steps\n", k, 1


def applicable(site, mode, L, lmax):
    if mode == "max":
        return L >= 2
    if mode == "after":
        return L == lmax if site in ("top", "setup") else L >= 2
    if mode in ("sublimit", "sublimit-s"):
        return L >= 2 or site == "subsetup"
    return True


def make_run(site, window, natoms, h, lmax, mode=None, allow_b=True, b_seconds=False):
    """embed the requirement's window into a whole scripted simulation for this site; h: case hash (int).
    Returns the run (with run['variant'] in 'A'|'B')."""
    L = len(window)
    frng = random.Random(h)
    filler = lambda n: [[frng.randint(0, 1) for _ in range(natoms)] for _ in range(n)]
    if mode is None:
        ms = [m for m in MODES[site] if applicable(site, m, L, lmax) and (allow_b or m not in VARIANT_B)]
        mode = ms[frng.randrange(len(ms))]
    run = dict(mode=mode, variant="B" if mode in VARIANT_B else "A", offset=0, waits=L + 4, after=0, end="none", timestep=1)
    top_level = site in ("top", "setup", "compose")
    if top_level:
        off = 0 if site != "compose" else frng.randrange(3)
        if mode == "after":
            _, k, ts = limit_literal(site, lmax, b_seconds)
            off = 0 if site != "compose" else k - L + 1
            run.update(timestep=ts)
        elif mode in ("finish", "termstmt"):
            run.update(waits=L - 1, termstmt=(mode == "termstmt"))
        elif mode in ("term", "max"):
            run.update(end=mode)
        run.update(offset=off, table=filler(off) + window)
        return run
    off = frng.randrange(3)
    after = frng.randrange(2)
    tail = after
    if mode in ("finish", "termstmt"):
        run.update(waits=L - 1, termstmt=(mode == "termstmt"))
    elif mode == "max":
        after = tail = 0
        run.update(end="max")
    elif mode == "sublimit":
        run.update(sublimit=1, subn=L - 1)
    elif mode == "sublimit-s":
        ts = frng.choice([0.5, 0.25])
        run.update(sublimit=2, subn=(L - 1) * ts, timestep=ts)
    elif mode == "dofor":
        run.update(doform=1, dofor=L)
        tail = after + 1
    elif mode == "dofor-s":
        ts = frng.choice([0.5, 0.25])
        run.update(doform=2, dofor=L * ts, timestep=ts)
        tail = after + 1
    elif mode == "dountil":
        run.update(doform=3, until=off + L)
        tail = after + 1
    elif mode == "pterm":
        after = tail = 0
        run.update(end="term")
    elif mode == "pafter":
        _, k, ts = limit_literal(site, lmax, b_seconds)
        off, after, tail = k - L, 0, 1
        run.update(timestep=ts)
    run.update(offset=off, after=after, table=filler(off) + window + filler(tail))
    return run


END_MATRIX = ["G a0", "F a0", "X a0", "! X a0", "X X a0", "U a0 a1", "G F a0"]
CORPUS = [  # (formula tokens, natoms) always run on every site: F5 witnesses and end-of-trace distinctions
    ("G U a0 a1", 2), ("U a0 | F a1 a2", 3), ("U a0 a1", 2), ("G a0", 2), ("F a0", 2), ("X a0", 2), ("! X a0", 2),
    ("X X a0", 2), ("G > a0 X a1", 2), ("G F a0", 2), ("F G a0", 2), ("U G a0 a1", 2), ("U a0 G a1", 2),
    ("U a0 U a1 a0", 2), ("U U a0 a1 a0", 2), ("F U a0 a1", 2), ("X U a0 a1", 2), ("> F a0 G a1", 2) ,
    ("| & a0 G a1 F ! a0", 2), ("! U a0 a1", 2), ("& U a0 a1 G ! a1", 2), ("a0", 2), ("! a0", 2), ("> a0 a1", 2),
    # n-ary and/or (the compiler builds one And/Or node with three operands), prefix operators as last operands
    ("& & a0 a1 X a0", 2), ("| | a0 X a1 F a0", 2), ("& & G a0 a1 F a1", 2), ("| | ! a0 a1 G a1", 2),
]


def read_group_lookahead():
    """the printer's GROUP_FOLLOW is regenerated from the lookahead set of scenic_temporal_group in the tree's scenic.gram
    (`(always a) implies b` is only expressible when that set contains 'implies': finding F25 / its repair)"""
    import re
    try:
        text = open(os.path.join(common.REPO, "src", "scenic", "syntax", "scenic.gram")).read()
        m = re.search(r"^scenic_temporal_group:.*&\(([^)]*(?:'\)')?[^)]*)\)\s*\{", text, flags=re.M)
        # hard keywords are written '...' and soft keywords "..." in the grammar
        toks = re.findall(r"'([^']+)'|\"([^\"]+)\"|(NEWLINE)", m.group(1))
        names = {a or b or c_ for a, b, c_ in toks}
    except Exception:
        return None
    out = {t for t in names if t in ("until", "or", "and", "implies", ")")}
    if "NEWLINE" in names:
        out.add("end")
    return out


def all_tables(natoms, maxlen):
    out = []
    for L in range(1, maxlen + 1):
        for bits in itertools.product([0, 1], repeat=natoms * L):
            out.append([list(bits[natoms * i:natoms * (i + 1)]) for i in range(L)])
    return out


def first_false_now(f, window):
    """for f = always p with p non-temporal: first step at which p is false (else None)"""
    def ev(g, row):
        k = g[0]
        if k == "a":
            return bool(row[g[1]])
        if k == "!":
            return not ev(g[1], row)
        if k == "&":
            return ev(g[1], row) and ev(g[2], row)
        if k == "|":
            return ev(g[1], row) or ev(g[2], row)
        if k == ">":
            return (not ev(g[1], row)) or ev(g[2], row)
        raise ValueError
    for t, row in enumerate(window):
        if not ev(f[1], row):
            return t
    return None


def main():
    c = Check(PID, "proof")
    c.cov["rule"] = ("formulas enumerated exhaustively by depth over {not, and, or, implies, next, eventually, always, until} "
                     "(all of depth <= 1 at every site, depth 2 exhaustively in the thorough tier and sampled in the quick tier, "
                     "depth 3 sampled) plus a fixed corpus, rendered to Scenic text by a printer that follows scenic.gram's "
                     "temporal precedence levels in three parenthesisation styles; x ALL truth tables of the atoms up to the "
                     "length bound; each (formula, site, table) is one real simulation. A case is non-trivial when the formula "
                     "has a temporal operator and the window has >= 2 steps; distinct by hash of (formula, site, style, table)")
    common.ensure_parser()
    look = read_group_lookahead()
    if look and {"until", "or", "and", ")", "end"} <= look:
        F.GROUP_FOLLOW = look
    c.cov["temporal_group_lookahead"] = sorted(F.GROUP_FOLLOW)
    if "implies" not in F.GROUP_FOLLOW:
        # fixed witness of finding F25 (documented connective, unparsable parenthesisation)
        c.violation("grammar-group-implies", "`require (always a) implies b` cannot be written: the lookahead of scenic_temporal_group lacks 'implies' "
                    "(formula trees with a temporal group directly before `implies` are skipped by the enumeration)",
                    dict(text="require (always V(0)) implies V(1)", lookahead=sorted(F.GROUP_FOLLOW), group_before_implies=True))
    if not c.proofs():
        c.finish()
    exe = common.build_ocaml(PID)
    import time
    T = {"proofs": round(time.time() - c.t0, 1)}
    quick = c.tier == "quick"
    rng = c.rng
    maxlen = 4
    tables = {2: all_tables(2, maxlen), 3: all_tables(3, 3)}

    # ---------------- plan: list of (formula, natoms, site, style, tables)
    plan = []
    if c.replay:
        body = json.load(open(c.replay))
        cs = body["case"]
        plan.append((F.parse_tokens(cs["formula"].split()), cs["natoms"], cs["site"], cs.get("style", "min"),
                     [cs["window"]], cs.get("text"), dict(replay_run=cs.get("run"), replay_program=cs.get("program"))))
    else:
        for toks, na in CORPUS:
            f = F.parse_tokens(toks.split())
            for i, site in enumerate(SITE_ORDER):
                plan.append((f, na, site, STYLES[i % 3], tables[na], None, {}))
        d1 = F.all_formulas(1, 2)
        for j, f in enumerate(d1):
            for i, site in enumerate(SITE_ORDER):
                plan.append((f, 2, site, STYLES[(i + j) % 3], tables[2], None, {}))
        # every way of ending the scenario x the operators whose verdict depends on the last step x ALL tables
        # up to length 3 (4 in the thorough tier), at every site
        t3 = [t for t in tables[2] if len(t) <= (3 if quick else 4)]
        for j, toks in enumerate(END_MATRIX):
            f = F.parse_tokens(toks.split())
            for i, site in enumerate(SITE_ORDER):
                plan.append((f, 2, site, STYLES[(i + j) % 3], t3, None, dict(allmodes=True)))
        d2 = [f for f in F.all_formulas(2, 2) if F.depth(f) == 2]
        if quick:
            d2 = rng.sample(d2, 150)
        for j, f in enumerate(d2):
            plan.append((f, 2, SITE_ORDER[j % 5], STYLES[(j // 5) % 3], tables[2], None, dict(allow_b=(j % 2 == 0))))
        nd3 = 40 if quick else 1000
        seen3 = set()
        while len(seen3) < nd3:
            f = F.random_formula(rng, 3, 2)
            if F.depth(f) == 3 and F.is_temporal(f):
                seen3.add(f)
        for j, f in enumerate(sorted(seen3)):
            plan.append((f, 2, SITE_ORDER[j % 5], STYLES[(j // 5) % 3], tables[2], None, dict(allow_b=(j % 2 == 0))))
        if not quick:
            t5 = [t for t in all_tables(2, 5) if len(t) == 5]
            for j, f in enumerate(d2[::20]):
                plan.append((f, 2, SITE_ORDER[j % 5], STYLES[j % 3], t5, None, {}))

    if os.environ.get("VERIF_C11_DEV") == "implies":     # development knob: temporal groups before `implies`
        fs = [f for f in F.all_formulas(2, 2) if f[0] == ">" and f[1][0] in "FGXU"][:14]
        plan = [(f, 2, SITE_ORDER[j % 5], STYLES[j % 3], tables[2], None, {}) for j, f in enumerate(fs)]
    if os.environ.get("VERIF_C11_DEV") == "matrix":      # development knob: only the end-of-scenario matrix
        plan = [e for e in plan if e[6].get("allmodes")]
    # ---------------- processed in rounds of bounded size (memory), each: implementation || model, then compare
    nrec = {}
    state = dict(inexpressible=0, programs=0, model_s=0.0)

    def viol(kind, what, replay, **kw):
        if nrec.get(kind, 0) >= 300:      # keep memory bounded on a badly broken tree
            c.hist("violations-not-stored:" + kind)
            return
        if c.violation(kind, what, replay, **kw):
            nrec[kind] = nrec.get(kind, 0) + 1

    rounds, cur, size = [], [], 0
    for idx, entry in enumerate(plan):
        cur.append((idx, entry))
        size += len(entry[4]) * (6 if entry[6].get('allmodes') else 1)
        if size >= 180000:
            rounds.append(cur)
            cur, size = [], 0
    if cur:
        rounds.append(cur)
    for rnd in rounds:
        process_round(c, rnd, exe, state, viol)
    c.cov["inexpressible_formulas_skipped"] = state["inexpressible"]
    c.cov["programs"] = state["programs"]
    T["model_driver_s"] = round(state["model_s"], 1)
    T["total"] = round(time.time() - c.t0, 1)
    c.cov["stage_seconds_cumulative"] = T
    if os.environ.get("C11_DUMP"):
        with open(os.environ["C11_DUMP"], "w") as fh:
            json.dump([dict(kind=k, formula=r.get("formula"), site=r.get("site"), text=r.get("text"), window=r.get("window"),
                            impl=r.get("impl"), model=r.get("model"), spec=r.get("spec_fltl"), shape=r.get("shape"), mode=(r.get("run") or {}).get("mode"))
                       for k, _, r, _ in c.violations], fh)
    c.assumptions += [
        "model = hand-written Gallina (coq/C11/LTL.v) of rv_ltl's monitor.py/b4.py and Scenic's per-step glue, tied to the code by this differential run",
        "extraction via ExtrOcamlBasic only; OCaml compiler; ocaml/c11/driver.ml",
        "the formula printer (harness/c11_formulas.py) is the reading of scenic.gram's precedence levels; a wrong reading shows up as a correspondence violation, not silently",
        "early-rejection oracle searches continuations of at most 3 further steps (bounded); the unbounded claim is the Coq theorem C11_run_early_reject_sound",
    ]
    c.finish()


def process_round(c, rnd, exe, state, viol):
    import time
    jobs, meta, lines = [], [], []
    for idx, (f, na, site, style, tabs, text, opts) in rnd:
        toks = " ".join(F.tokens(f))
        if text is None:
            try:
                text = F.render(f, style, random.Random(f"{c.seed}-{idx}"))
            except F.Inexpressible:
                state["inexpressible"] += 1
                c.hist("inexpressible-in-grammar")
                continue
        lmax = max(len(w) for w in tabs)
        ehash = int(common.sha(json.dumps([toks, site]))[:8], 16)
        b_seconds = ehash % 3 == 0
        cases = []          # (window, run)
        for w in tabs:
            h = int(common.sha(json.dumps([toks, site, w]))[:8], 16)
            if opts.get("replay_run"):
                cases.append((w, opts["replay_run"]))
            elif opts.get("allmodes"):
                for mode in MODES[site]:
                    if applicable(site, mode, len(w), lmax):
                        cases.append((w, make_run(site, w, na, h, lmax, mode=mode, b_seconds=b_seconds)))
            else:
                cases.append((w, make_run(site, w, na, h, lmax, allow_b=opts.get("allow_b", True), b_seconds=b_seconds)))
        # most programs create no object (simulations are ~6x faster); the corpus formulas run with an ego
        ego = "ego = new Object" if (idx < len(CORPUS) * len(SITE_ORDER) or c.replay) else "pass"
        m = dict(f=f, toks=toks, natoms=na, site=site, style=style, text=text, cases=[], first_line=len(lines))
        for variant in ("A", "B"):
            sel = [cs for cs in cases if cs[1].get("variant", "A") == variant]
            if not sel:
                continue
            limit = limit_literal(site, lmax, b_seconds)[0] if variant == "B" else ""
            src = SITES[site].replace("{F}", text).replace("{EGO}", ego).replace("{LIMIT}", limit)
            if opts.get("replay_program"):
                src = opts["replay_program"]
            jobs.append(dict(id=len(jobs), src=src, runs=[r for _, r in sel]))
            for w, r in sel:
                m["cases"].append((w, r, len(jobs) - 1, src))
                lines.append(f"{1 if SCENE_CHECK[site] else 0} {na} 3 {','.join(''.join(map(str, r)) for r in w)} {toks}")
        meta.append(m)

    # balance jobs over workers by number of runs
    order = sorted(range(len(jobs)), key=lambda i: -len(jobs[i]["runs"]))
    nchunks = NW   # one interpreter start-up (~3 s of imports) per worker
    chunks = [[] for _ in range(nchunks)]
    for n, i in enumerate(order):
        chunks[n % nchunks].append(jobs[i])
    chunks = [ch for ch in chunks if ch]
    results = {}
    with cf.ThreadPoolExecutor(NW) as ex:
        futs = [ex.submit(common.run_impl, "impl_c11.py", dict(jobs=ch), 7000) for ch in chunks]
        tm = time.time()
        model = common.run_driver(exe, lines) if lines else []
        state["model_s"] += time.time() - tm
        for fu in futs:
            for r in fu.result()["results"]:
                results[r["id"]] = r

    # ---------------- compare
    for m in meta:
        f, site = m["f"], m["site"]
        sh = F.shape(f)
        base = dict(formula=m["toks"], text=m["text"], natoms=m["natoms"], site=site, style=m["style"], shape=sh)
        bad_jobs = sorted({jid for _, _, jid, _ in m["cases"] if results[jid]["compile"] != "ok"})
        for jid in bad_jobs:
            c.count((m["toks"], site, m["style"], jid))
            c.hist("compile-error")
            w0 = next(w for w, _, j, _ in m["cases"] if j == jid)
            viol("parse", "a formula written following scenic.gram's temporal rules does not compile",
                 dict(base, window=w0, error=results[jid]["compile"], program=jobs[jid]["src"]))
        c.hist("site:" + site)
        c.hist("depth:%d" % sh["depth"])
        c.hist("style:" + m["style"])
        for op in sh["ops"]:
            c.hist("op:" + op)
        always_now = f[0] == "G" and not F.is_temporal(f[1])
        pos = {}
        last = None
        for n, (w, run, jid, src) in enumerate(m["cases"]):
            ml = model[m["first_line"] + n]
            if jid in bad_jobs:
                continue
            k = pos.get(jid, 0)
            pos[jid] = k + 1
            impl = results[jid]["outcomes"][k]
            L = len(w)
            mo, spec, frag, verdicts, ext = ml.split()
            off = run["offset"]
            if mo.startswith("R"):
                t_abs = int(mo[1:]) + off
                # a scenario stopped from outside one step after its last own step is rejected (falsy last verdict) there
                if run["mode"] in LATE_STOP and int(mo[1:]) == L - 1 and verdicts[-1] != "F":
                    t_abs += 1
                mo_abs = "R%d" % t_abs
            else:
                mo_abs = mo
            c.count((m["toks"], site, m["style"], w, run["mode"]), nontrivial=sh["temporal"] and L >= 2)
            c.cov["traces_validated_against_impl"] += 1
            c.hist("len:%d" % L)
            c.hist("end:" + run["mode"])
            c.hist("outcome:" + (impl[0] if impl[0] in "AGR" else impl.split(":")[1]))
            case = dict(base, window=w, run=run, impl=impl, model=mo_abs, model_verdicts=verdicts,
                        spec_fltl=(spec == "1"), program=src)
            last = (w, impl, ml)
            if frag != ("0" if sh["until_below_temporal"] else "1") + ("0" if (sh["until_below_temporal"] or sh["until_temporal_rhs"]) else "1"):
                viol("harness", "fragment classification differs between harness and Coq model", case, no_input=True)
            # (a) correspondence model <-> implementation
            if impl != mo_abs:
                c.cov["disagreements_checked"] += 1
                kind = "correspondence-compose" if site in ("compose", "subcompose") else "correspondence"
                viol(kind, "the implementation's accept/reject outcome differs from the model of rv_ltl + Scenic's glue "
                     f"(scenario ended by: {run['mode']})", case)
                if not impl[0] in "AGR":
                    continue
            # (b) property oracle on what the implementation did
            accepted = impl == "A"
            if impl[0] == "R":
                t_rel = int(impl[1:]) - off
                before_end = t_rel + 1 < L
            else:
                t_rel = 0
                before_end = impl == "G" and L > 1
            if accepted != (spec == "1"):
                viol("spec-accept", ("accepted a trace violating the formula" if accepted else
                     "rejected a trace satisfying the formula (finite-trace LTL, strong next/until)") + f" (scenario ended by: {run['mode']})",
                     dict(case, rejected_before_end=before_end))
            if not accepted and before_end and impl == mo_abs and ext.startswith("sat:"):
                viol("spec-early-reject", "rejected before the end of the scenario although a continuation satisfies the formula",
                     dict(case, satisfying_continuation=ext[4:]))
            if always_now:
                t0 = first_false_now(f, w)
                want = "A" if t0 is None else ("G" if (t0 == 0 and SCENE_CHECK[site]) else "R%d" % (t0 + off))
                if impl != want:
                    viol("spec-always-immediate", "`always` of a non-temporal condition did not reject exactly when the condition became false",
                         dict(case, expected=want))
        if last:
            c.sample(dict(formula=m["toks"], text=m["text"], site=site, window=last[0], impl=last[1], model=last[2]), limit=8)
    state["programs"] += len(jobs)


if __name__ == "__main__":
    main()
