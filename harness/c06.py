"""C06 — specifier resolution follows the documented priorities, whatever the order.
Proof layer: coq/Properties/C06.v.  (G) the built-in specifier table is regenerated from the running
code and from docs/reference/specifiers.rst and compared in the kernel.  (H) subsets x permutations of
specifier instances (real syntax) on Object and user classes: implementation vs extracted model, plus the
order-invariance / documented-priority / topological-order oracles on the implementation alone."""
import concurrent.futures as cf
import itertools
import json
import os
import re
import sys

sys.path.insert(0, os.path.dirname(os.path.abspath(__file__)))
import common
from common import Check
import c06_catalog as cat
import c06_docs as docs

PID = "C06"
INST = {i["id"]: i for i in cat.INSTANCES}
CORE = [i["id"] for i in cat.INSTANCES if i["core"]]
USER_INSTS = ["with_foo", "with_bar", "with_fin", "with_baz", "with_width", "with_pos", "at_vec", "on_box", "on_ob",
              "facing_toward", "with_yaw", "left_of_vec", "visible_pt", "in_regO"]
USER_CLASSES = ["Base", "Derived", "Deeper", "Pinned", "Broken"]
# round 3: tracer classes (falsy defaults, defaults reading built-in properties, additive over plain, default position)
TR_CLASSES = ["Tr", "TrMid", "TrLeaf"]
TR_INSTS = ["with_p0", "with_pn", "with_pt", "with_ps", "with_pf", "with_yaw0", "facing_l0", "at_over", "with_pos_over", "on_ob",
            "with_width", "left_of_vec", "facing_toward", "with_pori", "on_regO", "in_regO", "at_vec"]
TR_PAIRS = [("at_over", "on_ob"), ("with_pos_over", "on_ob"), ("with_pori", "on_regO"), ("in_regO", "on_ob"), ("with_width", "left_of_vec"),
            ("at_vec", "facing_toward"), ("with_yaw0", "facing_l0"), ("with_p0", "with_pt"), ("in_regO", "on_regO"), ("with_pn", "with_pf")]
TR_TRIPLES = [("at_over", "on_ob", "with_pori"), ("in_regO", "on_regO", "with_pori"), ("at_over", "on_ob", "facing_toward"),
              ("with_width", "left_of_vec", "facing_toward"), ("with_p0", "with_width", "with_pt"), ("in_regO", "on_ob", "with_yaw0")]


class Intern:
    def __init__(self):
        self.d = {"PropertyDefault": 0}
        self.props = {}

    def name(self, s):
        return self.d.setdefault(s, len(self.d))

    def prop(self, s):
        return self.props.setdefault(s, len(self.props) + 1)


def spec_tokens(it, row):
    t = [str(it.name(row["name"])), str(len(row["prios"]))]
    for p, k in row["prios"]:
        t += [str(it.prop(p)), str(k)]
    t += [str(len(row["deps"]))] + [str(it.prop(d)) for d in row["deps"]]
    t += ["1" if row["mod"] else "0", str(len(row["modifiable"]))] + [str(it.prop(d)) for d in row["modifiable"]]
    return t


def key_of(it, row):
    return f"{it.name(row['name'])}:{it.prop(row['prios'][0][0]) if row['prios'] else '-'}"


def coq_spec(it, row):
    pr = "; ".join(f"({it.prop(p)}%N, {k})" for p, k in row["prios"])
    ds = "; ".join(f"{it.prop(d)}%N" for d in row["deps"])
    mo = "; ".join(f"{it.prop(d)}%N" for d in row["modifiable"])
    return f"mkSpec {it.name(row['name'])}%N [{pr}] [{ds}] {'true' if row['mod'] else 'false'} [{mo}]"


# ------------------------------------------------------------------ case generation
def gen_groups(rng, quick):
    """-> list of (cls, subset tuple).  Every group is run in all its permutations, in 2D and 3D mode."""
    groups = []
    allids = [i["id"] for i in cat.INSTANCES]
    for a in allids:
        groups.append(("Object", (a,)))
    for a, b in itertools.combinations(CORE, 2):
        groups.append(("Object", (a, b)))
    triples = list(itertools.combinations(CORE, 3))
    if quick:
        # all triples with two optional-position specifiers or a modifier, and a seeded sample of the rest
        special = {"visible_pt", "notvisible_pt", "on_regO", "on_ob", "in_regO"}
        must = [t for t in triples if len(special & set(t)) >= 2]
        rest = [t for t in triples if len(special & set(t)) < 2]
        rng.shuffle(rest)
        triples = must + rest[:150]
    groups += [("Object", t) for t in triples]
    if not quick:
        quads = list(itertools.combinations(CORE, 4))
        rng.shuffle(quads)
        groups += [("Object", q) for q in quads[:1200]]
    for cls in USER_CLASSES:
        groups.append((cls, ()))
        for a in USER_INSTS:
            groups.append((cls, (a,)))
        pairs = list(itertools.combinations(USER_INSTS, 2))
        if quick:
            rng.shuffle(pairs)
            pairs = pairs[:30]
        groups += [(cls, p) for p in pairs]
        if not quick:
            tr = list(itertools.combinations(USER_INSTS, 3))
            rng.shuffle(tr)
            groups += [(cls, t) for t in tr[:120]]
    for cls in TR_CLASSES:
        groups.append((cls, ()))
        groups += [(cls, (a,)) for a in TR_INSTS]
        pairs = [p for p in itertools.combinations(TR_INSTS, 2) if p not in TR_PAIRS and p[::-1] not in TR_PAIRS]
        rng.shuffle(pairs)
        groups += [(cls, p) for p in TR_PAIRS + pairs[:30 if quick else 200]]
        tr = [t for t in itertools.combinations(TR_INSTS, 3)]
        rng.shuffle(tr)
        groups += [(cls, t) for t in TR_TRIPLES + tr[:10 if quick else 150]]
    return groups


def probe_groups(secs):
    """Round 3: what does a specifier do to a property P that `with P v` has already specified?  For every catalogue
    instance I and every documented property P of I that has a `with P` instance: the pair (with P, I) on Object.
    -> [(inst id, P, with id, mode2D)]"""
    out = []
    for inst in cat.INSTANCES:
        if inst["sec"] not in secs:
            continue
        dv = docs.expected_row(secs[inst["sec"]], inst)
        for p, _ in dv["prios"]:
            ws = cat.PROBE_WITH.get(p)
            for m2, w in enumerate(ws if isinstance(ws, tuple) else (ws, ws)):   # (instance used in 3D, in 2D)
                if w is not None and w != inst["id"] and (inst["id"], p, w, bool(m2)) not in out:
                    out.append((inst["id"], p, w, bool(m2)))
    return out


def doc_probe_outcome(dv, inst, p, winst):
    """The reference's answer for `with P v, I`: 0 P keeps the value of `with`, 1 I modifies it, 2 refused."""
    if inst["sec"] == winst["sec"] and inst.get("given") == winst.get("given"):
        return 2                      # the same specifier twice
    k = dict(map(tuple, dv["prios"]))[p]
    if dv["mod"]:
        return 1 if p in dv["modifiable"] else 0
    return 2 if k == 1 else 0


def match_pub(got, slots, exact):
    """got: tags logged; slots: the model's evaluation order restricted to logging specifiers/defaults, each slot the set of
    tags one specifier logs (an additive default evaluates the expressions of all classes defining it)."""
    i = 0
    for sl in slots:
        chunk = got[i:i + len(sl)]
        if len(chunk) < len(sl):
            return (not exact) and all(x in sl for x in chunk) and i + len(chunk) == len(got)
        if sorted(chunk) != sorted(sl):
            return False
        i += len(sl)
    return i == len(got)


# ------------------------------------------------------------------ the reference's procedure, order-free
def doc_resolve(rows, defaults, finals):
    """rows: {label: row}; defaults: [(prop, row)]; -> ('err', why) | ('ok', specifier{prop:label}, modifier{prop:label})
    | None when outside the documented domain (several modifying specifiers)."""
    names = [r["name"] for r in rows.values()]
    if len(set(names)) != len(names):
        return ("err", "same specifier twice")
    mods = [l for l, r in rows.items() if r["mod"]]
    if len(mods) > 1:
        return None
    byprop = {}
    for l, r in rows.items():
        for p, k in r["prios"]:
            if p in finals:
                return ("err", "final property specified")
            if not r["mod"]:
                byprop.setdefault(p, []).append((k, l))
    win = {}
    for p, lst in byprop.items():
        ks = [k for k, _ in lst]
        if len(set(ks)) != len(ks):
            return ("err", "same priority twice")
        win[p] = min(lst)
    modifier = {}
    for l in mods:
        for p, k in rows[l]["prios"]:
            if p in win and not k < win[p][0]:
                if p in rows[l]["modifiable"]:
                    modifier[p] = l
            else:
                win[p] = (k, l)
    spec = {p: l for p, (k, l) in win.items()}
    nodes = dict(rows)
    for p, r in defaults:
        if p not in spec:
            spec[p] = "default:" + p
            nodes["default:" + p] = r
    edges = {}
    for l, r in nodes.items():
        out = []
        for d in r["deps"]:
            s = modifier.get(d) or spec.get(d)
            if s is None:
                return ("err", "missing dependency")
            out.append(s)
        for p, m in modifier.items():
            if m == l:
                out.append(spec[p])
        edges[l] = out
    state = {}

    def dfs(v):
        if state.get(v) == 2:
            return True
        if state.get(v) == 1:
            return False
        state[v] = 1
        for w in edges[v]:
            if not dfs(w):
                return False
        state[v] = 2
        return True

    for v in nodes:
        if not dfs(v):
            return ("err", "cyclic dependencies")
    return ("ok", spec, modifier)


def prepare(job, obs, tables):
    """Harness-level model of OrientedPoint2D._prepareSpecifiers: in 2D mode `with heading X` becomes `facing X`.
    Returns the rows the resolution sees and renames the implementation's label of the substituted specifier."""
    rows = {}
    for k in job["insts"]:
        r = obs["table"][k]
        if job["mode2D"] and r["name"] == "With(heading)" and [p for p, _ in r["prios"]] == ["heading"]:
            f = tables[True].get("facing_h")
            if isinstance(f, list) and len(f) == 1:
                r = f[0]
                obs["order"] = [k if l == "?Facing" else l for l in obs["order"]]
                obs["assign"] = [[k if l == "?Facing" else l, p] for l, p in obs["assign"]]
        rows[k] = r
    return rows


def tie_shadowed(v):
    """v: [(priority, is_modifying)] given to one property: two normal specifiers tie at a level that is not the best one."""
    ks = [k for k, m in v if not m]
    return any(ks.count(k) > 1 and k != min(ks) for k in ks)


def impl_assignment(obs):
    spec, modifier = {}, {}
    for lab, prop in obs["assign"]:
        if prop in spec:
            modifier[prop] = lab
        else:
            spec[prop] = lab
    return spec, modifier


PROP_POOL = ["a", "bb", "c", "dd", "e", "ff"]


def gen_hierarchies(rng, n):
    """Random class hierarchies (single and multiple inheritance) with inherited / overridden / additive / dynamic / final
    defaults; dependencies only on lower-numbered properties that are defined in the class or an ancestor (acyclic, present).
    -> [[ [name, [bases], [[prop, deps, additive, dynamic, final]...]], ...]]  (only hierarchies Python's C3 accepts)"""
    out = []
    while len(out) < n:
        k = rng.randint(2, 5)
        hier, shadow, avail = [], {}, {}
        ok = True
        for i in range(k):
            name = "K%d" % i
            bases = [] if i == 0 or rng.random() < 0.15 else sorted(rng.sample(["K%d" % j for j in range(i)], min(i, rng.choice([1, 1, 1, 2]))))
            try:
                shadow[name] = type(name, tuple(shadow[b] for b in bases) or (object,), {})
            except TypeError:
                ok = False
                break
            inherited = set()
            for b in shadow[name].__mro__[1:]:
                inherited |= avail.get(b.__name__, set())
            props = []
            own = set()
            for idx, pname in enumerate(PROP_POOL):
                if rng.random() < (0.45 if pname not in inherited else 0.3):
                    cand = [q for q in PROP_POOL[:idx] if q in inherited or q in own]
                    deps = sorted(rng.sample(cand, rng.randint(0, min(2, len(cand))))) if rng.random() < 0.6 else []
                    r = rng.random()
                    additive, dynamic = r < 0.25, 0.25 <= r < 0.45
                    props.append([pname, deps, additive, dynamic, rng.random() < 0.15])
                    own.add(pname)
            avail[name] = own
            hier.append([name, bases, props])
        if ok:
            out.append(hier)
    # directed: an additive default that is the primary one for two different classes (mixin + sibling), additive chains
    # through a diamond, a final default met again along a second path
    A = lambda deps=(): [list(deps), True, False, False]
    P = lambda deps=(), fin=False: [list(deps), False, False, fin]
    out += [
        [["K0", [], [["c", *A()]]], ["K1", [], [["a", *P()], ["c", *A(["a"])]]], ["K2", ["K0", "K1"], []], ["K3", ["K0"], []]],
        [["K0", [], [["a", *P()], ["c", *A()]]], ["K1", ["K0"], [["bb", *P()], ["c", *A(["bb"])]]],
         ["K2", ["K0"], [["c", *A(["a"])]]], ["K3", ["K1", "K2"], []], ["K4", ["K2"], [["c", *A()]]]],
        [["K0", [], [["a", *P(fin=True)]]], ["K1", ["K0"], [["bb", *P(["a"])]]], ["K2", ["K0"], []], ["K3", ["K1", "K2"], []]],
    ]
    return out


def hier_mro(hier):
    shadow, out = {}, {}
    for name, bases, _ in hier:
        shadow[name] = type(name, tuple(shadow[b] for b in bases) or (object,), {})
        out[name] = [c.__name__ for c in shadow[name].__mro__ if c is not object]
    return out


def check_merge(c, it, exe, entries):
    """entries: [(ident dict, mro = [[class name, [[prop, {deps, additive, dynamic, final}]...]]...] most derived first,
    impl = class_info dict | {'error': exception class, 'msg': ...})]: extracted merge_defaults vs implementation."""
    lines = []
    for ident, mro, impl in entries:
        t = ["M", str(len(mro))]
        for _, props in mro:
            t.append(str(len(props)))
            for p, d in props:
                t += [str(it.prop(p)), str(len(d["deps"]))] + [str(it.prop(x)) for x in d["deps"]]
                t += ["1" if d["additive"] else "0", "1" if d["dynamic"] else "0", "1" if d["final"] else "0"]
        lines.append(" ".join(t))
    outs = common.run_driver(exe, lines) if lines else []
    for (ident, mro, impl), o in zip(entries, outs):
        c.count(("merge", json.dumps(ident, sort_keys=True), json.dumps(mro)), nontrivial=len(mro) > 1)
        c.hist("merge-defaults:" + ident.get("source", "class") + (":overrides-final" if o.startswith("OVR") else ""))
        c.cov["disagreements_checked"] += 1
        if "error" in impl:
            m = re.search(r'"([^"]+)" property cannot be overridden', impl.get("msg", ""))
            okm = o.startswith("OVR ") and impl["error"] == "InvalidScenarioError" and m is not None and it.prop(m.group(1)) == int(o.split()[1])
        else:
            impl_d = [(it.prop(p), sorted(it.prop(x) for x in r["deps"])) for p, r in impl["defaults"]]
            okm = o.startswith("OK D ")
            if okm:
                dpart, rest = o[5:].split(" F ")
                fpart, ypart = rest.split(" Y ")
                model_d = []
                for item in [x for x in dpart.split(",") if x]:
                    p, ds = item.split("=")
                    model_d.append((int(p), sorted(int(x) for x in ds.split("+") if x)))
                model_f = sorted(int(x) for x in fpart.split(",") if x)
                model_y = sorted(int(x) for x in ypart.strip().split(",") if x)
                okm = (model_d == impl_d and model_f == sorted(it.prop(x) for x in impl["finals"])
                       and model_y == sorted(it.prop(x) for x in impl["dynamics"])
                       and all(r["name"] == "PropertyDefault" and r["prios"] == [[p, -1]] and not r["mod"] for p, r in impl["defaults"]))
        alias = False
        if not okm and "error" not in impl and o.startswith("OK D "):
            # the one difference: additive defaults carrying extra dependencies (those of a definition outside this MRO)
            additive = {it.prop(p) for _, props in mro for p, d in props if d["additive"]}
            alias = (model_f == sorted(it.prop(x) for x in impl["finals"]) and model_y == sorted(it.prop(x) for x in impl["dynamics"])
                     and [p for p, _ in model_d] == [p for p, _ in impl_d]
                     and all(dm == di or (p in additive and set(dm) < set(di)) for (p, dm), (_, di) in zip(model_d, impl_d)))
        if not okm:
            ident = dict(ident, only_extra_dependencies_on_additive_defaults=alias)
            names = {v: k for k, v in it.props.items()}
            c.violation("merge-defaults", "class-level merging of defaults differs between model (merge_defaults) and implementation",
                        dict(ident, mro=[[n, [[p, d["deps"], "additive" * d["additive"], "dynamic" * d["dynamic"], "final" * d["final"]] for p, d in props]] for n, props in mro][:8],
                             model=o[:300], property_numbers={str(k): names[k] for k in sorted(names)[:40]},
                             impl_error=[impl.get("error"), impl.get("msg")] if "error" in impl else None,
                             impl_defaults=[[p, r["deps"]] for p, r in impl.get("defaults", [])][:40],
                             impl_finals=impl.get("finals"), impl_dynamics=impl.get("dynamics")))


def merge_stage(c, it, exe, quick):
    """Runs before (and independently of) the Scenic context program: a defect in the class machinery that makes
    Scenic's own classes unloadable is still pinned down to a concrete class."""
    hiers = gen_hierarchies(c.rng, 150 if quick else 1500)
    r = common.run_impl("impl_c06.py", dict(kind="merge", hiers=hiers), timeout=1200)
    if "crash" in r:
        c.violation("harness", "the class-merging probe crashed", dict(crash=r["crash"], tb=r.get("tb")), no_input=True)
        return
    entries = []
    if r.get("import_error"):
        c.cov["object_types_import_error"] = r["import_error"]
    for cname, ci in r["builtin"].items():
        if "error" in ci:
            c.violation("harness", "class could not be introspected", dict(cls=cname, error=ci["error"]), no_input=True)
            continue
        entries.append((dict(source="builtin", cls=cname), ci["mro"], ci))
    for hier, res in zip(hiers, r["hiers"]):
        mros = hier_mro(hier)
        props = {name: [[p, dict(deps=deps, additive=a, dynamic=d, final=f)] for p, deps, a, d, f in pl] for name, _, pl in hier}
        for rec in res:
            if "skipped" in rec:
                c.hist("merge-defaults:skipped-base-failed")
                continue
            if rec["mro"] != mros[rec["name"]]:
                c.violation("harness", "MRO computed by the harness differs from the implementation's", dict(rec=rec), no_input=True)
                continue
            mro = [[n, props[n]] for n in rec["mro"]]
            ident = dict(source="generated", cls=rec["name"], hierarchy=[[n, b] for n, b, _ in hier])
            entries.append((ident, mro, rec["info"] if "info" in rec else dict(error=rec["error"], msg=rec.get("msg", ""))))
    check_merge(c, it, exe, entries)
    c.cov["merge_classes"] = len(entries)


def main():
    c = Check(PID, "proof")
    c.cov["rule"] = ("every catalogue instance of every built-in specifier (real syntax; vector / Point / OrientedPoint / Object / "
                     "region with and without preferred orientation / vector field arguments) alone, all pairs and (quick: all "
                     "triples with two optional-position specifiers or a modifier plus a seeded sample; thorough: all triples and "
                     "sampled quadruples) of the core instances in ALL permutations, in 2D and 3D mode, plus user classes with "
                     "inherited/additive/dynamic/final defaults, self-dependencies and a missing dependency; a case is non-trivial "
                     "when two specifiers contend for a property, a modifier acts, or resolution fails; distinct by (mode, class, order)")
    common.ensure_parser()
    if not c.proofs():
        c.finish()
    exe = common.build_ocaml(PID)
    quick = c.tier == "quick"
    groups = gen_groups(c.rng, quick)
    if c.replay:
        body = json.load(open(c.replay))
        case = body.get("case", {})
        if "insts" in case and "cls" in case:
            groups = [(case["cls"], tuple(sorted(case["insts"])))]
    it = Intern()
    doc_path = os.path.join(common.REPO, "docs/reference/specifiers.rst")
    secs = None
    try:
        secs = docs.parse(open(doc_path).read())
    except docs.DocError as e:
        c.violation("doc-parse", "docs/reference/specifiers.rst no longer has the shape the fail-closed parser understands",
                    dict(error=str(e)), no_input=True)
    probes = probe_groups(secs) if secs is not None and not c.replay else []
    have = set(groups)
    for iid, p, w, _ in probes:
        for g in (("Object", (w,)), ("Object", (iid,)), ("Object", tuple(sorted((w, iid))))):
            if g not in have and ("Object", g[1][::-1]) not in have:
                have.add(g)
                groups.append(g)
    if not c.replay:
        merge_stage(c, it, exe, quick)
    jobs = []
    for mode2D in (False, True):
        for cls, sub in groups:
            for perm in itertools.permutations(sub):
                jobs.append(dict(mode2D=mode2D, cls=cls, insts=list(perm)))
    # ---- run the implementation
    nw = max(2, min(8, common.NCPU, int(os.environ.get("VERIF_WORKERS", "8"))))
    chunks = []
    for mode2D in (False, True):
        mj = [j for j in jobs if j["mode2D"] == mode2D]
        k = max(1, nw // 2)
        for i in range(k):
            part = mj[i::k]
            if part or i == 0:
                chunks.append((mode2D, part))

    def run_chunk(ch):
        mode2D, part = ch
        return ch, common.run_impl("impl_c06.py", dict(mode2D=mode2D, jobs=part), timeout=6000)

    tables, classes, results = {}, {}, []
    with cf.ThreadPoolExecutor(len(chunks)) as ex:
        for (mode2D, part), r in ex.map(run_chunk, chunks):
            if "crash" in r:
                c.violation("harness", "the C06 context program no longer compiles/runs", dict(mode2D=mode2D, crash=r["crash"], tb=r.get("tb")), no_input=True)
                continue
            tables.setdefault(mode2D, r["table"])
            classes.setdefault(mode2D, r["classes"])
            results += list(zip(part, r["cases"]))
    if any(v[0] == "harness" for v in c.violations):
        c.finish()

    # ---- (G) regenerated tables: code vs reference
    byjob = {(job["mode2D"], job["cls"], tuple(job["insts"])): obs for job, obs in results}
    gen = ["From Coq Require Import ZArith NArith List Bool.", "From Scenic Require Import C06.Specifier C06.Modifiable.",
           "Import ListNotations.", "Open Scope Z_scope.",
           "Definition row := (N * list (N * Z) * list N * bool * list N)%type."]
    table_rows = 0
    if secs is not None:
        missing = sorted(set(secs) - set(cat.ALL_SECTIONS))
        if missing:
            c.violation("doc-table", "the reference documents a specifier the catalogue has no instance of",
                        dict(sections=missing), no_input=True)
        for mode2D in (False, True):
            tag = "2d" if mode2D else "3d"
            code_rows, doc_rows, raw = [], [], []
            for inst in cat.INSTANCES:
                got = tables[mode2D].get(inst["id"])
                if isinstance(got, dict) or got is None:
                    c.hist(f"table:{tag}:construct-failed")
                    if not mode2D:
                        c.violation("doc-table", "a documented specifier form cannot be constructed",
                                    dict(specifier=inst["syntax"], section=inst["sec"], error=(got or {}).get("error")))
                    continue
                if len(got) != 1:
                    c.violation("doc-table", "one specifier syntax produced several specifiers", dict(specifier=inst["syntax"], n=len(got)))
                    continue
                row = got[0]
                raw.append(row)
                if inst["sec"] not in secs:
                    c.violation("doc-table", "specifier form has no section in the reference", dict(specifier=inst["syntax"], section=inst["sec"]))
                    continue
                cv, dv = docs.code_view(row), docs.expected_row(secs[inst["sec"]], inst)
                table_rows += 1
                c.count(("table", tag, inst["id"], cv), nontrivial=True)
                c.hist(f"table:{tag}:rows")
                bad = False
                if cv != dv:
                    cp, dp = dict(map(tuple, cv["prios"])), dict(map(tuple, dv["prios"]))
                    for p in sorted(set(cp) | set(dp)):
                        if cp.get(p) != dp.get(p):
                            bad |= c.violation("doc-table", "priority of a property differs between code and reference",
                                               dict(specifier=inst["syntax"], section=inst["sec"], mode2D=mode2D, property=p,
                                                    code=cp.get(p), doc=dp.get(p)))
                    for d in sorted(set(cv["deps"]) ^ set(dv["deps"])):
                        bad |= c.violation("doc-table", "dependency differs between code and reference",
                                           dict(specifier=inst["syntax"], section=inst["sec"], mode2D=mode2D, property=d,
                                                code=d in cv["deps"], doc=d in dv["deps"], what="dependency"))
                    if (cv["mod"], cv["modifiable"]) != (dv["mod"], dv["modifiable"]):
                        bad |= c.violation("doc-table", "modifying behaviour differs between code and reference",
                                           dict(specifier=inst["syntax"], section=inst["sec"], mode2D=mode2D, property="<modifies>",
                                                code=cv["modifiable"], doc=dv["modifiable"]))
                    if not bad:
                        continue  # explained by a known finding: row left out of the kernel equality
                def coq_row(v):
                    pr = "; ".join(f"({it.prop(p)}%N, {k})" for p, k in v["prios"])
                    ds = "; ".join(f"{it.prop(d)}%N" for d in v["deps"])
                    mo = "; ".join(f"{it.prop(d)}%N" for d in v["modifiable"])
                    return f"({it.name('inst:' + inst['id'])}%N, [{pr}], [{ds}], {'true' if v['mod'] else 'false'}, [{mo}])"
                code_rows.append(coq_row(cv))
                doc_rows.append(coq_row(dv))
            gen += [f"Definition code_table_{tag} : list row := [\n  " + ";\n  ".join(code_rows) + "].",
                    f"Definition doc_table_{tag} : list row := [\n  " + ";\n  ".join(doc_rows) + "].",
                    f"Theorem table_agrees_{tag} : code_table_{tag} = doc_table_{tag}.\nProof. vm_compute. reflexivity. Qed.",
                    f"Definition specs_{tag} : list spec := [\n  " + ";\n  ".join(coq_spec(it, r) for r in raw) + "].",
                    # facts the general theorems rely on, re-checked on what the code says now
                    f"Theorem mod_single_name_{tag} : forallb (fun a => forallb (fun b => implb (is_mod a && is_mod b) (N.eqb (sname a) (sname b))) specs_{tag}) specs_{tag} = true.\nProof. vm_compute. reflexivity. Qed.",
                    f"Theorem no_self_dependency_{tag} : forallb (fun s => forallb (fun pk => negb (memN (fst pk) (deps s))) (prios s)) specs_{tag} = true.\nProof. vm_compute. reflexivity. Qed.",
                    f"Theorem prios_keys_nodup_{tag} : forallb (fun s => nodupb (map fst (prios s))) specs_{tag} = true.\nProof. vm_compute. reflexivity. Qed."]
            # round 3: what a modifying specifier may modify, as table facts on what the code says now
            gen += [f"Theorem modifiable_within_prios_{tag} : forallb (fun s => forallb (fun p => memN p (map fst (prios s))) (modifiable s)) specs_{tag} = true.\nProof. vm_compute. reflexivity. Qed.",
                    f"Theorem only_modifiers_modify_{tag} : forallb (fun s => is_mod s || match modifiable s with [] => true | _ => false end) specs_{tag} = true.\nProof. vm_compute. reflexivity. Qed.",
                    f"Definition modifiable_code_{tag} : list (N * list N) := map (fun r => match r with (n, _, _, _, mo) => (n, mo) end) code_table_{tag}.",
                    f"Definition modifiable_doc_{tag} : list (N * list N) := map (fun r => match r with (n, _, _, _, mo) => (n, mo) end) doc_table_{tag}.",
                    f"Theorem modifiable_agrees_{tag} : modifiable_code_{tag} = modifiable_doc_{tag}.\nProof. vm_compute. reflexivity. Qed."]
            # ... and regenerated from BEHAVIOUR (public syntax only): `new Object with P v, I` for every instance I and documented
            # property P of I; observed 0 = P keeps the value given by `with`, 1 = I modified it (value changed, or the modifying
            # evaluation itself failed), 2 = refused.  The kernel evaluates the model's phases 0-2 on the DOCUMENTED rows.
            prow, nprobe = [], 0
            for iid, pp, w, for2D in probes:
                if for2D != mode2D:
                    continue
                inst, winst = INST[iid], INST[w]
                base = byjob.get((mode2D, "Object", (w,)))
                alone = byjob.get((mode2D, "Object", (iid,)))
                if base is None or alone is None or base["stage"] != "ok" or alone["stage"] != "ok" or pp not in base.get("vals", {}):
                    c.hist(f"probe:{tag}:skipped-baseline-fails")
                    continue
                dv, dw = docs.expected_row(secs[inst["sec"]], inst), docs.expected_row(secs[winst["sec"]], winst)
                want = doc_probe_outcome(dv, inst, pp, winst)
                seen = []
                for order in ((w, iid), (iid, w)):
                    o = byjob.get((mode2D, "Object", order))
                    if o is None:
                        continue
                    if o["stage"] == "ok":
                        code = 0 if o.get("vals", {}).get(pp) == base["vals"][pp] else 1
                    elif o.get("is_specifier_error") and o["stage"] == "resolve":
                        code = 2
                    else:
                        code = 4      # evaluation failed although each specifier alone evaluates: only a modification explains it
                    seen.append((order, code, o))
                for order, code, o in seen:
                    nprobe += 1
                    c.count(("probe", tag, order), nontrivial=True)
                    c.hist(f"probe:{tag}:observed-{code}")
                    if (1 if code == 4 else code) != want:
                        c.violation("modifiable-probe", "what a specifier does to a property already specified by `with` differs from the reference "
                                    "(0 keeps the value, 1 modifies it, 2 refused, 4 evaluation fails)",
                                    dict(mode2D=mode2D, cls="Object", insts=list(order), syntax=[INST[k]["syntax"] for k in order], property=pp,
                                         observed=code, reference=want, value_with_alone=base["vals"][pp], value=o.get("vals", {}).get(pp),
                                         exc=o.get("exc"), msg=o.get("msg")))
                        break
                if seen:
                    obs_code = 1 if seen[0][1] == 4 else seen[0][1]
                    def drow(v, i):
                        return dict(name="doc:" + i["sec"] + ":" + str(i.get("given")), prios=v["prios"], deps=v["deps"], mod=v["mod"], modifiable=v["modifiable"])
                    prow.append(f"({coq_spec(it, drow(dw, winst))}, {coq_spec(it, drow(dv, inst))}, {it.prop(pp)}%N, {obs_code}%N)")
            c.cov[f"probe_cases_{tag}"] = nprobe
            if prow:
                gen += [f"Definition probe_rows_{tag} : list (spec * spec * N * N) := [\n  " + ";\n  ".join(prow) + "].",
                        f"Theorem probe_behaviour_{tag} : forallb (fun r => match r with (w, i, p, o) => N.eqb (probe_outcome [w; i] p) o end) probe_rows_{tag} = true.\nProof. vm_compute. reflexivity. Qed."]
            # F1 on the exported table, evaluated by the kernel: all six orders are an ambiguity error
            t = tables[mode2D]
            trio = [t.get(k) for k in ("visible_pt", "at_vec", "notvisible_pt")]
            if all(isinstance(x, list) and len(x) == 1 for x in trio):
                ss = [coq_spec(it, x[0]) for x in trio]
                perms = ["[" + "; ".join(p) + "]" for p in itertools.permutations(ss)]
                gen.append(f"Theorem f1_all_orders_{tag} : forallb (fun s => match resolve s [] [] with Err EAmbiguous => true | _ => false end)\n  [" + ";\n   ".join(perms) + "] = true.\nProof. vm_compute. reflexivity. Qed.")
        ok, out = common.run_coq_cases("C06_SpecTable", "\n".join(gen) + "\n")
        c.cov["gen_table_rows"] = table_rows
        c.cov["gen_file"] = "gen/C06_SpecTable.v"
        if not ok and not any(v[0] in ("doc-table", "modifiable-probe") for v in c.violations):
            c.violation("proof", "a theorem over the regenerated specifier table (gen/C06_SpecTable.v) no longer checks",
                        dict(log=out[-1500:]), no_input=True)
        elif not ok:
            c.cov["gen_log"] = out[-600:]

    # ---- class-level merging of defaults of the classes of the context program: model vs implementation
    entries = []
    for mode2D in (False, True):
        for cname, ci in classes[mode2D].items():
            if "error" in ci:
                c.violation("harness", "class could not be introspected", dict(cls=cname, error=ci["error"]), no_input=True)
                continue
            entries.append((dict(source="program", cls=cname, mode2D=mode2D), ci["mro"], ci))
    check_merge(c, it, exe, entries)

    # ---- (H) resolution: model vs implementation, case by case
    lines, idx = [], []
    for n, (job, obs) in enumerate(results):
        if obs["stage"] == "construct":
            continue
        ci = classes[job["mode2D"]][job["cls"]]
        prows = prepare(job, obs, tables)
        rows = [prows[k] for k in job["insts"]]
        t = [str(len(rows))]
        for r in rows:
            t += spec_tokens(it, r)
        t.append(str(len(ci["defaults"])))
        for p, r in ci["defaults"]:
            t += [str(it.prop(p))] + spec_tokens(it, r)
        t += [str(len(ci["finals"]))] + [str(it.prop(x)) for x in ci["finals"]]
        lines.append("R 1 " + " ".join(t))
        lines.append("R 0 " + " ".join(t))
        idx.append(n)
    outs = common.run_driver(exe, lines) if lines else []
    verdict = {}   # n -> dict(...)
    for j, n in enumerate(idx):
        job, obs = results[n]
        new, old = outs[2 * j], outs[2 * j + 1]
        ci = classes[job["mode2D"]][job["cls"]]
        prows = prepare(job, obs, tables)
        lab2key = {k: key_of(it, prows[k]) for k in job["insts"]}
        for p, r in ci["defaults"]:
            lab2key["default:" + p] = f"0:{it.prop(p)}"

        hooks = bool(obs.get("hooks"))
        stage = obs["stage"]
        if not hooks and stage == "resolve" and not obs.get("is_specifier_error"):
            stage = "eval"   # without the internal hooks an evaluation failure cannot be told from its position

        # what public syntax alone shows: which logging values / default expressions were evaluated, in which order
        pub_tag = {k: [k] for k in job["insts"] if k in cat.PUBLIC_INSTS}
        for cn, _ in ci["mro"]:
            for p in cat.PUBLIC_DEFAULTS.get(cn, []):
                if "default:" + p not in pub_tag:       # most derived class first
                    pub_tag["default:" + p] = [f"{cn}.{p}"]
                    if p in cat.ADDITIVE.get(cn, []):   # an additive default evaluates the expressions of all classes defining it
                        pub_tag["default:" + p] = [f"{c2}.{p}" for c2, _ in ci["mro"] if p in cat.PUBLIC_DEFAULTS.get(c2, [])]
        key2tag = {lab2key[l]: t for l, t in pub_tag.items() if l in lab2key}
        parsed = {}

        def agrees(m):
            if m.startswith("ERR"):
                if stage != "resolve" or not obs.get("is_specifier_error"):
                    return False
                return obs.get("kind") in (None, m.split()[1])
            if not m.startswith("OK P "):
                return False
            if stage == "resolve":
                return False
            ppart, rest = m[5:].split(" M ")
            mpart, opart = rest.split(" O ")
            mp = dict(x.split("=") for x in ppart.split(",") if x)
            mm = dict(x.split("=") for x in mpart.split(",") if x)
            mo = [x for x in opart.strip().split(",") if x]
            want_pub = [key2tag[x] for x in mo if x in key2tag]
            got_pub = obs.get("pub") or []
            parsed[m] = (mp, mm)
            if not match_pub(got_pub, want_pub, stage == "ok"):
                return False
            if not hooks:
                return True
            io = [lab2key.get(l, l) for l in obs["order"]]
            s, g = impl_assignment(obs)
            ip = {str(it.prop(p)): lab2key.get(l, l) for p, l in s.items()}
            im = {str(it.prop(p)): lab2key.get(l, l) for p, l in g.items()}
            if stage == "ok":
                return io == mo and ip == mp and im == mm
            # evaluation of some specifier failed after resolution: what was done must be a prefix
            return io == mo[:len(io)] and all(mp.get(p) == k for p, k in ip.items()) and all(mm.get(p) == k for p, k in im.items())

        a_new, a_old = agrees(new), agrees(old)
        verdict[n] = dict(new=new, old=old, agrees_new=a_new, agrees_old=a_old, stage=stage, hooks=hooks,
                          maps=parsed.get(new), key2tag=key2tag)
        c.hist("observation:" + ("internal-hooks+public" if hooks else "public-only"))
        if obs.get("pub"):
            c.hist("public-log:nonempty")

    # ---- group-level oracles and reporting (one violation per group at most)
    bygroup = {}
    for n, (job, obs) in enumerate(results):
        bygroup.setdefault((job["mode2D"], job["cls"], tuple(sorted(job["insts"]))), []).append(n)
    for (mode2D, cls, sub), ns in bygroup.items():
        ci = classes[mode2D][cls]
        finals = set(ci["finals"])
        sigs = []
        reported = False
        for n in ns:
            job, obs = results[n]
            c.hist("stage:" + obs["stage"] + (":" + (obs.get("kind") or obs.get("exc", "")) if obs["stage"] != "ok" else ""))
            c.hist(f"size:{len(sub)}:{'2d' if mode2D else '3d'}:{'Object' if cls == 'Object' else ('tracer' if cls in TR_CLASSES else 'user')}")
            if obs["stage"] == "construct":
                c.count()
                continue
            rows = prepare(job, obs, tables)
            contended = {}
            for k, r in rows.items():
                for p, pr in r["prios"]:
                    contended.setdefault(p, []).append((pr, r["mod"]))
            shadow = any(tie_shadowed(v) for v in contended.values())
            mod_final = any(r["mod"] and any(p in finals for p, _ in r["prios"]) for r in rows.values())
            nontrivial = any(len(v) > 1 for v in contended.values()) or obs["stage"] == "resolve" or any(r["mod"] for r in rows.values())
            c.count((mode2D, cls, job["insts"]), nontrivial=nontrivial)
            c.cov["traces_validated_against_impl"] += 1
            v = verdict[n]
            hooks = v["hooks"]
            summary = dict(stage=obs["stage"], exc=obs.get("exc"), msg=obs.get("msg"), kind=obs.get("kind"),
                           order=obs["order"], assign=obs["assign"], public_log=obs.get("pub"), internal_hooks=hooks)
            base = dict(mode2D=mode2D, cls=cls, insts=job["insts"], syntax=[INST[k]["syntax"] for k in job["insts"]],
                        impl=summary, tie_shadowed=bool(shadow), modifier_on_final=bool(mod_final),
                        impl_matches_old_model=bool(v["agrees_old"]))
            if not v["agrees_new"] and not reported:
                c.cov["disagreements_checked"] += 1
                reported = True
                c.violation("correspondence", "implementation and model of specifier resolution disagree",
                            dict(base, model=v["new"][:600], model_old=v["old"][:300]))
            # round 3, public syntax only: (i) a default expression that reads a property must see its FINAL value,
            # (ii) a property held (unmodified) by a specifier/default with a literal value has that value, falsy or not,
            # (iii) nothing may fail because a property was read before it was specified
            if obs["stage"] == "ok":
                vals = obs.get("vals") or {}
                for tg, seen_fp in obs.get("pubvals") or []:
                    mt = re.fullmatch(r"\w+\.tr_(\w+)", tg)
                    if mt and mt.group(1) in vals and vals[mt.group(1)] != seen_fp:
                        c.hist("dep-final:mismatch")     # counted even when the group has already been reported
                    if mt and mt.group(1) in vals and vals[mt.group(1)] != seen_fp and not reported:
                        reported = True
                        c.violation("dep-final", "a default expression read a property before it had its final value",
                                    dict(base, expression=tg, property=mt.group(1), value_seen=seen_fp, final_value=vals[mt.group(1)]))
                if v.get("maps"):
                    mp, mm = v["maps"]
                    names = {str(num): nm_ for nm_, num in it.props.items()}
                    for pnum, key in mp.items():
                        tg = v["key2tag"].get(key)
                        if tg and len(tg) == 1 and tg[0] in cat.VALUE and pnum not in mm:
                            vp, want_fp = cat.VALUE[tg[0]]
                            c.hist("value-oracle:checked")
                            if names.get(pnum) == vp and vp in vals and vals[vp] != want_fp:
                                c.hist("value-oracle:mismatch")
                            if names.get(pnum) == vp and vp in vals and vals[vp] != want_fp and v["agrees_new"] and not reported:
                                reported = True
                                c.violation("value", "a property does not have the value of the specifier/default that holds it",
                                            dict(base, property=vp, holder=tg[0], expected=want_fp, final_value=vals[vp]))
            if obs["stage"] == "eval" and obs.get("exc") == "AttributeError" and cls != "Broken":
                c.hist("order:attribute-error")
            if obs["stage"] == "eval" and obs.get("exc") == "AttributeError" and cls != "Broken" and not reported:
                reported = True
                c.violation("order", "evaluation failed reading a property that was not yet available",
                            dict(base, model=v["new"][:600]))
            s, g = impl_assignment(obs)
            resolved = v["stage"] in ("ok", "eval")
            sigs.append((n, ("resolved", tuple(sorted(s.items())), tuple(sorted(g.items())), tuple(sorted(obs.get("pub") or []))) if obs["stage"] == "ok"
                         else (("resolved",) if resolved else ("error",))))
            # documented procedure, order-free
            want = doc_resolve(rows, [(p, r) for p, r in ci["defaults"]], finals)
            if want is not None and not reported:
                bad = (want[0] == "err") != (not resolved)
                if not bad and obs["stage"] == "ok" and hooks:
                    bad = want[1] != s or want[2] != g
                if bad:
                    reported = True
                    c.violation("oracle", "outcome differs from the reference's resolution procedure",
                                dict(base, reference=[want[0], want[1] if want[0] == "err" else None]))
            # evaluation order respects dependencies
            if obs["stage"] == "ok" and not reported and hooks:
                pos = {l: i for i, l in enumerate(obs["order"])}
                allrows = dict(rows)
                for p, r in ci["defaults"]:
                    allrows["default:" + p] = r
                for l, i in pos.items():
                    for d in allrows.get(l, dict(deps=[]))["deps"]:
                        sup = g.get(d) or s.get(d)
                        if sup is None or pos.get(sup, 10 ** 9) >= i:
                            if not reported:
                                reported = True
                                c.violation("order", "a specifier was evaluated before a property it depends on was final",
                                            dict(base, specifier=l, depends_on=d, supplier=sup))
                for p, m in g.items():
                    if pos.get(s.get(p), 10 ** 9) >= pos.get(m, -1) and not reported:
                        reported = True
                        c.violation("order", "a modifier was evaluated before the specifier it modifies", dict(base, property=p))
                if set(rows) - set(pos) and not reported:
                    reported = True
                    c.violation("order", "a specifier was never evaluated", dict(base, missing=sorted(set(rows) - set(pos))))
        # order invariance on the implementation itself
        full = [x for x in sigs if x[1] != ("resolved",)]
        kinds = {x[1][0] for x in sigs}
        if (len(kinds) > 1 or len({x[1] for x in full if x[1][0] == "resolved"}) > 1) and not reported:
            n0 = sigs[0][0]
            n1 = next(n for n, sg in sigs if sg != sigs[0][1])
            j0, o0 = results[n0]
            j1, o1 = results[n1]
            shadow = any(verdict[n]["agrees_old"] for n, _ in sigs if n in verdict)
            c.violation("perm", "the outcome depends on the order in which the specifiers are written",
                        dict(mode2D=mode2D, cls=cls, insts=j0["insts"], syntax=[INST[k]["syntax"] for k in j0["insts"]],
                             other_order=[INST[k]["syntax"] for k in j1["insts"]],
                             outcome=[o0["stage"], o0.get("msg")], other_outcome=[o1["stage"], o1.get("msg")]))
        if len(c.cov["samples"]) < 5 and len(sub) >= 2 and ns and results[ns[0]][1]["stage"] != "construct":
            job, obs = results[ns[0]]
            c.sample(dict(mode2D=mode2D, cls=cls, specifiers=[INST[k]["syntax"] for k in job["insts"]], stage=obs["stage"],
                          order=obs["order"][-6:], model=verdict.get(ns[0], {}).get("new", "")[:160]))
    c.cov["groups"] = len(bygroup)
    c.cov["object_creations"] = len(results)
    c.assumptions += [
        "model = hand-written Gallina (coq/C06/Specifier.v) tied to the code by this differential run and the regenerated tables",
        "specifier attributes read by introspection: Specifier.name/priorities/requiredProperties, ModifyingSpecifier.modifiable_props, "
        "cls._defaults/_finalProperties/_dynamicProperties/_scenic_properties; evaluation observed (a) through public syntax: logging DelayedArgument values "
        "(rt.lazy) and rt.note(...) calls inside default-value expressions, (b) when present, by wrapping Specifier.getValuesFor and Constructible._specify "
        "(optional: if a refactoring renames them the check continues with (a), error classes and success/failure only)",
        "reference table parsed fail-closed from docs/reference/specifiers.rst; internal (underscore) properties are read as 'also adds a requirement'",
        "extraction via ExtrOcamlBasic only; OCaml compiler; the driver ocaml/c06/driver.ml",
    ]
    c.finish()


if __name__ == "__main__":
    main()
