"""C05 — expressions over random values evaluate as in plain Python on the samples; support
intervals contain every value.
Proof layer: coq/Properties/C05.v.  Correspondence: generated expression trees are compiled by the real
Scenic, sampled with seeded RNG, and compared with (i) plain Python's eval of the same text on the sampled
leaves (the oracle), (ii) the extracted Coq model's capture + evaluation, (iii) the model's support
intervals vs supportInterval, and every sample must lie inside the reported interval."""
import concurrent.futures as cf
import json
import os
import sys
from fractions import Fraction

sys.path.insert(0, os.path.dirname(os.path.abspath(__file__)))
import common
import c05_vec
from common import Check

PID = "C05"
SYM = {"add": "+", "sub": "-", "mul": "*", "div": "/", "fdiv": "//", "mod": "%"}
FCONST = [0.5, 1.5, 2.0, -2.5, 3.25, 0.25, -1.0, 4.0]


class Outside(Exception):
    pass


# ------------------------------------------------------------------ generator
class Gen:
    def __init__(self, rng, model_only=False):
        self.rng = rng
        self.defs = []
        self.model_only = model_only
        self.tags = set()

    # ---- random leaves
    def new_leaf(self, depth, want_int=False):
        rng = self.rng
        i = len(self.defs)
        kind = rng.choice(["drange"] if want_int else ["range", "range", "drange", "normal", "tnorm"])
        d = dict(idx=i, kind=kind, var=f"L{i}")
        self.defs.append(d)  # reserve the slot (bounds may only refer to earlier defs)
        earlier = [e for e in self.defs[:i] if e["kind"] in ("range", "drange", "tnorm")]
        if kind in ("range", "drange"):
            if earlier and rng.random() < 0.3 and not want_int:
                lo = ("ref", rng.choice(earlier)["idx"])
                hi = ("bin", "add", lo, ("const", rng.randint(1, 6)))
                if rng.random() < 0.3:
                    lo, hi = ("const", rng.randint(-9, -4)), lo
                self.tags.add("nested-bounds")
            else:
                a = rng.choice([rng.randint(-6, 6), rng.choice(FCONST)]) if kind == "range" else rng.randint(-4, 4)
                lo = ("const", a)
                hi = ("const", a + rng.randint(1, 7) if kind == "drange" else a + rng.choice([1, 2, 0.5, 3.5]))
            d["args"] = [lo, hi]
        elif kind == "normal":
            d["params"] = [rng.randint(-3, 3), rng.choice([0.5, 1, 2])]
        else:
            lo = rng.randint(-5, 2)
            d["params"] = [rng.randint(-2, 2), rng.choice([1, 2]), lo, lo + rng.randint(1, 6)]
        return ("ref", i)

    def new_mux(self, items):
        i = len(self.defs)
        self.defs.append(dict(idx=i, kind="mux", var=f"M{i}", items=items))
        return ("ref", i)

    def leaf(self, depth, want_int=False):
        cands = [d for d in self.defs if (d["kind"] == "drange" and d["args"][0][0] == "const") if want_int] if want_int else \
                [d for d in self.defs if d["kind"] != "mux"]
        if cands and self.rng.random() < 0.45:
            self.tags.add("shared-leaf")
            return ("ref", self.rng.choice(cands)["idx"])
        return self.new_leaf(depth, want_int)

    # ---- typed expression trees
    def num_const(self):
        rng = self.rng
        return ("const", rng.choice([0, 1, 1, 0, 2, 3, -1, -2, 5, 0.0, 1.0, True, False] + FCONST))

    def num(self, depth):
        rng = self.rng
        if depth <= 0:
            return self.leaf(depth) if rng.random() < 0.65 else self.num_const()
        kinds = ["leaf", "bin", "bin", "bin", "short", "short", "un", "pow", "idx", "mux", "call", "call"]
        if not self.model_only:
            kinds += ["hypot", "vecattr", "vecmeth", "sin"]
        k = rng.choice(kinds)
        if k == "leaf":
            return self.leaf(depth)
        if k == "bin":
            op = rng.choice(["add", "sub", "mul", "div", "fdiv", "mod", "add", "sub", "mul"])
            a, b = self.num(depth - 1), self.num(depth - 1)
            if op in ("div", "fdiv", "mod") and rng.random() < 0.8:
                b = ("const", rng.choice([1, 2, 4, 0.5, -2, 3]))
            return ("bin", op, a, b)
        if k == "short":   # the identity shortcuts, both sides
            x = self.num(depth - 1)
            form = rng.choice(["x+0", "0+x", "x-0", "0-x", "x*1", "1*x", "x/1", "x//1", "x**1", "x+0.0", "x*1.0", "x*True", "x+False", "1/x"])
            self.tags.add("shortcut:" + form)
            z = {"x+0": ("bin", "add", x, ("const", 0)), "0+x": ("bin", "add", ("const", 0), x),
                 "x-0": ("bin", "sub", x, ("const", 0)), "0-x": ("bin", "sub", ("const", 0), x),
                 "x*1": ("bin", "mul", x, ("const", 1)), "1*x": ("bin", "mul", ("const", 1), x),
                 "x/1": ("bin", "div", x, ("const", 1)), "x//1": ("bin", "fdiv", x, ("const", 1)),
                 "x**1": ("pow", 1, x), "x+0.0": ("bin", "add", x, ("const", 0.0)),
                 "x*1.0": ("bin", "mul", x, ("const", 1.0)), "x*True": ("bin", "mul", x, ("const", True)),
                 "x+False": ("bin", "add", x, ("const", False)), "1/x": ("bin", "div", ("const", 1), x)}[form]
            return z
        if k == "un":
            op = rng.choice(["neg", "abs", "abs", "pos"])
            if op == "abs" and rng.random() < 0.5:   # operand whose interval straddles 0 asymmetrically
                i = len(self.defs)
                lo = -rng.randint(2, 6)
                self.defs.append(dict(idx=i, kind="range", var=f"L{i}", args=[("const", lo), ("const", rng.choice([0.5, 1, 1.5]))]))
                return ("un", "abs", ("ref", i))
            return ("un", op, self.num(depth - 1))
        if k == "pow":
            return ("pow", rng.choice([0, 1, 2, 3]), self.num(depth - 1))
        if k == "idx":
            s = self.seq(depth - 1, numeric=True)
            return ("idx", s, self.index(depth - 1))
        if k == "mux":
            return self.new_mux([self.num(depth - 1) for _ in range(rng.randint(2, 3))])
        if k == "call":
            f = rng.choice(["max", "min"])
            args = [(False, self.num(depth - 1)) for _ in range(rng.randint(2, 3))]
            if rng.random() < 0.35:
                args[rng.randrange(len(args))] = (True, self.seq(depth - 1, numeric=True))
                self.tags.add("star")
            return ("call", f, args)
        if k == "hypot":
            return ("call", "hypot", [(False, self.num(depth - 1)) for _ in range(rng.randint(2, 3))])
        if k == "vecattr":
            return ("attr", self.vec(depth - 1), rng.choice(["x", "y"]))
        if k == "vecmeth":
            v = self.vec(depth - 1)
            if rng.random() < 0.5:
                return ("meth", v, "norm", [])
            return ("meth", v, "distanceTo", [self.vec(depth - 1)])
        return ("fn1", "sin", self.num(depth - 1))

    def index(self, depth):
        rng = self.rng
        r = rng.random()
        if r < 0.4:
            return ("const", rng.choice([0, 1, -1, 0, 1, 2, True]))
        if r < 0.8 or depth <= 0:
            i = len(self.defs)
            self.defs.append(dict(idx=i, kind="drange", var=f"L{i}", args=[("const", 0), ("const", rng.choice([1, 1, 2]))]))
            return ("ref", i)
        return ("bin", rng.choice(["add", "sub", "mod"]), self.index(depth - 1), ("const", rng.choice([1, 2])))

    def seq(self, depth, numeric=False):
        rng = self.rng
        il = rng.random() < 0.4
        k = rng.choice(["disp", "disp", "const", "concat", "mux"]) if depth > 0 else rng.choice(["disp", "const"])
        if k == "disp":
            return ("seq", il, [self.num(depth - 1) for _ in range(rng.randint(2, 3))])
        if k == "const":
            xs = [rng.choice([0, 1, 2, -3, 0.5, 2.5]) for _ in range(rng.randint(2, 3))]
            return ("const", xs if il else tuple(xs))
        if k == "mux":
            def cseq():
                xs = [rng.choice([0, 1, 2, -3, 0.5]) for _ in range(rng.randint(2, 3))]
                return ("const", xs if il else tuple(xs))
            items = [cseq() if rng.random() < 0.6 else ("seq", il, [self.num(depth - 1) for _ in range(2)]) for _ in range(2)]
            return self.new_mux(items)
        # concat: same container type on both sides (well-typed)
        def side():
            r = rng.random()
            if r < 0.4:
                xs = [rng.choice([0, 1, 2, 7]) for _ in range(rng.randint(1, 2))]
                return ("const", xs if il else tuple(xs))
            if r < 0.7:
                return ("seq", il, [self.num(depth - 1) for _ in range(rng.randint(1, 2))])
            xs1 = [rng.choice([0, 1, 2]) for _ in range(2)]
            xs2 = [rng.choice([3, 4, 5]) for _ in range(3)]
            return self.new_mux([("const", xs1 if il else tuple(xs1)), ("const", xs2 if il else tuple(xs2))])
        a, b = side(), side()
        if a[0] == "const" and b[0] == "ref":
            self.tags.add("const-seq-plus-random-seq")
        return ("bin", "add", a, b)

    def vec(self, depth):
        rng = self.rng
        v = ("vec", self.num(depth - 1), self.num(depth - 1))
        r = rng.random()
        if r < 0.25 and depth > 0:
            return ("bin", rng.choice(["add", "sub"]), v, ("vec", self.num(depth - 1), self.num(depth - 1)))
        if r < 0.4:
            return ("bin", "mul", v, ("const", rng.choice([2, 0.5, 1])))
        if r < 0.5:
            return ("bin", "add", v, ("vec", ("const", 0), ("const", 0)))
        return v


    # ---- directed support cases: every sign pattern of both operands' intervals x constant / random
    SIGNS = {"neg": [(-5, -1), (-3.5, -0.5), (-2, -1)], "negtouch": [(-3, 0), (-1.5, 0)],
             "straddle": [(-2, 3), (-3, 1), (-1, 2), (-0.5, 0.25), (-4, 4)],
             "postouch": [(0, 2), (0, 0.5)], "pos": [(1, 4), (0.5, 2), (2, 3), (1, 2)]}

    def sign_operand(self, allow_compound=True):
        import math
        rng = self.rng
        pat = rng.choice(list(self.SIGNS))
        lo, hi = rng.choice(self.SIGNS[pat])
        form = rng.choice(["const", "range", "range", "range", "drange", "tnorm", "nested", "compound", "shared"])
        if form == "shared":
            cands = [d for d in self.defs if d["kind"] in ("range", "drange", "tnorm") and d.get("sign")]
            if cands:
                d = rng.choice(cands)
                return ("ref", d["idx"]), d["sign"], "shared"
            form = "range"
        if form == "const":
            return ("const", rng.choice([lo, hi, (lo + hi) / 2])), pat, form
        if form == "compound" and allow_compound:
            x, p2, f2 = self.sign_operand(allow_compound=False)
            k = rng.choice(["neg", "abs", "mulc", "addc", "subc", "rsubc"])
            cc = rng.choice([2, -2, 0.5, -1, 3])
            t = {"neg": ("un", "neg", x), "abs": ("un", "abs", x), "mulc": ("bin", "mul", x, ("const", cc)),
                 "addc": ("bin", "add", x, ("const", cc)), "subc": ("bin", "sub", x, ("const", cc)),
                 "rsubc": ("bin", "sub", ("const", cc), x)}[k]
            return t, k + "(" + p2 + ")", "compound"
        i = len(self.defs)
        d = dict(idx=i, var=f"L{i}", sign=pat)
        self.defs.append(d)
        if form == "drange" and math.ceil(lo) < math.floor(hi):
            d.update(kind="drange", args=[("const", math.ceil(lo)), ("const", math.floor(hi))])
        elif form == "tnorm":
            d.update(kind="tnorm", params=[(lo + hi) / 2, rng.choice([1, 2]), lo, hi])
        elif form == "nested":
            mid = (lo + hi) / 2
            d.update(kind="range", args=[("const", lo), ("const", mid)])
            j = len(self.defs)
            self.defs.append(dict(idx=j, var=f"L{j}", kind="range", args=[("ref", i), ("const", hi)]))
            self.tags.add("nested-bounds")
            return ("ref", j), pat, form
        else:
            form = "range"
            d.update(kind="range", args=[("const", lo), ("const", hi)])
        return ("ref", i), pat, form

    def sign_case(self):
        rng = self.rng
        op = rng.choice(["div", "div", "div", "mul", "mul", "add", "sub", "sub"])
        a, pa, fa = self.sign_operand()
        b, pb, fb = self.sign_operand()
        if fa == "const" and fb == "const":
            b, pb, fb = self.sign_operand(allow_compound=False)
        self.tags.add(f"sign:{op}:{pa}/{pb}")
        self.tags.add(f"signform:{fa}/{fb}")
        t = ("bin", op, a, b)
        r = rng.random()
        if r < 0.25:      # one more level: the derived interval feeds another operator
            c, pc, fc = self.sign_operand(allow_compound=False)
            op2 = rng.choice(["div", "mul", "add", "sub"])
            t = ("bin", op2, t, c) if rng.random() < 0.5 else ("bin", op2, c, t)
        elif r < 0.35:
            t = ("un", rng.choice(["abs", "neg"]), t)
        elif r < 0.42:
            t = ("call", rng.choice(["max", "min"]), [(False, t), (False, self.sign_operand(allow_compound=False)[0])])
        return t


def cst(v):
    if isinstance(v, (tuple, list)):
        inner = ", ".join(cst(x) for x in v)
        if isinstance(v, tuple):
            return "(" + inner + ("," if len(v) == 1 else "") + ")"
        return "[" + inner + "]"
    s = repr(v)
    return f"({s})" if s.startswith("-") else s


def render(t, defs, py):
    k = t[0]
    R = lambda x: render(x, defs, py)
    if k == "ref":
        return defs[t[1]]["var"]
    if k == "const":
        return cst(t[1])
    if k == "un":
        return {"neg": f"(-{R(t[2])})", "pos": f"(+{R(t[2])})", "abs": f"abs({R(t[2])})"}[t[1]]
    if k == "pow":
        return f"({R(t[2])} ** {t[1]})"
    if k == "bin":
        return f"({R(t[2])} {SYM[t[1]]} {R(t[3])})"
    if k == "seq":
        inner = ", ".join(R(x) for x in t[2])
        return f"[{inner}]" if t[1] else "(" + inner + ("," if len(t[2]) == 1 else "") + ")"
    if k == "idx":
        return f"{R(t[1])}[{R(t[2])}]"
    if k == "call":
        return f"{t[1]}(" + ", ".join(("*" if s else "") + R(x) for s, x in t[2]) + ")"
    if k == "vec":
        return f"Vector({R(t[1])}, {R(t[2])})" if py else f"({R(t[1])} @ {R(t[2])})"
    if k == "attr":
        return f"{R(t[1])}.{t[2]}"
    if k == "meth":
        return f"{R(t[1])}.{t[2]}(" + ", ".join(R(x) for x in t[3]) + ")"
    if k == "fn1":
        return f"{t[1]}({R(t[2])})"
    raise ValueError(k)


def def_text(d, defs, py):
    k = d["kind"]
    if k == "range":
        return f"Range({render(d['args'][0], defs, py)}, {render(d['args'][1], defs, py)})"
    if k == "drange":
        return f"DiscreteRange({render(d['args'][0], defs, py)}, {render(d['args'][1], defs, py)})"
    if k == "normal":
        return f"Normal({d['params'][0]}, {d['params'][1]})"
    if k == "tnorm":
        p = d["params"]
        return f"TruncatedNormal({p[0]}, {p[1]}, {p[2]}, {p[3]})"
    if k == "mux":
        return ("[" if py else "Uniform(") + ", ".join(render(x, defs, py) for x in d["items"]) + ("]" if py else ")")
    raise ValueError(k)


def qtok(x):
    f = Fraction(x)
    return f"{zs(f.numerator)} {zs(f.denominator)}"


def zs(z):
    return str(z) if abs(z) < 2 ** 60 else ("-" if z < 0 else "") + "0b" + bin(abs(z))[2:]


def sc_tok(v):
    if v is None:
        return "N"
    if isinstance(v, bool):
        return f"B {int(v)}"
    if isinstance(v, int):
        return f"I {zs(v)}"
    if isinstance(v, float):
        return "F " + qtok(v)
    raise Outside()


def val_tok(v):
    if isinstance(v, (tuple, list)):
        return ("T " if isinstance(v, tuple) else "L ") + str(len(v)) + "".join(" " + sc_tok(x) for x in v)
    return sc_tok(v)


def model_tok(t, defs):
    k = t[0]
    M = lambda x: model_tok(x, defs)
    if k == "ref":
        d = defs[t[1]]
        if d["kind"] == "range":
            return f"range {d['idx']} {M(d['args'][0])} {M(d['args'][1])}"
        if d["kind"] == "drange":
            return f"drange {d['idx']} {M(d['args'][0])} {M(d['args'][1])}"
        if d["kind"] == "normal":
            return f"leaf {d['idx']}"
        if d["kind"] == "tnorm":
            return f"tnorm {d['idx']} {qtok(d['params'][2])} {qtok(d['params'][3])}"
        return f"mux {d['idx']} {len(d['items'])} " + " ".join("p " + M(x) for x in d["items"])
    if k == "const":
        return "const " + val_tok(t[1])
    if k == "un":
        return f"un {t[1]} {M(t[2])}"
    if k == "pow":
        return f"pow {t[1]} {M(t[2])}"
    if k == "bin":
        return f"bin {t[1]} {M(t[2])} {M(t[3])}"
    if k == "seq":
        return f"seq {int(t[1])} {len(t[2])} " + " ".join("p " + M(x) for x in t[2])
    if k == "idx":
        return f"idx {M(t[1])} {M(t[2])}"
    if k == "call" and t[1] in ("max", "min"):
        return f"call {t[1]} {len(t[2])} " + " ".join(("s " if s else "p ") + M(x) for s, x in t[2])
    raise Outside()


def dec(e):
    """decode impl_c05.enc -> python value (floats as Fraction) or Outside."""
    if e[0] == "N":
        return None
    if e[0] == "B":
        return bool(e[1])
    if e[0] == "I":
        return int(e[1])
    if e[0] == "F":
        return Fraction(int(e[1]), int(e[2]))
    if e[0] in "TL":
        xs = [dec(x) for x in e[1]]
        return tuple(xs) if e[0] == "T" else xs
    raise Outside()


def enc_tok(e):
    if e[0] == "N":
        return "N"
    if e[0] == "B":
        return f"B {e[1]}"
    if e[0] == "I":
        return "I " + zs(int(e[1]))
    if e[0] == "F":
        return f"F {zs(int(e[1]))} {zs(int(e[2]))}"
    if e[0] in "TL":
        return f"{e[0]} {len(e[1])}" + "".join(" " + enc_tok(x) for x in e[1])
    raise Outside()


def parse_model_val(toks):
    """tokens of `string_of_val` -> python value with Fractions."""
    def sc(i):
        t = toks[i]
        if t == "N":
            return None, i + 1
        if t == "B":
            return toks[i + 1] == "1", i + 2
        if t == "I":
            return int(toks[i + 1], 0), i + 2
        if t == "F":
            n, d = toks[i + 1].split("/")
            return Fraction(int(n, 0), int(d, 0)), i + 2
        raise ValueError(toks)
    if toks[0] in "TL":
        n = int(toks[1])
        i = 2
        xs = []
        for _ in range(n):
            v, i = sc(i)
            xs.append(v)
        return tuple(xs) if toks[0] == "T" else xs
    return sc(0)[0]


def parse_res(s):
    s = s.strip()
    if s.startswith("OK "):
        return ("ok", parse_model_val(s[3:].split()))
    return ("err", s[4:].strip())


def close(a, b):
    if isinstance(a, (tuple, list)) or isinstance(b, (tuple, list)):
        return type(a) is type(b) and len(a) == len(b) and all(close(x, y) for x, y in zip(a, b))
    if a is None or b is None:
        return a is None and b is None
    try:
        a, b = Fraction(a), Fraction(b)
    except Exception:
        return False
    return abs(a - b) <= Fraction(1, 10 ** 9) * max(1, abs(a), abs(b))


def has_fp_discontinuity(t):
    if not isinstance(t, tuple):
        return False
    if t[0] == "bin" and t[1] in ("fdiv", "mod"):
        return True
    return any(has_fp_discontinuity(x) or (isinstance(x, list) and any(has_fp_discontinuity(y if not (isinstance(y, tuple) and len(y) == 2 and isinstance(y[0], bool)) else y[1]) for y in x)) for x in t[1:])


def refs_in(t, defs, acc):
    if isinstance(t, tuple):
        if t and t[0] == "ref":
            if t[1] not in acc:
                acc.add(t[1])
                d = defs[t[1]]
                for x in d.get("args", []) + d.get("items", []):
                    refs_in(x, defs, acc)
        else:
            for x in t[1:]:
                refs_in(x, defs, acc)
    elif isinstance(t, list):
        for x in t:
            refs_in(x, defs, acc)
    return acc


# ------------------------------------------------------------------ delayed-argument programs
def gen_delayed(rng, idx):
    """class defaults and specifier arguments that refer to other properties of the same object."""
    bar = rng.choice(["Range(1, 3)", "DiscreteRange(1, 4)", "2", "Uniform(1, 2, 5)"])
    baq = rng.choice(["self.bar + 1", "self.bar * 2", "(self.bar, 3)", "max(self.bar, 2)"])
    forms = [
        ("self.bar + self.baq", None), ("abs(self.bar - 5) * 2", None), ("hypot(self.bar, 4)", None),
        ("(self.bar, self.bar + 1)[1]", None), ("[self.bar, 7][0] / 2", None), ("max(self.bar, 2.5)", None),
        ("0 + self.bar", None), ("self.bar // 1", None), ("-self.bar", None), ("1 * self.bar ** 2", None),
        ("Uniform(f1, f2)(3, k=self.bar)", ["f1(3, k=self.bar)", "f2(3, k=self.bar)"]),
        ("Uniform(f1, f2)(self.bar, 2)", ["f1(self.bar, 2)", "f2(self.bar, 2)"]),
        ("Uniform(f1, f2)(k=self.bar, a=1)", ["f1(k=self.bar, a=1)", "f2(k=self.bar, a=1)"]),
        ("Uniform(self.bar, 100)", ["self.bar", "100"]),
        ("f1(self.bar, k=Range(0, 0))", ["f1(self.bar, k=0.0)"]),
    ]
    if "(" in baq and "max" not in baq:
        forms = [f for f in forms if "self.baq" not in f[0]] + [("self.baq[0] + self.baq[1]", None)]
    baz, alts = rng.choice(forms)
    qux, qalts = rng.choice(forms)
    viaspec = False   # `self` is only in scope inside class bodies
    L = ["def f1(a, k=0):", "    return a + k", "def f2(a, k=0):", "    return a * k + 1",
         "class Foo(Object):", f"    bar: {bar}", f"    baq: {baq}", f"    baz: {baz}"]
    if not viaspec:
        L.append(f"    qux: {qux}")
        L.append("ego = new Foo")
    else:
        L.append("    qux: 0")
        L.append(f"ego = new Foo with qux {qux}")
    helpers = "def f1(a, k=0):\n    return a + k\ndef f2(a, k=0):\n    return a * k + 1\n"
    checks = [("baq", [baq]), ("baz", alts or [baz]), ("qux", qalts or [qux])]
    return dict(kind="delayed", id=f"d{idx}", src="\n".join(L) + "\n", helpers_py=helpers, props=["bar", "baq", "baz", "qux"],
                checks=checks, seed=rng.randint(0, 10 ** 6), kwcall=("k=self.bar" in baz or "k=self.bar" in qux),
                forms=[baz, qux])


LAZY_HELPERS_SC = """from collections import namedtuple
from scenic.core.distributions import distributionFunction
Pair = namedtuple("Pair", ["lo", "hi"])
def f1(a, k=0):
    return a + k
def f2(a, k=0):
    return a * k + 1
@distributionFunction
def kind(s):
    return type(s).__name__
@distributionFunction
def ext(s):
    return s + [100]
@distributionFunction
def spread(p):
    return p.hi - p.lo
@distributionFunction
def second(s):
    return s[1]
@distributionFunction
def total(s):
    return sum(s)
def getk(d):
    return d["k"] + 1
def getj(d):
    return d["j"] * 2 - d["k"]
"""
LAZY_HELPERS_PY = LAZY_HELPERS_SC.replace("from collections import namedtuple\n", "").replace(
    "from scenic.core.distributions import distributionFunction\n", "").replace("@distributionFunction\n", "")


def gen_lazy(rng, idx):
    """Containers (list / tuple / namedtuple / dict) and distribution arguments mixing a random element with a
    LAZILY evaluated one (self.<prop> in class defaults; vector-field-relative values in specifier arguments), consumed
    by lifted functions that observe the container's kind as well as its contents."""
    def leaves(ctx):
        if ctx == "class":
            return [("self.bar", "self.bar"), ("self.bar", "self.bar"), ("self.k", "self.k"), ("self.position.x", "self.position.x")]
        return [("(0 relative to vf).yaw", "(2 * self.position.x)"), ("(0.5 relative to vf).yaw", "(2 * self.position.x + 0.5)")]

    def lazy(ctx):
        L = rng.choice(leaves(ctx))
        r = rng.random()
        if r < 0.6:
            return L
        if r < 0.75:
            return (f"({L[0]} + r)", f"({L[1]} + self.rnd)")
        if r < 0.9:
            return (f"({L[0]} * 2)", f"({L[1]} * 2)")
        return (f"abs({L[0]} - 3)", f"abs({L[1]} - 3)")

    def rand():
        return rng.choice([("r", "self.rnd"), ("r", "self.rnd"), ("(r * 2)", "(self.rnd * 2)"), ("(1 - r)", "(1 - self.rnd)")])

    def const():
        c = rng.choice(["1", "2.5", "0", "7"])
        return (c, c)

    def elems(ctx, n):
        pool = [lazy(ctx)] + [rng.choice([rand, rand, rand, const, lambda: lazy(ctx)])() for _ in range(n - 1)]
        rng.shuffle(pool)
        return pool

    def both(fmt, *parts):
        return (fmt.format(*[p[0] for p in parts]), fmt.format(*[p[1] for p in parts]))

    def container(ctx, kind):
        if kind == "list":
            es = elems(ctx, rng.choice([2, 2, 3]))
            return both("[" + ", ".join("{}" for _ in es) + "]", *es)
        if kind == "tuple":
            es = elems(ctx, rng.choice([2, 2, 3]))
            return both("(" + ", ".join("{}" for _ in es) + ")", *es)
        if kind == "pair":
            es = elems(ctx, 2)
            return both(rng.choice(["Pair({}, {})", "Pair(lo={}, hi={})", "Pair({}, hi={})"]), *es)
        es = elems(ctx, 2)
        return both('{{"k": {}, "j": {}}}', *es)

    def form(ctx):
        """-> (scenic text, check dict)"""
        k = rng.choice(["list", "list", "tuple", "pair", "pair", "dict", "distarg", "nest"])
        if k == "list":
            C = container(ctx, "list")
            cons = rng.choice(["kind({})", "ext({})", "second({})", "total({})", "{}", "{}[0]", "({} + [1])", "kind({} + [1])",
                               "kind(Uniform({}, [1, 2]))", "ext(Uniform({}, [1, 2]))"])
            if "Uniform" in cons:
                base = cons.replace("Uniform({}, [1, 2])", "{}")
                return cons.format(C[0]), dict(alts=[base.format(C[1]), base.format("[1, 2]")])
            return cons.format(C[0]), dict(alts=[cons.format(C[1])])
        if k == "tuple":
            C = container(ctx, "tuple")
            cons = rng.choice(["kind({})", "second({})", "total({})", "{}", "{}[1]", "kind({} + (1,))", "({} + (1, 2))",
                               "f1(*{})" if C[0].count(",") == 1 else "total({})", "max(*{})"])
            return cons.format(C[0]), dict(alts=[cons.format(C[1])])
        if k == "pair":
            C = container(ctx, "pair")
            cons = rng.choice(["kind({})", "kind({})", "spread({})", "second({})", "{}", "{}.hi", "{}[0]", "total({})"])
            return cons.format(C[0]), dict(alts=[cons.format(C[1])])
        if k == "dict":
            C = container(ctx, "dict")
            cons = rng.choice(["getk({})", "getj({})"])   # dict literals are not wrapped by toDistribution: structural use only
            return cons.format(C[0]), dict(alts=[cons.format(C[1])])
        if k == "nest":
            C = container(ctx, rng.choice(["list", "tuple", "pair"]))
            D = container(ctx, rng.choice(["list", "tuple"]))
            cons = rng.choice(["kind(second([0, {}]))", "kind(({}, {})[0])", "kind(second(({}, {})))", "total(second([{}, {}]))"])
            n = cons.count("{}")
            if n == 1:
                return cons.format(C[0]), dict(alts=[cons.format(C[1])])
            if "total" in cons:
                C = container(ctx, "tuple")
            return cons.format(C[0], D[0]), dict(alts=[cons.format(C[1], D[1])])
        L = lazy(ctx)
        R = rand()
        d = rng.choice(["range", "normal", "uniform", "discrete", "call", "vecx", "vecnorm", "max", "hypot", "drange"])
        if d == "range":
            return f"Range({L[0]}, {L[0]} + 2)", dict(between=[L[1], f"{L[1]} + 2"])
        if d == "normal":
            return f"Normal({L[0]}, 0.001)", dict(between=[f"{L[1]} - 1", f"{L[1]} + 1"])
        if d == "uniform":
            return f"Uniform({L[0]}, 100, {R[0]})", dict(alts=[L[1], "100", R[1]])
        if d == "discrete":
            return f"Discrete({{{L[0]}: 1, 100: 2}})", dict(alts=[L[1], "100"])
        if d == "call":
            a = rng.choice(["({}, k={})", "({}, {})", "(k={}, a={})"])
            return "Uniform(f1, f2)" + a.format(L[0], R[0]), dict(alts=["f1" + a.format(L[1], R[1]), "f2" + a.format(L[1], R[1])])
        if d == "vecx":
            return f"({L[0]} @ {R[0]}).x", dict(alts=[L[1]])
        if d == "vecnorm":
            return f"({R[0]} @ {L[0]}).norm()", dict(alts=[f"Vector({R[1]}, {L[1]}).norm()"])
        if d == "max":
            return f"max({L[0]}, {R[0]}, 1)", dict(alts=[f"max({L[1]}, {R[1]}, 1)"])
        if d == "hypot":
            return f"hypot({L[0]}, {R[0]})", dict(alts=[f"hypot({L[1]}, {R[1]})"])
        if ctx == "class":
            return "DiscreteRange(self.k, self.k + 2)", dict(between=["self.k", "self.k + 2"], alts_type="int")
        return f"Range({L[0]}, {L[0]} + 2)", dict(between=[L[1], f"{L[1]} + 2"])

    bar = rng.choice(["Range(1, 3)", "Range(1, 3)", "DiscreteRange(1, 4)", "2", "Uniform(1, 2, 5)"])
    L = [LAZY_HELPERS_SC, 'vf = VectorField("Foo", lambda pos: 2 * pos.x)', "r = Range(0, 1)",
         "class Foo(Object):", f"    bar: {bar}", "    k: DiscreteRange(0, 2)"]
    checks, props, forms = [], ["bar", "k", "rnd"], []
    for j in range(3):
        sc, ch = form("class")
        L.append(f"    c{j}: {sc}")
        ch.update(prop=f"c{j}", text=sc, typed=True)
        checks.append(ch); props.append(f"c{j}"); forms.append(sc)
    spec = []
    for j in range(3):
        sc, ch = form("spec")
        spec.append(f"with s{j} {sc}")
        ch.update(prop=f"s{j}", text=sc, typed=True)
        checks.append(ch); props.append(f"s{j}"); forms.append(sc)
    L.append("ego = new Foo at (Range(0.2, 1.2), 0), with rnd r, " + ", ".join(spec))
    return dict(kind="delayed", id=f"z{idx}", src="\n".join(L) + "\n", helpers_py=LAZY_HELPERS_PY, props=props, checks=checks,
                seed=rng.randint(0, 10 ** 6), kwcall=False, forms=forms, lazy=True)


# ------------------------------------------------------------------ main
def corner_values(d):
    """extreme values of a leaf with constant bounds (None: not available)."""
    if d["kind"] in ("range", "drange"):
        if all(a[0] == "const" for a in d["args"]):
            return [d["args"][0][1], d["args"][1][1]]
        return None
    if d["kind"] == "tnorm":
        return [d["params"][2], d["params"][3]]
    if d["kind"] == "mux":
        return list(range(len(d["items"])))
    return None


def build_case(rng, i, depth, nsamples, model_only, sign=False):
    g = Gen(rng, model_only=model_only)
    if sign:
        top, t = "num", g.sign_case()
    else:
        top = rng.choice(["num", "num", "num", "seq"] + ([] if model_only else ["vec"]))
        t = g.num(depth) if top == "num" else (g.seq(depth) if top == "seq" else g.vec(depth))
    defs = g.defs
    used = refs_in(t, defs, set())
    case = dict(id=f"e{i}", kind="expr", seed=rng.randint(0, 10 ** 6), nsamples=nsamples,
                expr=render(t, defs, False), py=render(t, defs, True), tags=sorted(g.tags), top=top,
                defs=[dict(idx=d["idx"], kind=("mux" if d["kind"] == "mux" else "leaf"), var=d["var"],
                           scenic=def_text(d, defs, False), py=(def_text(d, defs, True) if d["kind"] == "mux" else None))
                      for d in defs if d["idx"] in used])
    try:
        case["model"] = model_tok(t, defs)
        case["tau"] = [d["idx"] for d in defs if d["kind"] == "normal" and d["idx"] in used]
    except Outside:
        case["model"] = None
    case["fpdisc"] = has_fp_discontinuity(t) or any(has_fp_discontinuity(x) for d in defs for x in d.get("items", []) + d.get("args", []))
    case["used"] = sorted(used)
    cvs = {d["var"]: corner_values(d) for d in defs if d["idx"] in used}
    if cvs and all(v is not None for v in cvs.values()) and len(cvs) <= 6:
        case["corners"] = cvs
        for cd, d in zip(case["defs"], [d for d in defs if d["idx"] in used]):
            cd["cfloat"] = d["kind"] in ("range", "tnorm")
    return case


def main():
    c = Check(PID, "proof")
    c.cov["rule"] = ("typed generator of expression trees (depth <= 5) over Range/DiscreteRange/Normal/TruncatedNormal leaves "
                     "(shared, nested bounds), + - * / // % ** unary ops on both sides incl. every identity shortcut, tuple/list "
                     "displays, concatenation, indexing by constant and random ints, Uniform multiplexers, lifted max/min/hypot "
                     "with star-unpacking, vectors with attribute access and methods; directed support cases: + - * / over every sign "
                     "pattern (negative / touching 0 / straddling / positive) of both operands x constant / Range / DiscreteRange / "
                     "TruncatedNormal / nested / derived operands, each also evaluated at the corner values of its leaves; class "
                     "defaults/specifier arguments over self.<prop>; programs with list / tuple / namedtuple / dict literals and "
                     "distribution arguments mixing random and lazily evaluated elements (self.<prop>, vector-field-relative values) "
                     "consumed by lifted functions observing type and value; vector expressions (harness/c05_vec.py): + - relative to / "
                     "offset by with a constant vector of every zero pattern (8 in 3D, 4 in 2D) on either side, given as Vector / @ / tuple, "
                     "against VectorOperatorDistribution / VectorMethodDistribution / point-in-region / random-coordinate / generic "
                     "vector-valued operands, scalar * and / (1, 0, k, random) on both sides, rotatedBy, random nested trees, observed on "
                     "x, y and z; directed reflected-operator family (- / // % ** divmod x order x DiscreteRange / Uniform / len x float "
                     "constant / Range); a case is non-trivial when the compiled value is random and at least one sample was compared "
                     "with plain Python's eval; distinct by hash of the expression text")
    common.ensure_parser()
    if not c.proofs():
        c.finish()
    exe = common.build_ocaml(PID)
    quick = c.tier == "quick"
    ntrees = 360 if quick else 8000
    nsign = 240 if quick else 3000
    nsamples = 10 if quick else 40
    ndelayed = 40 if quick else 600
    nlazy = 60 if quick else 600
    rng = c.rng
    cases = []
    for i in range(ntrees):
        depth = rng.choice([1, 2, 2, 3, 3, 4, 5])
        cases.append(build_case(rng, i, depth, nsamples, model_only=(i % 3 != 2)))
    for i in range(nsign):
        cases.append(build_case(rng, ntrees + i, 2, max(4, nsamples // 2), model_only=True, sign=True))
    # targeted cases (always run first): the shapes of the recorded defects
    targeted = [
        ("t-hypot", "hypot(L0, 0)", "hypot(L0, 0)", [("L0", "Range(-3, 1)")]),
        ("t-fdiv1", "(L0 // 1)", "(L0 // 1)", [("L0", "Range(0.5, 3.5)")]),
        ("t-absnone", "abs(L0)", "abs(L0)", [("L0", "Normal(0, 1)")]),
        ("t-negnone", "(-L0)", "(-L0)", [("L0", "Normal(0, 1)")]),
        ("t-radd", "((1, 2) + M0)", "((1, 2) + M0)", [("M0", "Uniform((3,), (4, 5))")]),
        ("t-raddl", "([1] + M0)", "([1] + M0)", [("M0", "Uniform([2], [3])")]),
        ("t-abscross", "abs(L0)", "abs(L0)", [("L0", "Range(-3, 1)")]),
        ("t-abscross2", "abs((L0 - 4))", "abs((L0 - 4))", [("L0", "DiscreteRange(0, 5)")]),
    ]
    tcases = []
    for tid, ex, py, defs in targeted:
        dd = []
        for j, (var, sc) in enumerate(defs):
            mux = var.startswith("M")
            dd.append(dict(idx=j, kind="mux" if mux else "leaf", var=var, scenic=sc,
                           py=("[" + sc[len("Uniform("):-1] + "]") if mux else None))
        tcases.append(dict(id=tid, kind="expr", seed=7, nsamples=nsamples, expr=ex, py=py, tags=["targeted"], top="num",
                           defs=dd, model=None, fpdisc=False, used=[]))
    tcases[0]["model"], tcases[0]["model"] = None, None
    tcases[1]["model"], tcases[1]["tau"] = "bin fdiv range 0 const F 1 2 const F 7 2 const I 1", []
    tcases[2]["model"], tcases[2]["tau"] = "un abs leaf 0", [0]
    tcases[3]["model"], tcases[3]["tau"] = "un neg leaf 0", [0]
    tcases[4]["model"], tcases[4]["tau"] = "bin add const T 2 I 1 I 2 mux 0 2 p const T 1 I 3 p const T 2 I 4 I 5", []
    tcases[5]["model"], tcases[5]["tau"] = "bin add const L 1 I 1 mux 0 2 p const L 1 I 2 p const L 1 I 3", []
    tcases[6]["model"], tcases[6]["tau"] = "un abs range 0 const I -3 const I 1", []
    tcases[7]["model"], tcases[7]["tau"] = "un abs bin sub drange 0 const I 0 const I 5 const I 4", []
    rcases = c05_vec.reflect_cases(rng, 4 if quick else 12)
    vcases = c05_vec.build_vcases(rng, quick)
    cases = tcases + rcases + cases + vcases
    dcases = [gen_delayed(rng, i) for i in range(ndelayed)]
    dcases += [gen_lazy(rng, i) for i in range(nlazy)]
    for d in dcases:
        d["nsamples"] = 3 if quick else 6
    if os.environ.get("VERIF_C05_ONLY") == "vec":      # dev aid: only the round-3 families
        cases, dcases = rcases + vcases, []
    if c.replay:
        body = json.load(open(c.replay))
        cs = body.get("case", {}).get("case")
        if cs:
            cases, dcases = ([cs], []) if cs.get("kind") != "delayed" else ([], [cs])

    allc = cases + dcases
    nw = min(int(os.environ.get("VERIF_WORKERS", "8")), common.NCPU)
    chunks = [allc[i::nw] for i in range(nw)]
    chunks = [ch for ch in chunks if ch]
    results = {}
    with cf.ThreadPoolExecutor(len(chunks)) as ex:
        for r in ex.map(lambda ch: common.run_impl("impl_c05.py", dict(cases=ch), timeout=7000), chunks):
            for x in r["results"]:
                results[x["id"]] = x

    # ---- model runs: one driver line per (case, sample)
    lines, keys = [], []
    for cs in cases:
        r = results.get(cs["id"], {})
        if cs.get("model") is None or "samples" not in r:
            if cs.get("model") is not None and "compile_error" in r:
                lines.append(f"E 1 0 1 | {len(cs['tau'])} {' '.join(map(str, cs['tau']))} | 0 | {cs['model']}")
                keys.append((cs["id"], None))
            continue
        for k, s in enumerate(r["samples"]):
            if "leaves" not in s:
                continue
            try:
                sig = " ".join(f"{i} {enc_tok(v)}" for i, v in s["leaves"].items())
            except Outside:
                continue
            lines.append(f"E 1 0 1 | {len(cs['tau'])} {' '.join(map(str, cs['tau']))} | {len(s['leaves'])} {sig} | {cs['model']}")
            keys.append((cs["id"], k))
    for cs in cases:
        if not cs.get("vmodel"):
            continue
        r = results.get(cs["id"], {})
        if "compile_error" in r:
            lines.append(f"V 1 | 0 | 0 | {cs['vmodel']}")
            keys.append((cs["id"], None))
            continue
        for k, s in enumerate(r.get("samples", [])):
            if "leaves" not in s:
                continue
            ln = c05_vec.vline(cs, s)
            if ln is not None:
                lines.append(ln)
                keys.append((cs["id"], k))
    mout = common.run_driver(exe, lines) if lines else []
    model = {}
    for key, line in zip(keys, mout):
        model[key] = line

    # ---- compare
    for cs in cases:
        r = results.get(cs["id"])
        rep = dict(case=cs)
        if r is None or "crash" in r:
            c.violation("harness", "implementation driver crashed", dict(case=cs, crash=(r or {}).get("crash")), no_input=True)
            continue
        inmodel = cs.get("model") is not None
        c.hist("top:" + cs["top"])
        c.hist("in-model" if inmodel else "oracle-only")
        for t in cs["tags"]:
            c.hist("tag:" + (t if t.startswith("sign:div") else t.split(":")[0]))
        if "compile_error" in r and cs.get("vmodel"):
            # vector expressions: a compile-time error is legitimate only where constant folding divides by zero
            c.hist("compile-error:" + r["compile_error"])
            c.count()
            m = model.get((cs["id"], None), "")
            parts = [p.strip() for p in m.split("|")]
            if not (len(parts) == 2 and parts[1].startswith("ZERO") and r["compile_error"] == "ZeroDivisionError"):
                c.violation("oracle", "Scenic rejects at compile time a vector expression that plain Python evaluates",
                            dict(case=cs, impl=r["compile_error"], msg=r.get("msg"), model=m, tags=cs["tags"]))
            continue
        if "compile_error" in r:
            c.hist("compile-error:" + r["compile_error"])
            c.count()
            if inmodel:
                m = model.get((cs["id"], None), "")
                parts = [p.strip() for p in m.split("|")]
                if len(parts) == 4 and parts[1] != "CE" and "Unsup" not in m:
                    c.violation("correspondence", "Scenic rejects at compile time an expression the model captures",
                                dict(case=cs, impl=r["compile_error"], msg=r.get("msg"), model=m))
            continue
        compared = 0
        for k, s in enumerate(r["samples"]):
            if "leaf_exc" in s:
                continue
            c.count()
            # (i) oracle: Scenic's value vs plain Python on the sampled leaves
            iv_ok, pv_ok = "impl" in s, "py" in s
            if iv_ok and pv_ok:
                compared += 1
                c.hist("cmp:" + s["cmp"])
                if s["types"][0] != s["types"][1]:
                    c.hist("type-differs:" + "/".join(s["types"]))
                if s["cmp"] == "ne":
                    c.violation("oracle", "value in the scene differs from plain Python on the sampled leaves",
                                dict(case=cs, sample=s, tags=cs["tags"]))
            elif iv_ok != pv_ok:
                c.hist("exc-asym")
                c.violation("oracle", "Scenic raises where plain Python evaluates (or conversely)",
                            dict(case=cs, sample=s, tags=cs["tags"], impl_exc=s.get("impl_exc"), py_exc=s.get("py_exc")))
            else:
                c.hist("both-raise:" + s.get("py_exc", "?"))
            # (ii) support contains every sample
            if s.get("in_support") is False:
                c.violation("support-unsound", "a sampled value lies outside supportInterval",
                            dict(case=cs, sample=s, support=r.get("support"), tags=cs["tags"]))
            # (iii') vector model: plain arithmetic (veval) vs Python, capture + sampleGiven (vcap, nev) vs Scenic
            if cs.get("vmodel"):
                m = model.get((cs["id"], k))
                if m is not None:
                    c.cov["traces_validated_against_impl"] += 1
                    parts = [p.strip() for p in m.split("|")]
                    if m.startswith("FAIL") or len(parts) != 2:
                        c.violation("harness", "model driver failed", dict(case=cs, model=m), no_input=True)
                        continue
                    spk, spv = c05_vec.parse_vres(parts[0])
                    cpk, cpv = c05_vec.parse_vres(parts[1])
                    c.hist("vcls:" + (parts[1].split()[-1] if cpk != "attr" else "attr"))

                    def vclose(mv, e):
                        try:
                            return all(close(x, y) for x, y in zip(mv, c05_vec.vec_of(e)))
                        except ValueError:
                            return False
                    if pv_ok:
                        if spk != "ok" or not vclose(spv, s["py"]):
                            c.violation("correspondence", "model of plain vector arithmetic (veval) differs from Python",
                                        dict(case=cs, sample=s, model=parts[0]))
                    elif spk == "ok":
                        c.violation("correspondence", "veval yields a vector where Python raises", dict(case=cs, sample=s, model=parts[0]))
                    if iv_ok:
                        if cpk != "ok" or not vclose(cpv, s["impl"]):
                            c.violation("correspondence", "model of vector capture/sampleGiven (vcap, nev) differs from Scenic's value",
                                        dict(case=cs, sample=s, model=parts[1], tags=cs["tags"]))
                    elif cpk == "ok":
                        c.violation("correspondence", "Scenic raises at sampling where the model of vector capture yields a vector",
                                    dict(case=cs, sample=s, model=parts[1], tags=cs["tags"], impl_exc=s.get("impl_exc")))
                continue
            # (iii) model
            m = model.get((cs["id"], k))
            if inmodel and m is not None:
                c.cov["traces_validated_against_impl"] += 1
                parts = [p.strip() for p in m.split("|")]
                if m.startswith("FAIL") or len(parts) != 4:
                    c.violation("harness", "model driver failed", dict(case=cs, model=m), no_input=True)
                    continue
                mpy, kind, mcap, msup = parse_res(parts[0]), parts[1], parse_res(parts[2]), parts[3]
                if "Unsup" in parts[0] or "Unsup" in parts[2]:
                    c.hist("model-unsup")
                    continue
                fp = cs["fpdisc"]
                # numpy scalars among the sampled leaves (TruncatedNormal samples are numpy.float64): plain Python on
                # *those* values does not raise on a division by zero (inf / nan + RuntimeWarning), and the result can
                # be finite again downstream (an unselected multiplexer option, min/max).  The model's floats are
                # Python floats (ZeroDivisionError), so a model-side ZeroDivisionError is outside the model here; the
                # oracle (Scenic vs CPython on the same numpy values) above still applies.
                npz_py = bool(s.get("np_leaves")) and mpy == ("err", "ZeroDivisionError")
                npz_cap = bool(s.get("np_leaves")) and mcap == ("err", "ZeroDivisionError")
                if npz_py or npz_cap:
                    c.hist("numpy-div0-skip")
                # spec model vs Python
                if npz_py:
                    pass
                elif pv_ok:
                    try:
                        pyv = dec(s["py"])
                        if mpy[0] != "ok" or not close(mpy[1], pyv):
                            if not fp:
                                c.violation("correspondence", "model of Python's semantics (eval_py) differs from Python",
                                            dict(case=cs, sample=s, model=parts[0]))
                            else:
                                c.hist("fp-boundary-skip")
                    except Outside:
                        pass
                elif mpy[0] == "ok":
                    c.violation("correspondence", "eval_py yields a value where Python raises", dict(case=cs, sample=s, model=parts[0]))
                # capture model vs Scenic
                if npz_cap:
                    pass
                elif iv_ok:
                    try:
                        iv = dec(s["impl"])
                        if mcap[0] != "ok" or not close(mcap[1], iv):
                            if not fp:
                                c.violation("correspondence", "model of capture/sampleGiven differs from Scenic's value",
                                            dict(case=cs, sample=s, model=parts[2], tags=cs["tags"]))
                            else:
                                c.hist("fp-boundary-skip")
                    except Outside:
                        pass
                elif mcap[0] == "ok":
                    c.violation("correspondence", "Scenic raises at sampling where the model of capture/sampleGiven yields a value",
                                dict(case=cs, sample=s, model=parts[2], tags=cs["tags"], impl_exc=s.get("impl_exc")))
                # supports
                if k == 0:
                    if "support_raise" in r:
                        if msup != "RAISE":
                            c.violation("support-raise", "supportInterval raises where the (repaired) model answers",
                                        dict(case=cs, impl=r["support_raise"], model=msup, tags=cs["tags"]))
                    elif msup.startswith("SUP"):
                        ml, mu = msup.split()[1:3]
                        il, iu = r["support"]
                        for side, mv, ivv in (("lower", ml, il), ("upper", mu, iu)):
                            mvq = None if mv == "None" else Fraction(int(mv.split("/")[0], 0), int(mv.split("/")[1], 0))
                            ivq = None if ivv is None else dec(ivv)
                            if (mvq is None) != (ivq is None) or (mvq is not None and not close(mvq, ivq)):
                                c.violation("correspondence", f"supportInterval {side} bound differs from the model",
                                            dict(case=cs, impl=r["support"], model=msup, tags=cs["tags"]))
                        c.hist("support:" + ("bounded" if ml != "None" and mu != "None" else "partial" if ml != mu else "none"))
                    elif msup == "RAISE":
                        c.violation("correspondence", "model support raises, implementation answers", dict(case=cs, impl=r.get("support")))
        c.count((cs["expr"],), nontrivial=bool(r.get("random")) and compared > 0, n=0)
        if "support_raise" in r and not inmodel:
            c.violation("support-raise", "supportInterval raises", dict(case=cs, impl=r["support_raise"], tags=cs["tags"]))
        c.sample(dict(expr=cs["expr"], defs=[d["scenic"] for d in cs["defs"]], support=r.get("support"),
                      first=(r["samples"][0] if r["samples"] else None)), limit=4)

    for d in dcases:
        r = results.get(d["id"])
        if r is None or "crash" in r:
            c.violation("harness", "implementation driver crashed", dict(case=d, crash=(r or {}).get("crash")), no_input=True)
            continue
        c.hist("lazy-container" if d.get("lazy") else "delayed")
        if "compile_error" in r:
            c.violation("delayed", "a class default / specifier argument over self.<prop> fails to compile",
                        dict(case=d, error=r["compile_error"], msg=r.get("msg"), kwcall=d["kwcall"]))
            continue
        for s in r["samples"]:
            c.count((d["src"],), nontrivial=True)
            if "impl_exc" in s:
                c.violation("delayed", "sampling a scene with self-dependent defaults raises",
                            dict(case=d, error=s["impl_exc"], msg=s.get("impl_msg"), kwcall=d["kwcall"]))
                continue
            for ch in s["checks"]:
                if not ch["ok"]:
                    c.violation("delayed", "a default/specifier argument was not evaluated on the final values of the properties it uses",
                                dict(case=d, check=ch, props=s["props"], kwcall=d["kwcall"]))

    # ---- hypot support (function level, on squares): repaired model vs the code's interval, via in_support above
    c.assumptions += [
        "floats are modelled as exact rationals (model vs implementation compared with tolerance 1e-9; // and % on floats "
        "are skipped for the model comparison when results differ, never for the Python oracle)",
        "extraction via ExtrOcamlBasic only; OCaml compiler; driver ocaml/c05/driver.ml",
        "the oracle is CPython's eval of the same expression text on the sampled leaves",
        "corner samples: Range / TruncatedNormal / DiscreteRange leaves are set to their (closed) interval end points via "
        "Samplable.sample(subsamples); the value must lie in supportInterval and equal Python's eval at those points",
        "model = hand-written Gallina (coq/C05/Expr.v, coq/C05/Vec.v) tied to the code by this differential run only",
        "vector cases: the oracle evaluates the text with an independent plain-Python vector class (impl_c05.PV) on the sampled "
        "leaves; rotatedBy uses math.cos / math.sin of the sampled angle (model: their exact rationals)",
    ]
    if os.environ.get("VERIF_DEBUG"):
        with open(os.path.join(common.WORK, "c05_viol.json"), "w") as f:
            json.dump([dict(kind=k, what=w, replay=r) for k, w, r, _ in c.violations], f, default=str)
    c.finish()


if __name__ == "__main__":
    main()
