"""Regenerate a normal form of a pegen grammar (actions dropped) with pegen's own grammar parser.
Shared by C09 (conservative-extension certificate) and C10 (well-formedness analysis).
Runs under /venv/bin/python (pegen 0.3.0).  Item normal form (JSON):
  ["tok", "'if'"] hard keyword / operator literal     ["soft", '"match"'] soft keyword
  ["name", "NAME"] token class or rule reference      ["opt", item]  ["star", item]  ["plus", item]
  ["gather", sep, item]  ["pos", item] (&)  ["neg", item] (!)  ["cut"]  ["forced", item]
  ["group", [alt, ...]]   where alt = [item, ...]
"""
import hashlib
import json
import sys


def load(path):
    from pegen.build import build_parser
    g, _, _ = build_parser(path)
    # what the parser generator computes before emitting code: nullable rules, left-recursive rules and their memoised leaders
    from pegen.parser_generator import compute_left_recursives, compute_nullables
    compute_nullables(g.rules)
    compute_left_recursives(g.rules)
    return g


def norm_item(n):
    from pegen import grammar as G
    if isinstance(n, G.NamedItem):
        return norm_item(n.item)
    if isinstance(n, G.StringLeaf):
        v = n.value
        return ["soft", v] if v.startswith('"') else ["tok", v]
    if isinstance(n, G.NameLeaf):
        return ["name", n.value]
    if isinstance(n, G.Opt):
        return ["opt", norm_item(n.node)]
    if isinstance(n, G.Repeat0):
        return ["star", norm_item(n.node)]
    if isinstance(n, G.Repeat1):
        return ["plus", norm_item(n.node)]
    if isinstance(n, G.Gather):
        return ["gather", norm_item(n.separator), norm_item(n.node)]
    if isinstance(n, G.PositiveLookahead):
        return ["pos", norm_item(n.node)]
    if isinstance(n, G.NegativeLookahead):
        return ["neg", norm_item(n.node)]
    if isinstance(n, G.Cut):
        return ["cut"]
    if isinstance(n, G.Forced):
        return ["forced", norm_item(n.node)]
    if isinstance(n, G.Group):
        return norm_item(n.rhs)
    if isinstance(n, G.Rhs):
        alts = [norm_alt(a) for a in n.alts]
        if len(alts) == 1 and len(alts[0]) == 1:
            return alts[0][0]
        return ["group", alts]
    raise ValueError("unrecognised grammar construct: " + type(n).__name__)   # fail closed


def norm_alt(a):
    return [norm_item(i) for i in a.items]


def normal_form(path):
    g = load(path)
    rules = {}
    order = []
    for name, r in g.rules.items():
        rules[name] = dict(alts=[norm_alt(a) for a in r.rhs.alts], memo=bool(r.memo),
                           left_recursive=bool(getattr(r, "left_recursive", False)), leader=bool(getattr(r, "leader", False)))
        order.append(name)
    return dict(rules=rules, order=order)


def alt_hash(alts):
    return hashlib.sha256(json.dumps(alts, sort_keys=True).encode()).hexdigest()[:12]


def keywords(nf):
    hard, soft = set(), set()

    def walk(it):
        if it[0] == "tok" and it[1][1:-1].replace("_", "a").isalnum() and not it[1][1].isdigit():
            hard.add(it[1][1:-1])
        elif it[0] == "soft":
            soft.add(it[1][1:-1])
        elif it[0] in ("opt", "star", "plus", "pos", "neg", "forced"):
            walk(it[1])
        elif it[0] == "gather":
            walk(it[1]); walk(it[2])
        elif it[0] == "group":
            for a in it[1]:
                for i in a:
                    walk(i)
    for r in nf["rules"].values():
        for a in r["alts"]:
            for i in a:
                walk(i)
    return hard, soft


def is_subsequence(small, big):
    j = 0
    for x in big:
        if j < len(small) and x == small[j]:
            j += 1
    return j == len(small)


if __name__ == "__main__":
    out = {}
    for tag, p in (("scenic", sys.argv[1]), ("python", sys.argv[2])):
        out[tag] = normal_form(p)
    json.dump(out, sys.stdout)
