"""C14 — generator of dynamic Scenic programs with one injected fault, and the probe programs."""

PROPS = ["foo", "bar", "baz"]

PRELUDE = '''import builtins
VC = builtins.VERIF_C14
G0 = DiscreteRange(1, 5)
G1 = DiscreteRange(6, 9)
def objs():
    return VC.objs_()
def rec(kind, *args):
    return VC.rec_(globals(), kind, *args)
def cur():
    return VC.cur_()
def idx(o):
    return VC.idx_(o)
def RUN():
    return VC.RUN_()
def FLAG():
    return VC.FLAG_()
def boom(t):
    return VC.boom_(t)
def rej(t):
    return VC.rej_(t)
def boomc():
    return VC.boomc_()
def tick():
    return rec("Tick")
def fin():
    return rec("Final")
def reqb():
    rec("NB", [1])
    return True
behavior B2():
    self.bar = 700 + RUN()
    rec("W", idx(self), 1, 700 + RUN())
    while True:
        wait
'''

NEED_BEH = {"raise-behavior", "reject-behavior", "guard", "raise-interrupt-cond", "reject-interrupt-cond",
            "raise-precondition-beh", "raise-invariant-beh", "reject-invariant-beh", "raise-applyto",
            "terminate-sim-behavior", "base-behavior"}
NEED_SUB = {"raise-sub-setup", "raise-sub-compose", "reject-sub", "terminate-sub", "raise-dyn-specifier",
            "raise-precondition-sub", "terminate-sim-sub", "base-sub-setup"}
SIM_FAULTS = {"sim-step": "step", "sim-readback": "readback", "sim-actions": "actions", "sim-create": "create"}
COMPILE_FAULTS = ["compile-model-import", "compile-raise", "compile-syntax"]
FAULTS = (["none", "none", "none", "raise-main", "reject-main", "terminate-main", "monitor", "record", "raise-require",
           "raise-terminate-when", "terminate-sim-main", "base-main"] + sorted(NEED_BEH) + sorted(NEED_SUB)
          + 3 * sorted(SIM_FAULTS) + COMPILE_FAULTS)


UNITS = ["steps", "steps", "seconds"]
TOP_LIMITS = [1, 2, 3, 0.5, 1.5, 2.5, 4]
TOP_GUARDS = ["pre", "inv", "inv-mid"]


def history_dims(rng, prog, p_limit=0.45, p_guard=0.3):
    """round 3: what makes a later simulation of the same compiled scenario depend on an earlier one: a top-level time
    limit (seconds: converted with the timestep of EACH simulation), top-level preconditions / invariants whose truth the
    harness flips between runs (FLAG()), limits in seconds on sub-scenarios and `do ... for n seconds`."""
    prog["top_limit"] = [rng.choice(TOP_LIMITS), rng.choice(["seconds", "seconds", "steps"])] if rng.random() < p_limit else None
    prog["top_guard"] = rng.choice(TOP_GUARDS) if rng.random() < p_guard else None
    for s in prog["subs"]:
        if s.get("term_after"):
            s["term_unit"] = rng.choice(UNITS)
    return prog


def gen_items(rng, depth, nsubs, first_sub=0, in_setup=False, in_beh=False, has_dyn=False):
    items = []
    for _ in range(rng.randint(1, 5)):
        k = rng.choice(["W", "O", "O", "wait", "do", "W", "OB", "par"] if not in_beh else ["W", "W", "wait", "O", "N", "A", "OB"])
        if in_setup and k in ("wait", "do", "par"):
            k = "O"
        if k in ("do", "par") and (depth >= 2 or nsubs - first_sub <= 0):
            k = "wait"
        if k == "par" and nsubs - first_sub < 1:
            k = "do"
        if k == "OB" and rng.random() < 0.6:
            k = "O"
        if k == "W" and has_dyn and rng.random() < 0.4:
            items.append(["Wd", rng.randint(0, 2), rng.randint(400, 499)])
        elif k == "W":
            items.append(["W", rng.randint(0, 1), rng.randint(0, 2), rng.randint(-9, 99)])
        elif k == "O":
            items.append(["O", rng.randint(0, 1), rng.randint(0, 2), rng.randint(100, 199), rng.random() < 0.3])
        elif k == "OB":
            items.append(["OB", rng.randint(0, 1)])
        elif k == "N":
            items.append(["N", rng.randint(0, 1), rng.randint(20, 29)])
        elif k == "A":
            items.append(["A", rng.randint(0, 2), rng.randint(500, 599)])
        elif k == "wait":
            items.append(["wait"])
        elif k == "do":
            items.append(["do", [rng.randrange(first_sub, nsubs)], rng.choice([None, None, 1, 2]), rng.choice(UNITS)])
        else:
            a = rng.randrange(first_sub, nsubs)
            b = rng.randrange(first_sub, nsubs)
            items.append(["do", [a, b], rng.choice([None, None, 1, 2, 3]), rng.choice(UNITS)])
    return items


def gen_directed(rng):
    """Nested scenarios overriding the SAME property of the same object; the outer one is stopped from
    outside (time limit / terminate) while the inner one is still running; the parent keeps reading."""
    o, p = rng.randint(0, 1), rng.randint(0, 2)
    inner = dict(setup=[["O", o, p, rng.randint(200, 299), False]] + gen_items(rng, 1, 0, in_setup=True)[:2],
                 compose=[["wait"]] * 5)
    mid_setup = [["O", o, p, rng.randint(300, 399), False]] + gen_items(rng, 1, 0, in_setup=True)[:2]
    if rng.random() < 0.5:
        mid_setup = mid_setup[1:] + mid_setup[:1]
    mid = dict(setup=mid_setup, compose=[["wait"]] * rng.randint(0, 1) + [["do", [1], None]] + [["wait"]] * 3, term_after=rng.randint(1, 3))
    main = gen_items(rng, 0, 0)[:2] + [["do", [0], None]] + [["wait"], ["W", 1 - o, p, 5], ["wait"]] + gen_items(rng, 0, 0)[:2]
    beh = None if rng.random() < 0.5 else [["wait"], ["W", 0, rng.randint(0, 2), 150], ["wait"]]
    fault = rng.choice(["none", "none", "raise-main", "reject-main", "sim-step", "terminate-main"])
    return history_dims(rng, dict(main=main, subs=[mid, inner], beh=beh, fault=fault, fault_pos=rng.randint(3, 8), fault_step=rng.randint(2, 4),
                                  raise_guard=True, directed="nested", nsreq=False, mode2D=False), 0.3, 0.2)


def gen_siblings(rng):
    """Parallel sibling sub-scenarios (do A(), B()) whose overrides may hit the same property, ending at
    different times / stopped together by their parent's time limit or a `for` modifier."""
    o, p = rng.randint(0, 1), rng.randint(0, 2)
    same = rng.random() < 0.5
    subs = []
    for k in range(2):
        oo, pp = (o, p) if same or k == 0 else (rng.randint(0, 1), rng.randint(0, 2))
        subs.append(dict(setup=[["O", oo, pp, 200 + 100 * k + rng.randint(0, 50), False]] + gen_items(rng, 1, 0, in_setup=True)[:1],
                         compose=[["wait"]] * rng.randint(1, 4) + [["W", rng.randint(0, 1), rng.randint(0, 2), rng.randint(0, 50)]]))
    wrap = rng.random() < 0.4
    if wrap:  # the siblings run below a parent that is stopped from outside
        subs.append(dict(setup=gen_items(rng, 1, 0, in_setup=True)[:1], compose=[["do", [0, 1], None], ["wait"]], term_after=rng.randint(1, 3)))
        call = ["do", [2], None]
    else:
        call = ["do", [0, 1], rng.choice([None, None, 1, 2])]
    main = gen_items(rng, 0, 0)[:2] + [call, ["wait"], ["W", 1 - o, p, 5], ["wait"]]
    beh = None if rng.random() < 0.5 else [["wait"], ["O", o, p, 170, False], ["wait"], ["W", 0, rng.randint(0, 2), 150]]
    fault = rng.choice(["none", "none", "none", "raise-main", "sim-step", "terminate-sim-main"])
    return history_dims(rng, dict(main=main, subs=subs, beh=beh, fault=fault, fault_pos=rng.randint(3, 8), fault_step=rng.randint(2, 5),
                                  raise_guard=True, directed="siblings", nsreq=False, mode2D=False), 0.3, 0.2)


def gen_program(rng, idx):
    if idx % 6 == 3:
        return gen_directed(rng)
    if idx % 6 == 5:
        return gen_siblings(rng)
    fault = rng.choice(FAULTS)
    forced_step = None
    if idx % 12 == 1:  # the simulator fails while creating the ego / the second object, after having written to it
        fault, forced_step = "sim-create", (idx // 12) % 2
    nsubs = rng.randint(0, 3)
    if fault in NEED_SUB:
        nsubs = max(nsubs, 1)
    subs = []
    for k in range(nsubs):
        # sub k may only invoke subs with larger index (no recursion)
        new = rng.choice([None, None, "plain", "beh"])
        if fault == "raise-dyn-specifier" and k == 0:
            new = "plain"
        setup = gen_items(rng, 1, 0, in_setup=True)
        comp = gen_items(rng, 1, nsubs, first_sub=k + 1, has_dyn=bool(new))
        sub = dict(setup=setup, compose=comp, new=new)
        if rng.random() < 0.4:
            # the scenario is stopped from outside (time limit) while its compose block - and possibly
            # sub-scenarios it invoked - is still running
            sub["term_after"] = rng.randint(1, 3)
            sub["compose"] = comp + [["wait"]] * 4
        subs.append(sub)
    main = gen_items(rng, 0, nsubs) + [["wait"]] + gen_items(rng, 0, nsubs)
    if fault in NEED_SUB and not any(it[0] == "do" and 0 in it[1] for it in main):
        main.insert(rng.randint(0, 1), ["do", [0], None])
    beh = None
    if rng.random() < 0.6 or fault in NEED_BEH:
        beh = gen_items(rng, 0, 0, in_beh=True)
    prog = dict(main=main, subs=subs, beh=beh, fault=fault, fault_pos=rng.randint(0, 6), fault_step=rng.randint(0, 3),
                raise_guard=rng.random() < 0.5, nsreq=rng.random() < 0.4, mode2D=rng.random() < 0.3)
    if forced_step is not None:
        prog["fault_step"] = forced_step
    return history_dims(rng, prog)


def fail_lines(kind):
    if kind == "raise":
        return ['rec("Fail")', 'raise RuntimeError("injected")']
    if kind == "reject":
        return ['rec("Fail")', "require False"]
    if kind == "terminate":
        return ["terminate"]
    if kind == "terminate-sim":
        return ["terminate simulation"]
    if kind == "base":
        return ['rec("Fail")', 'raise VC.Abort("injected")']
    raise ValueError(kind)


def emit_items(items, ind, fail=None, fail_pos=None, in_beh=False, applyto_fail=False):
    L = []
    pad = " " * ind
    for i, it in enumerate(items):
        if fail and fail_pos == i:
            L += [pad + l for l in fail_lines(fail)]
        if it[0] == "W":
            tgt, o = ("self", "idx(self)") if in_beh else (f"objs()[{it[1]}]", str(it[1]))
            L.append(f"{pad}{tgt}.{PROPS[it[2]]} = {it[3]} + 1000 * RUN()")
            L.append(f'{pad}rec("W", {o}, {it[2]}, {it[3]} + 1000 * RUN())')
        elif it[0] == "Wd":
            L.append(f"{pad}d.{PROPS[it[1]]} = {it[2]}")
            L.append(f'{pad}rec("W", idx(d), {it[1]}, {it[2]})')
        elif it[0] == "O":
            p2 = pad
            if it[4]:
                L.append(f"{pad}if RUN() == 0:")
                p2 = pad + "    "
            L.append(f"{p2}override objs()[{it[1]}] with {PROPS[it[2]]} {it[3]}")
            L.append(f'{p2}rec("O", cur(), {it[1]}, {it[2]}, {it[3]})')
        elif it[0] == "OB":
            L.append(f"{pad}override objs()[{it[1]}] with behavior B2")
            L.append(f'{pad}rec("O", cur(), {it[1]}, 4, 2)')
        elif it[0] == "N":
            L.append(f"{pad}G{it[1]} = {it[2]}")
            L.append(f'{pad}rec("N", {it[1]}, {it[2]})')
        elif it[0] == "A":
            L.append(f"{pad}take VC.SetAct(globals(), {it[1]}, {it[2]}, {applyto_fail and i >= (fail_pos or 0)})")
        elif it[0] == "wait":
            L.append(pad + "wait")
        elif it[0] == "do":
            call = ", ".join(f"Sub{k}(cur())" for k in it[1])
            L.append(f"{pad}do {call}" + (f" for {it[2]} {it[3] if len(it) > 3 else 'steps'}" if it[2] else ""))
            L.append(f'{pad}rec("Ret")')
    if fail and fail_pos is not None and fail_pos >= len(items):
        L += [pad + l for l in fail_lines(fail)]
    if not L:
        L.append(pad + "pass")
    return L


def to_scenic(prog):
    f = prog["fault"]
    fp, fs = prog["fault_pos"], prog["fault_step"]
    L = []
    if f == "compile-model-import":
        L.append("model verif_c14_nonexistent_model")
    L.append(PRELUDE)
    if f == "compile-syntax":
        L.append("behavior Broken():\n    take take take\n")
    if prog["beh"] is not None:
        L.append("behavior B():")
        if f == "guard":
            L.append("    invariant: self.baz < 1000")
        if f == "raise-precondition-beh":
            L.append("    precondition: boom(0) == 0")
        if f == "raise-invariant-beh":
            L.append(f"    invariant: boom({fs}) == 0")
        if f == "reject-invariant-beh":
            L.append(f"    invariant: rej({fs}) == 0")
        if f not in ("raise-interrupt-cond", "reject-interrupt-cond"):
            L.append("    global G0, G1")
        bf = {"raise-behavior": "raise", "reject-behavior": "reject", "terminate-sim-behavior": "terminate-sim",
              "base-behavior": "base"}.get(f)
        items = list(prog["beh"])
        if f == "raise-applyto" and not any(it[0] == "A" for it in items):
            items.append(["A", 0, 555])
        intr = f in ("raise-interrupt-cond", "reject-interrupt-cond")
        if intr:  # the body of a try-interrupt is compiled into a nested function: no global assignments there
            items = [it for it in items if it[0] != "N"]
        ind = 8 if intr else 4
        body = emit_items(items, ind, fail=bf, fail_pos=fp if bf else None, in_beh=True, applyto_fail=(f == "raise-applyto"))
        if f == "guard":
            body += [" " * ind + "self.baz = 5000", " " * ind + 'rec("W", idx(self), 2, 5000)', " " * ind + "wait"]
        body += [" " * ind + "while True:", " " * ind + "    wait"]
        if intr:
            cond = f"boom({fs}) > 0" if f == "raise-interrupt-cond" else f"rej({fs}) > 0"
            body = ["    try:"] + body + [f"    interrupt when {cond}:", "        wait"]
        L += body
    if f == "monitor":
        L += ["monitor M():", f"    for i in range({fs}):", "        wait", '    rec("Fail")', '    raise RuntimeError("injected in monitor")']
    for k, s in enumerate(prog["subs"]):
        L.append(f"scenario Sub{k}(par):")
        if f == "raise-precondition-sub" and k == 0:
            L.append("    precondition: boom(0) == 0")
        L.append("    setup:")
        L.append('        rec("Start", cur(), par)')
        if s.get("term_after"):
            L.append(f"        terminate after {s['term_after']} {s.get('term_unit', 'steps')}")
        if s.get("new"):
            y = "boom(0)" if (f == "raise-dyn-specifier" and k == 0) else "0"
            L.append(f"        d = new Object at (60 + 7 * len(objs()), {y}), with foo 21, with bar 22, with baz 23, with allowCollisions True"
                     + (", with behavior B2" if s["new"] == "beh" else ""))
            L.append("        VC.dyn.append(d)")
            L.append(f'        rec("C", idx(d), [21, 22, 23, 0, {2 if s["new"] == "beh" else 0}])')
        sf = {"raise-sub-setup": "raise", "base-sub-setup": "base"}.get(f) if k == 0 else None
        L += emit_items(s["setup"], 8, fail=sf, fail_pos=fp if sf else None)
        L.append('        rec("SetupDone", cur())')
        L.append("    compose:")
        sf = {"raise-sub-compose": "raise", "reject-sub": "reject", "terminate-sub": "terminate",
              "terminate-sim-sub": "terminate-sim"}.get(f) if k == 0 else None
        L += emit_items(s["compose"], 8, fail=sf, fail_pos=fp if sf else None)
    L.append("scenario Main():")
    tg = prog.get("top_guard")
    if tg == "pre":
        L.append("    precondition: FLAG() == 0")
    elif tg == "inv":
        L.append("    invariant: FLAG() == 0")
    elif tg == "inv-mid":
        L.append("    invariant: FLAG() == 0 or VC.now() < 2")
    L.append("    setup:")
    if prog.get("top_limit"):
        L.append(f"        terminate after {prog['top_limit'][0]} {prog['top_limit'][1]}")
    x0 = "boomc()" if f == "compile-raise" else "0"
    L.append(f"        ego = new Object at ({x0}, 0), with foo 1, with bar 2, with baz 3, with allowCollisions True" + (", with behavior B" if prog["beh"] is not None else ""))
    L.append("        other = new Object at (30, 0), with foo 11, with bar 12, with baz 13, with allowCollisions True")
    if f == "monitor":
        L.append("        require monitor M()")
    L.append("        record tick() as tk")
    L.append("        record final fin() as fn")
    if f == "record":
        L.append(f"        record boom({fs}) as r")
    if f == "raise-require":
        L.append(f"        require always boom({fs}) == 0")
    if f == "raise-terminate-when":
        L.append(f"        terminate when boom({fs}) > 0")
    if prog.get("nsreq"):
        L.append("        require always reqb() and G1 > 0")
    L.append("    compose:")
    mf = {"raise-main": "raise", "reject-main": "reject", "terminate-main": "terminate", "terminate-sim-main": "terminate-sim",
          "base-main": "base"}.get(f)
    L += emit_items(prog["main"], 8, fail=mf, fail_pos=fp if mf else None)
    L += ["        while True:", "            wait"]
    return "\n".join(L) + "\n"


# ---------------------------------------------------------------- probes: later use of the same process
PROBE_MAIN = PRELUDE + '''
behavior P():
    while True:
        take Range(0, 1)
        self.foo = DiscreteRange(0, 5) + G0
        rec("W", idx(self), 0, self.foo)
scenario SubP(par):
    setup:
        override objs()[1] with bar 40
    compose:
        wait
scenario Main():
    setup:
        ego = new Object at (Range(-1, 1), 0), with foo 1, with bar 2, with baz 3, with behavior P, with allowCollisions True
        other = new Object at (30, Range(1, 2)), with foo 11, with bar 12, with baz 13, with allowCollisions True
        require ego.position.x > -0.9
        require always G1 > 0
        record final fin() as fn
    compose:
        do SubP(cur())
        wait
        wait
'''

PROBE_HELPER = '''HG = DiscreteRange(10, 20)
behavior HB():
    while True:
        self.foo = HG
        take Range(0, 1)
'''

PROBE_IMPORT = "from verif_c14_helper import HB, HG\n" + PRELUDE + '''
scenario Main():
    setup:
        ego = new Object at (Range(-1, 1), 0), with foo 1, with bar 2, with baz 3, with behavior HB, with allowCollisions True
        other = new Object at (30, 0), with foo 11, with bar 12, with baz 13, with allowCollisions True
        record final ego.foo as f
    compose:
        wait
        wait
'''

PROBE_PARAMS = "param p = Range(0, 1)\nparam q = 3\n" + PRELUDE + '''
behavior PB():
    while True:
        self.foo = globalParameters.q
        rec("W", idx(self), 0, self.foo)
        wait
scenario Main():
    setup:
        ego = new Object at (globalParameters.p, 0), with foo 1, with bar 2, with baz 3, with behavior PB, with allowCollisions True
        other = new Object at (30, 0), with foo 11, with bar 12, with baz 13, with allowCollisions True
    compose:
        wait
        wait
'''

PROBE_INITIAL = PRELUDE + '''
scenario Main():
    setup:
        if initial scenario:
            ego = new Object at (Range(-1, 1), 0), with foo 1, with bar 2, with baz 3, with allowCollisions True
        other = new Object at (30, 0), with foo 11, with bar 12, with baz 13, with allowCollisions True
    compose:
        wait
'''

PROBE_BADCOMPILE = PRELUDE + '''
scenario Main():
    setup:
        ego = new Object at (boomc(), 0), with foo 1
        other = new Object at (30, 0)
    compose:
        wait
'''


def probes():
    return [
        dict(name="probe3d", probe=True, src=PROBE_MAIN, seed=4242, steps=6),
        dict(name="probe2d", probe=True, src=PROBE_MAIN, seed=4243, steps=6, mode2D=True),
        dict(name="probeimport", probe=True, file={"verif_c14_main.scenic": PROBE_IMPORT, "verif_c14_helper.scenic": PROBE_HELPER},
             main="verif_c14_main.scenic", seed=4244, steps=5),
        dict(name="probeparams", probe=True, src=PROBE_PARAMS, seed=4245, steps=5, params={"q": 5}),
        dict(name="probebadcompile", probe=True, src=PROBE_BADCOMPILE, seed=4246, steps=3),
        dict(name="probeinitial", probe=True, src=PROBE_INITIAL, seed=4248, steps=3),
        dict(name="probeimport2d", probe=True, file={"verif_c14_main.scenic": PROBE_IMPORT, "verif_c14_helper.scenic": PROBE_HELPER},
             main="verif_c14_main.scenic", seed=4247, steps=5, mode2D=True),
    ]


# ---------------------------------------------------------------- compile histories (round 3)
# A helper .scenic module with params, an object, a behaviour and a global; main programs that import it in three forms;
# bad programs that import it SUCCESSFULLY and then fail.  One history = good, bad, good (other params), good (other
# form), bad (other kind), good: every compilation must behave as in a fresh process.
CH_MOD = "verif_c14_h"
CH_HELPER = '''param hp = 1
param fromH = 'yes'
HG = DiscreteRange(10, 20)
behavior HB():
    while True:
        self.foo = HG + globalParameters.hp
        take Range(0, 1)
landmark = new Object at (20, 20), with foo globalParameters.hp, with bar 5, with baz 6, with allowCollisions True
'''
CH_FORMS = {"import": (f"import {CH_MOD}\n", f"{CH_MOD}.HB"), "from": (f"from {CH_MOD} import HB, HG\n", "HB"),
            "model": (f"model {CH_MOD}\n", "HB")}
CH_BODY = '''ego = new Object at (Range(-1, 1), 0), with foo 1, with bar 2, with baz 3, with behavior %s, with allowCollisions True
record final ego.foo as f
terminate after 3 steps
'''
CH_BAD = {
    "raise": (CH_BODY + 'raise RuntimeError("injected after the import")\n', None),
    "setup": ('scenario Main():\n    setup:\n        ego = new Object at (0, 0), with behavior %s\n        raise RuntimeError("injected in setup")\n', "Main"),
    "invalid": ('ego = new Object at (0, 0), at (1, 1), with behavior %s\n', None),
    "second-import": ('import verif_c14_nonexistent_module\n' + CH_BODY, None),
    "noego-require": (CH_BODY + 'require False\nrequire 1 / 0 > 0\nx = [][1]\n', None),
}


def compile_histories(rng, n):
    hs = []
    forms, bads = sorted(CH_FORMS), sorted(CH_BAD)
    for k in range(n):
        f1, f2 = rng.choice(forms), rng.choice(forms)
        b1, b2 = bads[(k + rng.randrange(len(bads))) % len(bads)], rng.choice(bads)

        def good(form, hp, mode2D):
            imp, hb = CH_FORMS[form]
            return dict(files={f"{CH_MOD}.scenic": CH_HELPER, "verif_c14_chmain.scenic": imp + CH_BODY % hb}, main="verif_c14_chmain.scenic",
                        params=({"hp": hp} if hp is not None else None), scenario=None, mode2D=mode2D, what=f"good:{form}:hp={hp}", seed=900 + k)

        def bad(form, kind, hp, mode2D):
            imp, hb = CH_FORMS[form]
            body, scen = CH_BAD[kind]
            return dict(files={f"{CH_MOD}.scenic": CH_HELPER, "verif_c14_chbad.scenic": imp + body % hb}, main="verif_c14_chbad.scenic",
                        params={"hp": hp}, scenario=scen, mode2D=mode2D, what=f"bad:{kind}:{form}:hp={hp}", expect_fail=True, seed=900 + k)
        m = rng.random() < 0.5
        ops = [good(f1, 3, m), bad(f1, b1, 7, m), good(f1, 5, m), good(f2, None, m), bad(f2, b2, 9, not m), good(f2, 4, not m), good(f1, 3, m)]
        hs.append(dict(name=f"chist{k}", chist=True, ops=ops, kinds=[b1, b2], forms=[f1, f2]))
    return hs


def rename_for_reference(h):
    """the same operations with a module name of its own per operation: no compilation can meet a module left by another"""
    import copy
    import json
    out = copy.deepcopy(h)
    for k, op in enumerate(out["ops"]):
        new = f"{CH_MOD}{k}x"
        op["files"] = {fn.replace(CH_MOD, new): txt.replace(CH_MOD, new) for fn, txt in op["files"].items()}
    return out
