"""Runs inside /venv python with Scenic from $VERIF_REPO.  JSON job on stdin, one JSON result on stdout.

kind=scripted : the REAL WeightedAcceptanceChecker driven with stub requirements (falsifiedBy follows a
                table) and time.perf_counter patched to a scripted clock of dyadic times.
kind=programs : compile generated programs, export object flags + the requirement list the code built,
                generate scenes and re-check every accepted scene directly (all pairs, no shortcuts)."""
import itertools
import json
import math
import random
import sys
import time
import traceback
import warnings

warnings.filterwarnings("ignore")

import numpy

TICK = 2.0 ** -20


# ------------------------------------------------------------------------------- scripted checker
def run_scripted(job):
    from scenic.core.requirements import BlanketCollisionRequirement, IntersectionRequirement, SamplingRequirement
    from scenic.core.sample_checking import BasicChecker, WeightedAcceptanceChecker

    class Stub(SamplingRequirement):
        def __init__(self, idx, optional):
            SamplingRequirement.__init__(self, optional=optional)
            self.idx = idx

        def falsifiedByInner(self, sample):
            return sample[self.idx]

        @property
        def violationMsg(self):
            return f"stub {self.idx}"

    class StubBlanket(Stub, BlanketCollisionRequirement):     # isinstance(...) is all BasicChecker looks at
        pass

    class StubInter(Stub, IntersectionRequirement):
        pass

    def run_basic(h):
        """the REAL BasicChecker over the same requirement table: verdict per step"""
        n = h["n"]
        reqs = []
        for i in range(n):
            cls = StubBlanket if i == h.get("blanket", -1) else (StubInter if h["inter"][i] else Stub)
            reqs.append(cls(i, bool(h["opt"][i])))
        ch = BasicChecker(bool(h["icc"]))
        ch.setRequirements(reqs)
        kept = [r.idx for r in ch.requirements]
        out = []
        for act, fals, _ in h["steps"][:60]:
            for r, a in zip(reqs, act):
                r.active = bool(a)
            res = ch.checkRequirements([bool(x) for x in fals])
            out.append("accept" if res is None else ("reject " + res[5:] if isinstance(res, str) and res.startswith("stub ") else "other:" + repr(res)[:60]))
        return dict(kept=kept, verdicts=out)

    clock = dict(t=1024.0, durs=[], calls=0)

    def fake_perf_counter():
        k = clock["calls"]
        clock["calls"] += 1
        j = k // 2
        d = clock["durs"][j] if j < len(clock["durs"]) else 0
        if k % 2 == 0:
            return clock["t"]
        clock["t"] += d * TICK
        v = clock["t"]
        clock["t"] += 3 * TICK  # gap between requirements
        return v

    real = time.perf_counter
    out = []
    try:
        time.perf_counter = fake_perf_counter
        for h in job["histories"]:
            B, n = h["B"], h["n"]
            reqs = [Stub(i, bool(h["opt"][i])) for i in range(n)]
            ch = WeightedAcceptanceChecker(bufferSize=B)
            ch.setRequirements(reqs)
            clock["t"] = 1024.0
            steps = []
            for act, fals, durs in h["steps"]:
                for r, a in zip(reqs, act):
                    r.active = bool(a)
                order = [r.idx for r in ch.sortedRequirements()]
                clock["durs"], clock["calls"] = durs, 0
                res = ch.checkRequirements([bool(x) for x in fals])
                if res is None:
                    verdict = "accept"
                elif isinstance(res, str) and res.startswith("stub "):
                    verdict = "reject " + res[5:]
                else:
                    verdict = "other:" + repr(res)[:80]
                sums = []
                for r in reqs:
                    a, t = ch.bufferSums[r]
                    tt = t / TICK
                    sums.append([int(a) if a == int(a) else repr(a), int(tt) if tt == int(tt) else repr(tt)])
                lens = [len(ch.buffers[r]) for r in reqs]
                steps.append(dict(order=order, verdict=verdict, sums=sums, calls=clock["calls"],
                                  lens_ok=all(l == B for l in lens)))
            out.append(steps)
    finally:
        time.perf_counter = real
    basic = [run_basic(h) if "inter" in h else None for h in job["histories"]]
    return dict(results=out, basic=basic)


# ------------------------------------------------------------------------------- real programs
def tri(v):
    from scenic.core.distributions import needsSampling
    if needsSampling(v):
        return 2
    return 1 if v else 0


def obb_overlap_depth(a, b):
    """Independent oracle for two boxes: separating-axis test on oriented boxes.
    Returns the minimal penetration over the 15 axes (<= 0: separated or touching)."""
    def frame(o):
        R = numpy.array(o.orientation.r.as_matrix() if hasattr(o.orientation, "r") else o.orientation.getRotation().as_matrix())
        c = numpy.array([o.position.x, o.position.y, o.position.z], dtype=float)
        h = numpy.array([o.width / 2, o.length / 2, o.height / 2], dtype=float)
        return c, R, h
    ca, Ra, ha = frame(a)
    cb, Rb, hb = frame(b)
    axes = [Ra[:, i] for i in range(3)] + [Rb[:, i] for i in range(3)]
    for i in range(3):
        for j in range(3):
            x = numpy.cross(Ra[:, i], Rb[:, j])
            nrm = numpy.linalg.norm(x)
            if nrm > 1e-9:
                axes.append(x / nrm)
    d = cb - ca
    best = math.inf
    for ax in axes:
        ra = sum(ha[i] * abs(numpy.dot(ax, Ra[:, i])) for i in range(3))
        rb = sum(hb[i] * abs(numpy.dot(ax, Rb[:, i])) for i in range(3))
        pen = ra + rb - abs(numpy.dot(ax, d))
        best = min(best, pen)
    return float(best)


# ------------------------------------------------------------------ independent exact geometry of accepted scenes
def _rot(o):
    return numpy.array(o.orientation.getRotation().as_matrix(), dtype=float)


def indep_geometry(o, spec_pieces):
    """The solid of an object as a list of convex vertex arrays, computed WITHOUT the fast-path attributes of the code
    under test (_isPlanarBox, _boundingPolygon, boundingBox...): boxes from position + orientation + dimensions, assemblies
    from the generator's piece list, other convex shapes from the vertices of the scaled, posed mesh."""
    from scenic.core.shapes import BoxShape
    R = _rot(o)
    pos = numpy.array([o.position.x, o.position.y, o.position.z], dtype=float)
    dims = numpy.array([o.width, o.length, o.height], dtype=float)
    if spec_pieces is not None:
        from c02_shapes import piece_corners
        cs, centre, ext = piece_corners(spec_pieces)
        return [((c - centre) * (dims / ext)) @ R.T + pos for c in cs], "assembly"
    if type(o.shape) is BoxShape:
        loc = numpy.array([[sx * dims[0] / 2, sy * dims[1] / 2, sz * dims[2] / 2] for sx in (-1, 1) for sy in (-1, 1) for sz in (-1, 1)])
        return [loc @ R.T + pos], "box"
    return [numpy.array(o.occupiedSpace.mesh.vertices, dtype=float)], "mesh"


def _seg_dist(px, py, ax, ay, bx, by):
    dx, dy = bx - ax, by - ay
    L2 = dx * dx + dy * dy
    t = 0.0 if L2 == 0 else max(0.0, min(1.0, ((px - ax) * dx + (py - ay) * dy) / L2))
    return math.hypot(px - (ax + t * dx), py - (ay + t * dy))


def outside_by(spec, x, y):
    """> 0: the point (x, y) lies outside the container by that distance; <= 0: inside (minus the distance to the boundary)"""
    k = spec["kind"]
    if k == "rect":
        return max(abs(x) - spec["w"] / 2, abs(y) - spec["w"] / 2)
    if k == "circle":
        return math.hypot(x, y) - spec["r"]
    pts = spec["pts"]
    inside = False
    d = math.inf
    for (ax, ay), (bx, by) in zip(pts, pts[1:] + pts[:1]):
        d = min(d, _seg_dist(x, y, ax, ay, bx, by))
        if (ay > y) != (by > y) and x < ax + (y - ay) * (bx - ax) / (by - ay):
            inside = not inside
    return -d if inside else d


def probe_points(pieces, gk):
    """points that certainly belong to the solid: the vertices, and for box-like pieces also points on all segments
    between two corners (needed for non-convex containers)"""
    out = []
    for P in pieces:
        out += [p for p in P]
        if gk in ("box", "assembly"):
            for i, j in itertools.combinations(range(len(P)), 2):
                for t in (0.25, 0.5, 0.75):
                    out.append(P[i] * (1 - t) + P[j] * t)
    return out


# ------------------------------------------------------------------ independent view geometry
def indep_camera(src):
    """camera position of an observer from its position, FULL global orientation and cameraOffset (Points have no offset)"""
    pos = numpy.array([src.position.x, src.position.y, src.position.z], dtype=float)
    R = _rot(src) if hasattr(src, "orientation") else numpy.eye(3)
    off = getattr(src, "cameraOffset", None)
    if off is not None:
        pos = pos + R @ numpy.array([off.x, off.y, off.z], dtype=float)
    return pos, R


def view_angles_of(src):
    va = getattr(src, "viewAngles", None)
    if va is None:
        return 2 * math.pi, math.pi
    return min(float(va[0]), 2 * math.pi), min(float(va[1]), math.pi)


def view_cert(src, centre, radius):
    """('in', margin) when the point `centre` is inside the observer's view volume by an angular / distance margin, ('out', margin)
    when the whole ball (centre, radius) is outside it, else (None, 0).  Spherical view volume: distance <= visibleDistance, azimuth
    (from the local +y axis) within +-h/2, altitude within +-v/2, in the frame of the true camera."""
    cam, R = indep_camera(src)
    h, v = view_angles_of(src)
    d = float(src.visibleDistance)
    w = R.T @ (numpy.array(centre, dtype=float) - cam)
    D = float(numpy.linalg.norm(w))
    if D < 1e-9:
        return None, 0.0
    az = math.atan2(w[1], w[0]) - math.pi / 2
    az = (az + math.pi) % (2 * math.pi) - math.pi
    alt = math.asin(max(-1.0, min(1.0, w[2] / D)))
    m_in = min(d - D, h / 2 - abs(az) if h < 2 * math.pi else math.inf, v / 2 - abs(alt) if v < math.pi else math.inf)
    if m_in > 1e-3:
        return "in", m_in
    if D - radius > d + 1e-6:
        return "out", D - radius - d
    if D > radius:
        rho = math.asin(radius / D)
        if abs(alt) - rho > v / 2 + 1e-3:
            return "out", abs(alt) - rho - v / 2
        if abs(alt) + rho < math.pi / 2 - 1e-6:
            daz = math.asin(min(1.0, math.sin(rho) / math.cos(alt)))
            if h < 2 * math.pi and abs(az) - daz > h / 2 + 1e-3 and h / 2 + daz < math.pi - 1e-3:
                return "out", abs(az) - daz - h / 2
    return None, 0.0


def segment_clear(a, b, balls):
    """no ball (centre, radius) comes within its radius of the segment a-b"""
    ab = b - a
    L2 = float(ab @ ab)
    for c, r in balls:
        t = 0.0 if L2 == 0 else max(0.0, min(1.0, float((c - a) @ ab) / L2))
        if float(numpy.linalg.norm(a + t * ab - c)) <= r + 1e-6:
            return False
    return True


def ball_of(o):
    V = numpy.array(o.occupiedSpace.mesh.vertices, dtype=float)
    c = numpy.array([o.position.x, o.position.y, o.position.z], dtype=float)
    return c, float(numpy.max(numpy.linalg.norm(V - c, axis=1)))


def indep_cansee(src, tgt, occluders):
    """the low-level visibility routine applied to the camera position computed here from the full orientation"""
    from scenic.core.object_types import Object
    from scenic.core.vectors import Vector
    from scenic.core.visibility import canSee
    if not isinstance(src, Object):
        return bool(src.canSee(tgt, occludingObjects=occluders))
    cam, _ = indep_camera(src)
    return bool(canSee(position=Vector(*[float(x) for x in cam]), orientation=src.orientation, visibleDistance=src.visibleDistance,
                       viewAngles=src.viewAngles, rayCount=src.viewRayCount, rayDensity=src.viewRayDensity,
                       distanceScaling=src.viewRayDistanceScaling, target=tgt, occludingObjects=occluders))


def run_program(job):
    import scenic
    from scenic.core.distributions import RejectionException, needsSampling
    from scenic.core.regions import AllRegion, convertToFootprint
    from scenic.core.requirements import (BlanketCollisionRequirement, ContainmentRequirement,
                                          IntersectionRequirement, NonVisibilityRequirement,
                                          VisibilityRequirement)
    from scenic.core.shapes import BoxShape
    from scenic.core.errors import InvalidScenarioError

    res = dict(name=job["name"])
    random.seed(job["seed"])
    numpy.random.seed(job["seed"])
    try:
        sc = scenic.scenarioFromString(job["src"], mode2D=job.get("mode2D", False))
    except InvalidScenarioError as e:
        res["skip"] = "InvalidScenarioError: " + str(e)[:120]
        return res
    insts = list(sc._instances)
    ident = {id(x): i for i, x in enumerate(insts)}
    objs = [ident[id(o)] for o in sc.objects]
    res["insts"] = list(range(len(insts)))
    res["objs"] = objs
    res["ego"] = ident[id(sc.egoObject)] if sc.egoObject is not None else -1
    flags = []
    for i, x in enumerate(insts):
        is_obj = i in objs
        if is_obj:
            c = getattr(x, "regionContainedIn", None)
            if c is None:
                c = sc.workspace.region
            cont = 0 if isinstance(c, AllRegion) else 1
            allow, occl, rv = tri(x.allowCollisions), tri(x.occluding), 1 if x.requireVisible else 0
        else:
            cont, allow, occl, rv = 0, 0, 0, 0
        obs = ident[id(x._observingEntity)] if x._observingEntity is not None else -1
        nobs = ident[id(x._nonObservingEntity)] if x._nonObservingEntity is not None else -1
        flags.append([i, allow, cont, obs, nobs, rv, occl])
    res["flags"] = flags
    # the requirement list the code built
    rl = []
    for r in sc.defaultRequirements:
        if isinstance(r, BlanketCollisionRequirement):
            rl.append("B " + (",".join(str(ident[id(o)]) for o in r.objects) or "-"))
        elif isinstance(r, IntersectionRequirement):
            rl.append(f"I {ident[id(r.objA)]} {ident[id(r.objB)]}")
        elif isinstance(r, ContainmentRequirement):
            rl.append(f"C {ident[id(r.obj)]}")
        elif isinstance(r, NonVisibilityRequirement):
            rl.append(f"N {ident[id(r.source)]} {ident[id(r.target)]} " + (",".join(str(ident[id(o)]) for o in r.potential_occluders) or "-"))
        elif isinstance(r, VisibilityRequirement):
            rl.append(f"V {ident[id(r.source)]} {ident[id(r.target)]} " + (",".join(str(ident[id(o)]) for o in r.potential_occluders) or "-"))
        else:
            rl.append("? " + type(r).__name__)
        if bool(r.optional) != isinstance(r, BlanketCollisionRequirement):
            rl[-1] += " optional=" + str(r.optional)
    res["reqs"] = rl
    res["n_checker_reqs"] = len(sc.checker.requirements)
    res["n_user"] = len(sc.userRequirements)
    if job.get("checker") in ("basic0", "basic1"):     # the other sample checker of the public API
        from scenic.core.sample_checking import BasicChecker
        sc.setSampleChecker(BasicChecker(job["checker"] == "basic1"))
    res["checker"] = type(sc.checker).__name__
    res["blanket_in_checker"] = any(isinstance(r, BlanketCollisionRequirement) for r in sc.checker.requirements)
    light = bool(job.get("light"))
    # scenes
    scenes = []
    budget = job.get("maxIterations", 300)   # total rejection-sampling iterations for this program
    t_start = time.time()
    for k in range(job.get("nscenes", 3)):
        if budget <= 0:
            break
        try:
            scene, its = sc.generate(maxIterations=budget, verbosity=0)
        except RejectionException:
            scenes.append(dict(exhausted=True))
            break
        except Exception as e:
            # 'not visible from' alone samples from a footprint difference region, which Scenic cannot
            # sample uniformly (outside this property: no scene is returned)
            if type(e).__name__ == "UndefinedSamplingException":
                scenes.append(dict(exhausted=True, unsampleable=True))
                break
            raise
        budget -= its
        so = list(scene.objects)
        n = len(so)
        bad = []
        checks = 0
        active = [bool(r.active) for r in sc.userRequirements]
        # ---- INDEPENDENT exact oracle (no call into the overlap / containment code under test)
        geo = [indep_geometry(o, (job.get("pieces") or {}).get(str(i))) for i, o in enumerate(so)]
        indep = dict(contain_checked=0, pairs_far=0, pairs_sep=0, pairs_close=0, pairs_overlap=0, geometry_ok=0)
        for i, o in enumerate(so):
            P, gk = geo[i]
            allv = numpy.concatenate(P)
            mb = numpy.array(o.occupiedSpace.mesh.bounds, dtype=float)
            dev = max(float(numpy.max(numpy.abs(allv.min(axis=0) - mb[0]))), float(numpy.max(numpy.abs(allv.max(axis=0) - mb[1]))))
            if gk != "mesh":
                if dev > 1e-5 * max(1.0, float(numpy.max(numpy.abs(mb)))):
                    bad.append(dict(kind="geometry", o=objs[i], what="occupiedSpace bounds differ from the independently computed solid", dev=dev))
                else:
                    indep["geometry_ok"] += 1
        cspec = job.get("containers")
        if cspec is not None:
            for i, o in enumerate(so):
                spec = cspec["objects"].get(str(i)) or cspec["workspace"]
                if spec is None:
                    continue
                indep["contain_checked"] += 1
                checks += 1
                worst, wp = -math.inf, None
                for p in probe_points(*geo[i]):
                    d = outside_by(spec, float(p[0]), float(p[1]))
                    if d > worst:
                        worst, wp = d, p
                if worst > 1e-6:
                    bad.append(dict(kind="containment-exact", o=objs[i], container=spec, outside_by=worst, point=[float(x) for x in wp],
                                    position=[float(x) for x in o.position], planar_box=bool(getattr(o, "_isPlanarBox", False))))
        import impl_c04
        for i, j in itertools.combinations(range(n), 2):
            a, b = so[i], so[j]
            if a.allowCollisions or b.allowCollisions:
                continue
            checks += 1
            PA, PB = geo[i][0], geo[j][0]
            VA, VB = numpy.concatenate(PA), numpy.concatenate(PB)
            ca, cb = VA.mean(axis=0), VB.mean(axis=0)
            ra, rb = float(numpy.max(numpy.linalg.norm(VA - ca, axis=1))), float(numpy.max(numpy.linalg.norm(VB - cb, axis=1)))
            if float(numpy.linalg.norm(ca - cb)) > ra + rb + 1e-9:
                indep["pairs_far"] += 1
                continue
            certs = [dict(impl_c04.pair_truth(A, B), i=x, j=y) for x, A in enumerate(PA) for y, B in enumerate(PB)]
            com = [t for t in certs if t["kind"] == "com"]
            if com:
                t = max(com, key=lambda t: t["margin"])
                indep["pairs_overlap"] += 1
                bad.append(dict(kind="overlap-exact", a=objs[i], b=objs[j], depth=t["margin"], cert=t, A=PA[t["i"]].tolist(), B=PB[t["j"]].tolist(),
                                positions=[[float(x) for x in a.position], [float(x) for x in b.position]],
                                impl_intersects=bool(a.intersects(b))))
            elif all(t["kind"] == "sep" for t in certs):
                indep["pairs_sep"] += 1
            else:
                indep["pairs_close"] += 1
        if light:      # long runs: only the independent oracle above
            scenes.append(dict(iterations=its, checks=checks, vis_checks=0, bad=bad, active=active, indep=indep,
                               pos=[[round(float(c), 3) for c in o.position] for o in so]))
            continue
        # pairwise overlap, all pairs
        for i, j in itertools.combinations(range(n), 2):
            a, b = so[i], so[j]
            if a.allowCollisions or b.allowCollisions:
                continue
            checks += 1
            direct = bool(a.occupiedSpace.intersects(b.occupiedSpace))
            meth = bool(a.intersects(b))
            pen = None
            if type(a.shape) is BoxShape and type(b.shape) is BoxShape:
                pen = obb_overlap_depth(a, b)
            if direct or meth or (pen is not None and pen > 1e-6):
                bad.append(dict(kind="overlap", a=objs[i], b=objs[j], direct=direct, method=meth, sat_penetration=pen))
        # containment
        for i, o in enumerate(so):
            c = getattr(o, "regionContainedIn", None)
            if c is None:
                c = convertToFootprint(scene.workspace.region)
            if isinstance(c, AllRegion):
                continue
            checks += 1
            if not c.containsObject(o):
                bad.append(dict(kind="containment", o=objs[i]))
            else:
                # independent: every corner of the bounding box lies in the container
                try:
                    corners = o.corners if hasattr(o, "corners") else []
                    if type(o.shape) is BoxShape:
                        for p in o.occupiedSpace.mesh.vertices:
                            if not c.containsPoint(tuple(p)) and c.distanceTo(tuple(p)) > 1e-6:
                                bad.append(dict(kind="containment", o=objs[i], vertex=[float(x) for x in p]))
                                break
                except Exception:   # containsPoint/distanceTo undefined for this region type: no independent answer
                    pass
        # visibility, with the occluders the property names: all occluding objects but source/target
        sidx = {id(o): i for i, o in enumerate(so)}

        def occl(src, tgt):
            return tuple(o for o in so if o is not src and o is not tgt and o.occluding)
        vis_n = 0

        def recheck_visibility(src, o, want, kind, i):
            """(a) the observer's own canSee with the occluders the property names; (b) the low-level routine from the camera position
            computed HERE (position + full orientation x cameraOffset); (c) certified geometry without any Scenic visibility code:
            target's bounding ball wholly outside the true view volume => not visible; centre inside it with margin and the sight
            line clear of every occluder's bounding ball => visible"""
            oc = occl(src, o)
            info = dict(target=objs[i], source=objs[sidx[id(src)]] if id(src) in sidx else -1, n_occluders=len(oc))
            got = bool(src.canSee(o, occludingObjects=oc))
            if got != want:
                bad.append(dict(info, kind=kind, cansee_without_occluders=bool(src.canSee(o))))
                return
            got2 = want if job.get("mode2D", False) else indep_cansee(src, o, oc)     # 2D observers use the sector test, not the ray caster
            indep["vis_indep_camera"] = indep.get("vis_indep_camera", 0) + (0 if job.get("mode2D", False) else 1)
            if got2 != want:
                cam, _ = indep_camera(src)
                bad.append(dict(info, kind=kind, how="camera position from the full orientation", camera=[float(x) for x in cam],
                                observer_position=[float(x) for x in src.position], camera_offset=[float(x) for x in getattr(src, "cameraOffset", (0, 0, 0))]))
                return
            try:
                c, r = ball_of(o)
                cert, margin = view_cert(src, c, r)
                if cert == "in" and not (o.containsPoint(o.position) and segment_clear(indep_camera(src)[0], c, [ball_of(x) for x in oc])):
                    cert = None
            except Exception:
                cert = None
            if cert is not None:
                indep["vis_certified_" + cert] = indep.get("vis_certified_" + cert, 0) + 1
                if (cert == "in") != want:
                    bad.append(dict(info, kind=kind, how="certified view geometry: " + ("centre inside the view volume, sight line clear" if cert == "in" else "bounding ball outside the view volume"), margin=margin))

        for i, o in enumerate(so):
            for attr, want, kind in (("_observingEntity", True, "visible"), ("_nonObservingEntity", False, "notvisible")):
                src = getattr(o, attr, None)
                if src is None:
                    continue
                checks += 1
                vis_n += 1
                recheck_visibility(src, o, want, kind, i)
            if o.requireVisible and o is not scene.egoObject:
                checks += 1
                vis_n += 1
                recheck_visibility(scene.egoObject, o, True, "requirevisible", i)
        # user requirements: the harness supplied a Python predicate for each (same order)
        for idx, (pred, act) in enumerate(zip(job.get("user_preds", []), active)):
            if not act:
                continue
            checks += 1
            env = dict(o=so, dist=lambda a, b: math.dist((a.position.x, a.position.y, a.position.z), (b.position.x, b.position.y, b.position.z)), P=scene.params)
            if not eval(pred, env):
                bad.append(dict(kind="user", index=idx, pred=pred))
        scenes.append(dict(iterations=its, checks=checks, vis_checks=vis_n, bad=bad, active=active, indep=indep,
                           pos=[[round(float(c), 3) for c in o.position] for o in so]))
    res["scenes"] = scenes
    if hasattr(sc.checker, "sortedRequirements"):
        try:
            res["blanket_sorted_in"] = any(isinstance(r, BlanketCollisionRequirement) for r in sc.checker.sortedRequirements())
        except Exception:
            pass
    res["wall"] = round(time.time() - t_start, 2)
    return res


def main():
    job = json.load(sys.stdin)
    if job["kind"] == "scripted":
        print(json.dumps(run_scripted(job)))
        return
    out = []
    for p in job["programs"]:
        try:
            out.append(run_program(p))
        except Exception as e:
            out.append(dict(name=p["name"], crash=type(e).__name__ + ": " + str(e)[:300],
                            tb=traceback.format_exc()[-1500:]))
    print(json.dumps(dict(results=out)))


if __name__ == "__main__":
    main()
