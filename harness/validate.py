"""Validate MANIFEST.json and evidence files against the schemas (run with python3-vt)."""
import json, sys, glob
import jsonschema
m = json.load(open('/verif/MANIFEST.json'))
jsonschema.validate(m, json.load(open('/root/.vp/MANIFEST.schema.json')))
es = json.load(open('/root/.vp/EVIDENCE.schema.json'))
for c in m['checks']:
    try:
        e = json.load(open('/verif/' + c['evidence_file']))
        jsonschema.validate(e, es)
        assert e['level'] == c['level_claimed']['category'], (c['property_id'], e['level'])
        print(c['property_id'], 'ok', e['tier'], e['wall_s'])
    except Exception as ex:
        print(c['property_id'], 'BAD', str(ex)[:300])
ids = {c['property_id'] for c in m['checks']} | {n['property_id'] for n in m.get('not_applicable', [])}
print('unlisted:', sorted({'C%02d' % i for i in range(1, 21)} - ids))
