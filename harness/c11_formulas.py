"""Formulas of the C11 check: abstract syntax, enumeration, and rendering to Scenic concrete syntax
following the temporal rules of scenic.gram (scenic_until > scenic_above_until > scenic_temporal_prefix /
scenic_implication > scenic_temporal_disjunction > scenic_temporal_conjunction > scenic_temporal_inversion >
scenic_temporal_group), so that precedence and every admitted parenthesisation are exercised.

AST: ('a', i) | ('!', p) | ('&', p, q) | ('|', p, q) | ('>', p, q) | ('X', p) | ('U', p, q) | ('F', p) | ('G', p)
"""

UNARY = ["!", "X", "F", "G"]
BINARY = ["&", "|", ">", "U"]
PREFIX = {"X": "next", "F": "eventually", "G": "always"}
TEMPORAL = {"X", "F", "G", "U"}


class Inexpressible(Exception):
    """the grammar admits no way of writing this tree (a temporal group directly before `implies`)"""


def tokens(f):
    k = f[0]
    if k == "a":
        return ["a%d" % f[1]]
    out = [k]
    for s in f[1:]:
        out += tokens(s)
    return out


def parse_tokens(toks):
    toks = list(toks)

    def rd():
        t = toks.pop(0)
        if t[0] == "a" and len(t) > 1:
            return ("a", int(t[1:]))
        if t in UNARY:
            return (t, rd())
        return (t, rd(), rd())
    return rd()


def depth(f):
    return 0 if f[0] == "a" else 1 + max(depth(s) for s in f[1:])


def atoms(f):
    if f[0] == "a":
        return {f[1]}
    s = set()
    for g in f[1:]:
        s |= atoms(g)
    return s


def ops(f):
    if f[0] == "a":
        return set()
    s = {f[0]}
    for g in f[1:]:
        s |= ops(g)
    return s


def is_temporal(f):
    return bool(ops(f) & TEMPORAL)


def plain_python(f):
    """and/or/not over atoms: also parses as an ordinary parenthesised Python expression"""
    return not (ops(f) - {"!", "&", "|"})


def shape(f):
    """structural facts used by the known-findings matchers (F5)"""
    below = [False]
    trhs = [False]

    def walk(g, under_temporal):
        k = g[0]
        if k == "a":
            return
        if k == "U":
            if under_temporal:
                below[0] = True
            if is_temporal(g[2]):
                trhs[0] = True
        for s in g[1:]:
            walk(s, under_temporal or k in TEMPORAL)
    walk(f, False)
    return dict(until_below_temporal=below[0], until_temporal_rhs=trhs[0], has_until="U" in ops(f),
                temporal=is_temporal(f), depth=depth(f), ops="".join(sorted(ops(f))))


def all_formulas(maxdepth, natoms):
    """every formula of depth <= maxdepth, smallest depth first, deterministic order"""
    levels = [[("a", i) for i in range(natoms)]]
    seen = list(levels[0])
    for d in range(1, maxdepth + 1):
        prev_all = list(seen)
        new = []
        last = levels[-1]
        lastset = set(last)
        for u in UNARY:
            for p in last:
                new.append((u, p))
        for b in BINARY:
            for p in prev_all:
                for q in prev_all:
                    if p in lastset or q in lastset:
                        new.append((b, p, q))
        levels.append(new)
        seen += new
    return seen


def random_formula(rng, d, natoms, temporal_bias=0.6):
    if d <= 0 or rng.random() < 0.12:
        return ("a", rng.randrange(natoms))
    if rng.random() < 0.45:
        u = rng.choice(UNARY if rng.random() < temporal_bias else ["!"] + UNARY)
        return (u, random_formula(rng, d - 1, natoms))
    b = rng.choice(BINARY)
    return (b, random_formula(rng, d - 1, natoms), random_formula(rng, d - 1, natoms))


# ----------------------------------------------------------------------------- rendering
# levels: 0 scenic_until, 1 scenic_above_until (implication or temporal prefix), 2 disjunction,
# 3 conjunction, 4 inversion, 5 atom.
LEVEL = {"U": 0, ">": 1, "|": 2, "&": 3, "!": 4, "a": 5}
GROUP_FOLLOW = {"until", "or", "and", ")", "end"}     # lookahead of scenic_temporal_group


def render(f, style="min", rng=None, atom=lambda i: "V(%d)" % i):
    """Scenic text of formula f.  style: 'min' (only the parentheses the grammar needs),
    'full' (every compound operand parenthesised where the grammar admits a group),
    'rand' (redundant parentheses at random, needs rng)."""

    def extra(g, follow):
        if g[0] == "a":
            return False
        if follow not in GROUP_FOLLOW and not plain_python(g):
            return False
        if style == "full":
            return True
        if style == "rand":
            return rng.random() < 0.35
        return False

    def paren(g, follow):
        if follow not in GROUP_FOLLOW and not plain_python(g):
            raise Inexpressible()
        return "(" + r(g, 0, True, ")", top=True) + ")"

    def r(g, lvl, tail, follow, top=False):
        """g in a position that needs level >= lvl; tail: a bare temporal prefix may end here;
        follow: the token after this sub-expression"""
        k = g[0]
        if k == "a":
            return atom(g[1])
        if not top and extra(g, follow):
            return paren(g, follow)
        if k in PREFIX:
            if not tail:
                return paren(g, follow)
            return PREFIX[k] + " " + r(g[1], 1, True, follow)
        if LEVEL[k] < lvl:
            return paren(g, follow)
        if k == "!":
            return "not " + r(g[1], 4, tail, follow)
        if k == "&":
            return r(g[1], 3, False, "and") + " and " + r(g[2], 4, tail, follow)
        if k == "|":
            return r(g[1], 2, False, "or") + " or " + r(g[2], 3, tail, follow)
        if k == ">":
            return r(g[1], 2, False, "implies") + " implies " + r(g[2], 2, tail, follow)
        if k == "U":
            return r(g[1], 1, True, "until") + " until " + r(g[2], 1, True, follow)
        raise ValueError(k)

    return r(f, 0, True, "end", top=True)
