"""C04 implementation side (runs inside /venv/bin/python with Scenic from $VERIF_REPO).
For each generated pair it records (1) what Scenic answers (Object.intersects, region.intersects,
Region.containsObject, minimumDistanceTo), (2) the answer of every internal shortcut of the cascade,
read from the same per-region quantities the code uses, and (3) ground truth WITH a certificate
computed here by linear programming on the convex pieces (validated later by the extracted Coq
checker on exact rationals)."""
import json
import math
import sys
import warnings

warnings.filterwarnings("ignore")
import numpy as np
import trimesh
from scipy.optimize import linprog, minimize


def vec(a):
    from scenic.core.vectors import Vector
    return Vector(*a)


# ------------------------------------------------------------------ construction
def piece_boxes_mesh(pieces, union):
    ms = []
    for p in pieces:
        m = trimesh.creation.box(extents=p["ext"])
        m.apply_translation(p["off"])
        ms.append(m)
    if union:
        return trimesh.boolean.union(ms, engine="manifold")
    return trimesh.util.concatenate(ms)


def f32(x):
    return float(np.float32(x))


def to_world(frame, local):
    centre, R, pos = frame
    return ((np.array(local, dtype=float) - centre) @ R.T + pos).tolist()


def make_obj(o, with_frame=False):
    obj, pieces, frame = make_obj_(o)
    return (obj, pieces, frame) if with_frame else (obj, pieces)


def indep_rotation(o):
    """global rotation matrix computed WITHOUT Scenic: parentOrientation composed with the object's own intrinsic yaw (Z), pitch (X),
    roll (Y)"""
    from scipy.spatial.transform import Rotation
    R = Rotation.from_euler("ZXY", [o.get("yaw", 0.0), o.get("pitch", 0.0), o.get("roll", 0.0)])
    if "parent" in o:
        R = Rotation.from_euler("ZXY", list(o["parent"])) * R
    return R.as_matrix()


def make_obj_(o):
    from scenic.core import shapes
    if "pieces" in o:   # manifold3d returns single-precision coordinates: keep the pieces exactly representable
        o = dict(o, pieces=[dict(ext=[f32(x) for x in p["ext"]], off=[f32(x) for x in p["off"]]) for p in o["pieces"]])
    from scenic.core.object_types import Object
    k = o["shape"]
    kw = dict(position=vec(o["pos"]), yaw=o.get("yaw", 0.0), pitch=o.get("pitch", 0.0), roll=o.get("roll", 0.0))
    if "parent" in o:
        from scenic.core.vectors import Orientation
        kw["parentOrientation"] = Orientation.fromEuler(*o["parent"])
    Ri = indep_rotation(o)
    if k in ("box", "cylinder", "cone", "spheroid"):
        sh = dict(box=shapes.BoxShape, cylinder=shapes.CylinderShape, cone=shapes.ConeShape, spheroid=shapes.SpheroidShape)[k]()
        kw.update(shape=sh, width=o["dims"][0], length=o["dims"][1], height=o["dims"][2])
        obj = Object._with(**kw)
        if np.max(np.abs(obj.orientation.getRotation().as_matrix() - Ri)) > 1e-9:
            raise RuntimeError("global orientation differs from parentOrientation * (yaw, pitch, roll)")
        pieces = [np.array(obj.occupiedSpace.mesh.vertices, dtype=float)]
        if k == "box":    # the solid of a box from position, rotation and dimensions alone
            d = o["dims"]
            loc = np.array([[sx * d[0] / 2, sy * d[1] / 2, sz * d[2] / 2] for sx in (-1, 1) for sy in (-1, 1) for sz in (-1, 1)])
            ind = loc @ Ri.T + np.array(o["pos"], dtype=float)
            mb = obj.occupiedSpace.mesh.bounds
            if np.max(np.abs(ind.min(axis=0) - mb[0])) > 1e-6 or np.max(np.abs(ind.max(axis=0) - mb[1])) > 1e-6:
                raise RuntimeError("occupiedSpace of a box differs from position + orientation + dimensions")
            pieces = [ind]
        frame = (np.zeros(3), Ri, np.array(o["pos"], dtype=float))
    else:  # "multi" (disjoint boxes, several bodies) or "lshape" (union of overlapping boxes, one body)
        mesh = piece_boxes_mesh(o["pieces"], union=(k == "lshape"))
        centre = mesh.bounding_box.center_mass.copy()
        obj = Object._with(shape=shapes.MeshShape(mesh), **kw)
        R = obj.orientation.getRotation().as_matrix()
        pos = np.array(o["pos"], dtype=float)
        pieces = []
        for p in o["pieces"]:
            m = trimesh.creation.box(extents=p["ext"])
            loc = np.array(m.vertices) + np.array(p["off"]) - centre
            pieces.append(loc @ R.T + pos)
        # sanity: the pieces' extent must be the mesh's extent
        allv = np.concatenate(pieces)
        mb = obj.occupiedSpace.mesh.bounds
        if np.max(np.abs(allv.min(axis=0) - mb[0])) > 1e-6 or np.max(np.abs(allv.max(axis=0) - mb[1])) > 1e-6:
            raise RuntimeError("pieces inconsistent with mesh")
        frame = (np.array(centre, dtype=float), R, pos)
    return obj, pieces, frame


def hrep(mesh):
    n = np.array(mesh.face_normals, dtype=float)
    d = np.einsum("ij,ij->i", n, np.array(mesh.triangles[:, 0], dtype=float))
    return n, d


def hrep_of_points(pts):
    hull = trimesh.convex.convex_hull(pts)
    return hrep(hull)


# ------------------------------------------------------------------ ground truth with certificates
def separate(A, B):
    """max-margin separating plane with |n|_inf <= 1; returns (margin, n, d)"""
    na, nb = len(A), len(B)
    c = [0, 0, 0, 0, -1.0]
    Aub = np.zeros((na + nb, 5))
    Aub[:na, :3] = A
    Aub[:na, 3] = -1
    Aub[:na, 4] = 1
    Aub[na:, :3] = -B
    Aub[na:, 3] = 1
    Aub[na:, 4] = 1
    r = linprog(c, A_ub=Aub, b_ub=np.zeros(na + nb), bounds=[(-1, 1)] * 3 + [(None, None), (None, 10)], method="highs")
    if r.status != 0:
        return 0.0, None, None
    return float(r.x[4]), r.x[:3].tolist(), float(r.x[3])


def deep_point(A, B):
    """Chebyshev centre of hull(A) ∩ hull(B): (depth, x)"""
    n1, d1 = hrep_of_points(A)
    n2, d2 = hrep_of_points(B)
    N = np.concatenate([n1, n2])
    D = np.concatenate([d1, d2])
    Aub = np.concatenate([N, np.ones((len(N), 1))], axis=1)
    r = linprog([0, 0, 0, -1.0], A_ub=Aub, b_ub=D, bounds=[(None, None)] * 3 + [(None, 100)], method="highs")
    if r.status != 0:
        return -1.0, None
    return float(r.x[3]), r.x[:3]


def weights(A, x):
    n = len(A)
    r = linprog(np.zeros(n), A_eq=np.concatenate([A.T, np.ones((1, n))]), b_eq=np.append(x, 1.0), bounds=[(0, None)] * n, method="highs")
    if r.status != 0:
        return None
    return np.maximum(r.x, 0).tolist()


def pair_truth(A, B, tol=1e-6):
    m, n, d = separate(A, B)
    if n is not None and m > 4 * tol:
        return dict(kind="sep", n=n, d=d, m=m / 2, margin=m)
    depth, x = deep_point(A, B)
    if x is not None and depth > 4 * tol:
        la, mu = weights(A, x), weights(B, x)
        if la is not None and mu is not None:
            return dict(kind="com", la=la, mu=mu, margin=depth)
    return dict(kind="close", margin=max(m, depth))


def gap_qp(A, B):
    """certified Euclidean gap between two small convex hulls: (lower, upper)"""
    na, nb = len(A), len(B)
    f = lambda w: float(np.sum((A.T @ w[:na] - B.T @ w[na:]) ** 2))
    g = lambda w: np.concatenate([2 * A @ (A.T @ w[:na] - B.T @ w[na:]), -2 * B @ (A.T @ w[:na] - B.T @ w[na:])])
    cons = [dict(type="eq", fun=lambda w: np.sum(w[:na]) - 1), dict(type="eq", fun=lambda w: np.sum(w[na:]) - 1)]
    w0 = np.concatenate([np.ones(na) / na, np.ones(nb) / nb])
    r = minimize(f, w0, jac=g, bounds=[(0, 1)] * (na + nb), constraints=cons, method="SLSQP", options=dict(maxiter=500, ftol=1e-16))
    w = np.maximum(r.x, 0)
    p = A.T @ (w[:na] / w[:na].sum())
    q = B.T @ (w[na:] / w[na:].sum())
    up = float(np.linalg.norm(p - q))
    if up == 0:
        return 0.0, 0.0
    n = (q - p) / up
    low = float(np.min(B @ n) - np.max(A @ n))
    return low, up


# ------------------------------------------------------------------ the cascade's own oracles
def intersect_oracles(a, b):
    import fcl
    from scenic.core.regions import EmptyRegion
    ra, rb = a.occupiedSpace, b.occupiedSpace
    o = {}
    cd = float(np.linalg.norm(np.array(ra.position) - np.array(rb.position)))
    o["centre_far"] = cd > ra._circumradius + rb._circumradius
    o["both_scaled"] = bool(ra._scaledShape and rb._scaledShape)
    if o["both_scaled"]:
        pd = float(np.linalg.norm(ra._interiorPoint - rb._interiorPoint))
        (ia, ca), (ib, cb) = ra._interiorPointRadii, rb._interiorPointRadii
        o["in_near"] = pd < ia + ib
        o["circ_far"] = pd > ca + cb
    else:
        o["in_near"] = o["circ_far"] = False
    ba, bb = ra.mesh.bounds, rb.mesh.bounds
    o["bbox_overlap"] = all(ba[0, k] <= bb[1, k] and bb[0, k] <= ba[1, k] for k in range(3))
    o["surf_collide"] = bool(fcl.collide(fcl.CollisionObject(*ra._fclData), fcl.CollisionObject(*rb._fclData)))
    o["a_convex"] = bool(ra.isConvex)
    o["b_convex"] = bool(rb.isConvex)
    o["single_bodies"] = bool(ra._bodyCount == 1 and rb._bodyCount == 1)
    o["a_has_b_point"] = bool(ra._containsPointExact(rb._interiorPoint))
    o["b_has_a_point"] = bool(rb._containsPointExact(ra._interiorPoint))
    o["bool_nonempty"] = not isinstance(ra.intersect(rb), EmptyRegion)
    o["both_planar_boxes"] = bool(a._isPlanarBox and b._isPlanarBox)
    o["z_apart"] = abs(a.position.z - b.position.z) > (a.height + b.height) / 2
    o["polys_intersect"] = bool(a._boundingPolygon.intersects(b._boundingPolygon))
    o["a_planar"], o["b_planar"] = bool(a._isPlanarBox), bool(b._isPlanarBox)
    return o


def tilt_of(o):
    """angle between the object's local z axis and the global one (independent of Scenic)"""
    return float(math.acos(max(-1.0, min(1.0, indep_rotation(o)[2, 2]))))


def bpoly_dev(obj, P, convex):
    """area of the symmetric difference between obj._boundingPolygon and the projected convex hull of the (independent) vertices;
    only for convex shapes (projection of a convex hull = hull of the projected vertices)"""
    if not convex:
        return None
    import shapely.geometry as sg
    hull = sg.MultiPoint([(float(p[0]), float(p[1])) for p in np.concatenate(P)]).convex_hull
    bp = obj._boundingPolygon
    # (the overlay of two polygons with nearly coincident edges is not robust: compare each with the other grown by 1e-7)
    eps = 1e-7
    return [float(bp.difference(hull.buffer(eps)).area + hull.difference(bp.buffer(eps)).area), float(hull.area)]


def run_pair(case):
    out = {}
    ca, cb = case["a"], case["b"]
    guest = None
    if "rel_local" in cb:      # nested family: the guest's position is given in the host's local frame
        a, PA, fr = make_obj(ca, with_frame=True)
        cb = dict(cb, pos=to_world(fr, cb["rel_local"]))
        out["guest_pos"] = cb["pos"]
        b, PB = make_obj(cb)
        guest = "b"
    elif "rel_local" in ca:
        b, PB, fr = make_obj(cb, with_frame=True)
        ca = dict(ca, pos=to_world(fr, ca["rel_local"]))
        out["guest_pos"] = ca["pos"]
        a, PA = make_obj(ca)
        guest = "a"
    else:
        a, PA = make_obj(ca)
        b, PB = make_obj(cb)
    try:
        out["obj_intersects"] = bool(a.intersects(b))
        out["obj_intersects_rev"] = bool(b.intersects(a))
        out["vol_intersects"] = bool(a.occupiedSpace.intersects(b.occupiedSpace))
        out["vol_intersects_rev"] = bool(b.occupiedSpace.intersects(a.occupiedSpace))
        out["min_dist"] = float(a.minimumDistanceTo(b))
        if guest:
            g, h = (b, a) if guest == "b" else (a, b)
            # passes 3/4 may draw random candidate points (numpy global generator): the verdict must not depend on them
            res = []
            for sd in (1, 2, 3):
                np.random.seed(sd)
                res.append(bool(h.occupiedSpace.containsObject(g)))
            out["host_contains_guest"] = res[0]
            out["host_contains_guest_all"] = res
    except Exception as e:
        out["exc"] = type(e).__name__ + ": " + str(e)[:200]
    if guest and "host_piece" in (cb if guest == "b" else ca):
        # strict-inside certificate: every vertex of the guest inside the half-spaces of ONE convex piece of the host, with slack
        PG, PH = (PB, PA) if guest == "b" else (PA, PB)
        j = (cb if guest == "b" else ca)["host_piece"]
        n, d = hrep_of_points(PH[j])
        allv = np.concatenate(PG)
        slack = float((d[None, :] - allv @ n.T).min())
        out["nested_cert"] = dict(j=j, n=n.tolist(), d=d.tolist(), slack=slack, verts=allv.tolist())
    try:
        out["oracles"] = intersect_oracles(a, b)
    except Exception as e:
        out["oracles_unavailable"] = type(e).__name__ + ": " + str(e)[:200]
    out["tilt"] = [tilt_of(ca), tilt_of(cb)]
    try:
        out["bpoly"] = [bpoly_dev(a, PA, "pieces" not in ca), bpoly_dev(b, PB, "pieces" not in cb)]
    except Exception as e:
        out["bpoly_unavailable"] = type(e).__name__ + ": " + str(e)[:200]
    # ground truth: overlap iff some pair of pieces overlaps; disjoint iff every pair is separated
    certs = []
    for i, A in enumerate(PA):
        for j, B in enumerate(PB):
            t = pair_truth(A, B)
            t.update(i=i, j=j)
            certs.append(t)
    out["pieces_a"] = [p.tolist() for p in PA]
    out["pieces_b"] = [p.tolist() for p in PB]
    com = [t for t in certs if t["kind"] == "com"]
    if com:
        out["truth"] = dict(overlap=True, certs=[max(com, key=lambda t: t["margin"])])
    elif all(t["kind"] == "sep" for t in certs):
        out["truth"] = dict(overlap=False, certs=certs)
        if len(PA) == 1 and len(PB) == 1 and len(PA[0]) + len(PB[0]) <= 16:
            out["gap"] = gap_qp(PA[0], PB[0])
    else:
        out["truth"] = dict(overlap=None, margin=min(abs(t["margin"]) for t in certs if t["kind"] == "close"))
    return out


# ------------------------------------------------------------------ containment
def make_container(cn):
    from scenic.core.regions import BoxRegion, MeshVolumeRegion, PolygonalRegion, SpheroidRegion
    from scenic.core.vectors import Orientation
    k = cn["kind"]
    if k in ("box", "spheroid", "notched"):
        rot = Orientation.fromEuler(cn.get("yaw", 0.0), cn.get("pitch", 0.0), cn.get("roll", 0.0))
        cls = SpheroidRegion if k == "spheroid" else BoxRegion
        outer = cls(position=vec(cn["pos"]), dimensions=tuple(cn["dims"]), rotation=rot)
        reg = outer
        notch_pts = None
        if k == "notched":
            notch = BoxRegion(position=vec(cn["notch_pos"]), dimensions=tuple(cn["notch_dims"]), rotation=rot)
            reg = outer.difference(notch)
            notch_pts = np.array(notch.mesh.vertices, dtype=float)
        n, d = hrep(outer.mesh)
        return reg, dict(n=n, d=d), notch_pts
    if k == "footprint":
        x0, y0, x1, y1 = cn["outer"]
        hx0, hy0, hx1, hy1 = cn["hole"]
        import shapely.geometry as sg
        poly = sg.Polygon([(x0, y0), (x1, y0), (x1, y1), (x0, y1)], holes=[[(hx0, hy0), (hx1, hy0), (hx1, hy1), (hx0, hy1)]])
        reg = PolygonalRegion(polygon=poly).footprint
        n = np.array([[-1, 0, 0], [1, 0, 0], [0, -1, 0], [0, 1, 0]], dtype=float)
        d = np.array([-x0, x1, -y0, y1], dtype=float)
        Z = 1e4
        notch_pts = np.array([[x, y, z] for x in (hx0, hx1) for y in (hy0, hy1) for z in (-Z, Z)], dtype=float)
        return reg, dict(n=n, d=d), notch_pts
    raise ValueError(k)


def contain_oracles(reg, obj):
    """the answers of containsObject's shortcuts (volume containers only)"""
    from scenic.core.regions import EmptyRegion
    o = {}
    rb, ob = reg.mesh.bounds, obj.occupiedSpace.mesh.bounds
    o["c_bbox_overlap"] = all(rb[0, k] <= ob[1, k] and ob[0, k] <= rb[1, k] for k in range(3))
    o["c_convex"] = bool(reg.isConvex)
    pq = trimesh.proximity.ProximityQuery(reg.mesh)
    o["c_bb_corners_in"] = bool(np.all(pq.signed_distance(obj.boundingBox.mesh.vertices) > 0))
    o["c_vertices_in"] = bool(np.all(pq.signed_distance(obj.occupiedSpace.mesh.vertices) > 0))
    o["c_have_obj_point"] = bool(obj.containsPoint(obj.position))   # otherwise a random sample: not replayed
    if o["c_have_obj_point"]:
        p = obj.position
        o["c_obj_point_in"] = bool(reg.containsPoint(p))
        circ = float(np.max(np.linalg.norm(obj.occupiedSpace.mesh.vertices - np.array(p), axis=1)))
        o["c_ball_fits"] = bool(abs(pq.signed_distance([p])[0]) > circ)
    else:
        o["c_obj_point_in"] = o["c_ball_fits"] = False
    cm = vec(reg.mesh.bounding_box.center_mass)
    o["c_have_reg_point"] = bool(reg.containsPoint(cm))
    if o["c_have_reg_point"]:
        rc = float(np.max(np.linalg.norm(reg.mesh.vertices - np.array(cm), axis=1)))
        om = float(np.max(np.linalg.norm(obj.occupiedSpace.mesh.vertices - np.array(cm), axis=1)))
        o["c_too_far"] = om > rc
    else:
        o["c_too_far"] = False
    o["c_diff_empty"] = isinstance(obj.occupiedSpace.difference(reg), EmptyRegion)
    o["replayable"] = o["c_convex"] or (o["c_have_obj_point"] and (o["c_have_reg_point"] or True))
    return o


def run_contain(case):
    obj, P = make_obj(case["obj"])
    reg, H, notch = make_container(case["container"])
    out = {}
    try:
        out["contains"] = bool(reg.containsObject(obj))
    except Exception as e:
        out["exc"] = type(e).__name__ + ": " + str(e)[:200]
    if case["container"]["kind"] != "footprint":
        try:
            out["oracles"] = contain_oracles(reg, obj)
        except Exception as e:
            out["oracles_unavailable"] = type(e).__name__ + ": " + str(e)[:200]
    else:
        try:
            out["foot"] = dict(f_convex=bool(obj._isConvex), f_poly_in=bool(reg.polygons.contains(obj._boundingPolygon)),
                               f_hull_in=bool(reg.polygons.contains(obj.occupiedSpace._boundingPolygonHull)))
        except Exception as e:
            out["oracles_unavailable"] = type(e).__name__ + ": " + str(e)[:200]
    out["tilt"] = tilt_of(case["obj"])
    try:
        out["planar"] = bool(obj._isPlanarBox)
        out["bpoly"] = bpoly_dev(obj, P, "pieces" not in case["obj"])
    except Exception as e:
        out["bpoly_unavailable"] = type(e).__name__ + ": " + str(e)[:200]
    allv = np.concatenate(P)
    slack = H["d"][None, :] - allv @ H["n"].T          # >= 0 inside
    tol = 1e-6
    out["H"] = dict(n=H["n"].tolist(), d=H["d"].tolist())
    out["pieces"] = [p.tolist() for p in P]
    out["notch"] = None if notch is None else notch.tolist()
    min_slack = float(slack.min())
    truth = dict(min_slack=min_slack)
    if min_slack < -4 * tol:
        vi, fi = np.unravel_index(int(np.argmin(slack)), slack.shape)
        truth.update(inside=False, why="vertex-outside", m=-min_slack / 2, worst=[int(fi), int(vi)])
    elif min_slack <= 4 * tol:
        truth.update(inside=None)
    else:
        truth.update(m=min_slack / 2)
        if notch is None:
            truth.update(inside=True, why="all-vertices-inside")
        else:
            certs = [dict(pair_truth(A, notch), i=i) for i, A in enumerate(P)]
            com = [t for t in certs if t["kind"] == "com"]
            if com:
                truth.update(inside=False, why="meets-notch", certs=[max(com, key=lambda t: t["margin"])])
            elif all(t["kind"] == "sep" for t in certs):
                truth.update(inside=True, why="inside-outer-clear-of-notch", certs=certs)
            else:
                truth.update(inside=None)
    out["truth"] = truth
    return out


# ------------------------------------------------------------------ history on one footprint region
def make_footprint(fp, flat_z=None):
    import shapely.geometry as sg
    from scenic.core.regions import PolygonalRegion
    x0, y0, x1, y1 = fp["outer"]
    hx0, hy0, hx1, hy1 = fp["hole"]
    poly = sg.Polygon([(x0, y0), (x1, y0), (x1, y1), (x0, y1)], holes=[[(hx0, hy0), (hx1, hy0), (hx1, hy1), (hx0, hy1)]])
    if flat_z is not None:
        return PolygonalRegion(polygon=poly, z=flat_z)
    return PolygonalRegion(polygon=poly).footprint


FLAT_DELTA = 1e-3


def flat_truth(P, rects, zp):
    """overlap of convex pieces with the FLAT polygon (strips `rects` at height zp): certified overlap = one piece and one strip with a
    deep common point both just above (strip x [zp, zp+d]) and just below (strip x [zp-d, zp]) the plane -- by convexity the segment
    between the two points meets the polygon; certified disjoint = every piece separated from every strip x [zp-d, zp+d]"""
    d = FLAT_DELTA
    box = lambda r, lo, hi: np.array([[x, y, z] for x in (r[0], r[2]) for y in (r[1], r[3]) for z in (lo, hi)], dtype=float)
    allsep = []
    for i, A in enumerate(P):
        for r in rects:
            up, dn = pair_truth(A, box(r, zp, zp + d), tol=1e-7), pair_truth(A, box(r, zp - d, zp), tol=1e-7)
            if up["kind"] == "com" and dn["kind"] == "com":
                return dict(overlap=True, certs=[dict(up, i=i, j=0), dict(dn, i=i, j=1)]), [box(r, zp, zp + d), box(r, zp - d, zp)]
            allsep.append((i, box(r, zp - d, zp + d)))
    certs, B = [], []
    for i, slab in allsep:
        t = pair_truth(P[i], slab)
        if t["kind"] != "sep":
            return dict(overlap=None), []
        certs.append(dict(t, i=i, j=len(B)))
        B.append(slab)
    return dict(overlap=False, certs=certs), B


def foot_query(q, obj, reg):
    if q == "obj":
        return bool(obj.intersects(reg))
    if q == "vol":
        return bool(obj.occupiedSpace.intersects(reg))
    return bool(reg.intersects(obj.occupiedSpace))


def run_foot_history(case):
    """one PolygonalFootprintRegion instance queried with a sequence of objects at different heights; every answer is given
    next to a FRESH region's answer and certified truth (the footprint = 4 convex strips around the hole, as tall as the object + 20)"""
    fp = case["footprint"]
    shared = make_footprint(fp)
    api = make_footprint(fp)
    x0, y0, x1, y1 = fp["outer"]
    hx0, hy0, hx1, hy1 = fp["hole"]
    rects = [(x0, y0, hx0, y1), (hx1, y0, x1, y1), (hx0, y0, hx1, hy0), (hx0, hy1, hx1, y1)]
    steps = []
    for st in case["steps"]:
        r = {}
        obj, P = make_obj(st["obj"])
        obj2, _ = make_obj(st["obj"])       # Object.intersects is cached per object: a second object for the fresh region
        if st["query"] == "flat":
            # the flat PolygonalRegion at height zp: Object.intersects (planar-box fast path when |z - zp| <= height/2) vs the
            # region-level test in both orders vs certified truth
            try:
                flat = make_footprint(fp, flat_z=st["zp"])
                r["shared"] = bool(obj.intersects(flat))
                r["fresh"] = bool(obj2.occupiedSpace.intersects(flat))
                r["rev"] = bool(flat.intersects(obj2.occupiedSpace))
                r["planar"] = bool(obj._isPlanarBox)
            except Exception as e:
                r["exc"] = type(e).__name__ + ": " + str(e)[:200]
            r["truth"], B = flat_truth(P, rects, st["zp"])
            r["pieces_a"] = [p.tolist() for p in P]
            r["pieces_b"] = [b.tolist() for b in B]
            steps.append(r)
            continue
        try:
            r["shared"] = foot_query(st["query"], obj, shared)
            r["fresh"] = foot_query(st["query"], obj2, make_footprint(fp))
            c = shared._bounded_cache
            r["cache"] = None if c is None else [float(c[0]), float(c[1])]
        except Exception as e:
            r["exc"] = type(e).__name__ + ": " + str(e)[:200]
        try:
            # the public method the overlap queries go through, called with the request they make (z-centre of the mesh, its
            # height + 1) on a third instance with the same history: z-extent of the region it hands out
            mb = obj.occupiedSpace.mesh.bounds
            cz, hz = float((mb[1][2] + mb[0][2]) / 2), float(mb[1][2] - mb[0][2] + 1)
            reg = api.approxBoundFootprint(cz, hz)
            r["req"] = [cz, hz]
            r["api_z"] = [float(reg.mesh.bounds[0][2]), float(reg.mesh.bounds[1][2])]
        except Exception as e:
            r["api_unavailable"] = type(e).__name__ + ": " + str(e)[:200]
        allv = np.concatenate(P)
        zlo, zhi = float(allv[:, 2].min()) - 10.0, float(allv[:, 2].max()) + 10.0
        strips = [np.array([[x, y, z] for x in (a, c_) for y in (b, d) for z in (zlo, zhi)], dtype=float) for a, b, c_, d in rects]
        certs = []
        for i, A in enumerate(P):
            for j, B in enumerate(strips):
                t = pair_truth(A, B)
                t.update(i=i, j=j)
                certs.append(t)
        r["pieces_a"] = [p.tolist() for p in P]
        r["pieces_b"] = [p.tolist() for p in strips]
        com = [t for t in certs if t["kind"] == "com"]
        if com:
            r["truth"] = dict(overlap=True, certs=[max(com, key=lambda t: t["margin"])])
        elif all(t["kind"] == "sep" for t in certs):
            r["truth"] = dict(overlap=False, certs=certs)
        else:
            r["truth"] = dict(overlap=None)
        steps.append(r)
    return dict(steps=steps)


def main():
    job = json.load(sys.stdin)
    fn = dict(pairs=run_pair, contain=run_contain, foothist=run_foot_history)[job["kind"]]
    results = []
    for case in job["cases"]:
        try:
            r = fn(case)
        except Exception as e:
            import traceback
            r = dict(crash=type(e).__name__ + ": " + str(e)[:300], tb=traceback.format_exc()[-800:])
        r["id"] = case["id"]
        results.append(r)
    print(json.dumps(dict(results=results), default=lambda x: x.item() if hasattr(x, "item") else str(x)))


if __name__ == "__main__":
    main()
