"""C09 — kernel-checked part of the grammar certificate: both regenerated rule tables as Gallina data (gen/C09Grammars.v);
the Coq kernel evaluates, per Python rule, `ext_check K tbl <scenic body> <python body>` (C09/Peg.v: the Scenic rule is the
Python rule with extra alternatives that all require a Scenic keyword - identical rules pass trivially) and `kw_consistent`.
The rules that FAIL ext_check (the residual, justified by hand in c09_grammar_cert.json) must be exactly the recorded ones."""
import json
import os
import re

import common


def has_cut(alt):
    return any(it[0] == "cut" for it in alt)


class Enc:
    def __init__(self, rule_ids):
        self.rules = rule_ids
        self.toks = {}

    def tok(self, s):
        return self.toks.setdefault(s, len(self.toks) + 1)

    def item(self, it, defined):
        k = it[0]
        if k in ("tok", "soft"):
            return f"PTok {self.tok(it[1])}%N"
        if k == "name":
            if it[1] in defined:
                return f"PRule {self.rules[it[1]]}%N"
            return f"PTok {self.tok('<' + it[1] + '>')}%N"
        if k in ("opt", "star", "plus", "pos", "neg", "forced"):
            return "(%s (%s))" % (dict(opt="POpt", star="PStar", plus="PPlus", pos="PPos", neg="PNeg", forced="PForced")[k], self.item(it[1], defined))
        if k == "gather":
            return f"(PGather ({self.item(it[1], defined)}) ({self.item(it[2], defined)}))"
        if k == "cut":
            return "PCut"
        if k == "group":
            alts = it[1]
            body = self.alts(alts, defined)
            if len(alts) == 1 and has_cut(alts[0]):
                return f"(PAlt ({body}) (PNeg PEps))"          # delimit the scope of the cut (Peg.v: every choice resets the flag)
            return "(" + body + ")"
        raise ValueError(k)

    def alt(self, alt, defined):
        if not alt:
            return "PEps"
        out = self.item(alt[-1], defined)
        for it in reversed(alt[:-1]):
            out = f"PSeq ({self.item(it, defined)}) ({out})"
        return out

    def alts(self, alts, defined):
        out = self.alt(alts[-1], defined)
        for a in reversed(alts[:-1]):
            out = f"PAlt ({self.alt(a, defined)}) ({out})"
        return out


def requires_kw(it_or_alt, K, tbl, rules, is_alt=False):
    if is_alt:
        return any(requires_kw(i, K, tbl, rules) for i in it_or_alt)
    it = it_or_alt
    k = it[0]
    if k in ("tok", "soft"):
        return it[1] in K
    if k == "name":
        return it[1] in tbl
    if k in ("plus", "forced"):
        return requires_kw(it[1], K, tbl, rules)
    if k == "gather":
        return requires_kw(it[2], K, tbl, rules)
    if k == "group":
        return all(requires_kw(a, K, tbl, rules, True) for a in it[1])
    return False



def first_pass_dead_rules(parser_path, rule_names):
    """`invalid_*` rules that cannot run in the parser's FIRST pass: pegen guards the call of an error rule that starts an alternative with
    `self.call_invalid_rules` (False in the first pass).  Read off the generated parser: an error rule is LIVE in the first pass iff some
    rule that is itself live calls it without the guard (e.g. `dict: '{' invalid_double_starred_kvpairs '}'`).  Everything else among the
    invalid_ rules always fails in the first pass.  Fail closed: returns None if the parser source does not have the expected shape."""
    import ast as _ast
    try:
        src = open(parser_path, encoding="utf-8").read()
        tree = _ast.parse(src)
    except (OSError, SyntaxError):
        return None
    lines = src.split("\n")
    unguarded = {}            # caller -> set of invalid_ rules it calls without guard
    seen_calls = 0
    for cls in [n for n in tree.body if isinstance(n, _ast.ClassDef)]:
        for fn in [n for n in cls.body if isinstance(n, _ast.FunctionDef)]:
            for node in _ast.walk(fn):
                if isinstance(node, _ast.Call) and isinstance(node.func, _ast.Attribute) and node.func.attr.startswith("invalid_") \
                        and isinstance(node.func.value, _ast.Name) and node.func.value.id == "self":
                    seen_calls += 1
                    ctx = " ".join(lines[max(0, node.lineno - 4):node.lineno])
                    if "call_invalid_rules" not in ctx:
                        unguarded.setdefault(fn.name, set()).add(node.func.attr)
    if seen_calls == 0:
        return None
    inv = {n for n in rule_names if n.startswith("invalid_")}
    live = set()
    for caller, callees in unguarded.items():
        if not caller.startswith("invalid_"):
            live |= callees
    changed = True
    while changed:
        changed = False
        for caller in list(live):
            for x in unguarded.get(caller, ()):
                if x not in live:
                    live.add(x); changed = True
    return inv - live


def run(c, g, nz, cert):
    S, P = g["scenic"]["rules"], g["python"]["rules"]
    S = {n: dict(r, alts=nz(r["alts"])) for n, r in S.items()}
    P = {n: dict(r, alts=nz(r["alts"])) for n, r in P.items()}
    names = list(g["python"]["order"]) + [n for n in g["scenic"]["order"] if n not in P]
    ids = {n: i + 1 for i, n in enumerate(names)}
    enc = Enc(ids)

    def lits(rules):
        out = set()

        def walk(it):
            if it[0] in ("tok", "soft"):
                out.add(it[1])
            elif it[0] in ("opt", "star", "plus", "pos", "neg", "forced"):
                walk(it[1])
            elif it[0] == "gather":
                walk(it[1]); walk(it[2])
            elif it[0] == "group":
                for a in it[1]:
                    for i in a:
                        walk(i)
        for r in rules.values():
            for a in r["alts"]:
                for i in a:
                    walk(i)
        return out
    K = sorted(l for l in lits(S) - lits(P) if l[1:-1].replace("_", "a").isalnum())      # keywords (hard and soft) only Scenic uses
    # FIRST-PASS grammars: an error rule that cannot run in the first pass (the pass that decides acceptance of a valid program) gets the
    # body `!() 'kw'`, i.e. it always fails (and vacuously "requires a keyword"); the same body on both sides
    dead = first_pass_dead_rules(os.path.join(common.REPO, "src/scenic/syntax/parser.py"), set(S) | set(P))
    if dead is None:
        c.violation("grammar-cert", "the generated parser does not show which error rules are guarded by call_invalid_rules (fail closed)",
                    dict(rule="<kernel>", cls="kernel"), no_input=True)
        dead = set()
    fail_body = [[["neg", ["group", [[]]]], ["tok", K[0]]]] if K else None
    if fail_body:
        for n in dead:
            if n in S:
                S[n] = dict(S[n], alts=fail_body)
            if n in P:
                P[n] = dict(P[n], alts=fail_body)
    c.cov.setdefault("kernel_cert_first_pass", dict(error_rules_failing_in_first_pass=len(dead), live_error_rules=sorted(n for n in (set(S) | set(P)) if n.startswith("invalid_") and n not in dead)))
    # greatest table of rules all of whose successes consume a keyword of K
    tbl = set(S)
    changed = True
    while changed:
        changed = False
        for n in sorted(tbl):
            if not all(requires_kw(a, set(K), tbl, S, True) for a in S[n]["alts"]):
                tbl.discard(n); changed = True
    gs = ";\n  ".join(f"({ids[n]}%N, {enc.alts(S[n]['alts'], S)})" for n in g["scenic"]["order"])
    gp = ";\n  ".join(f"({ids[n]}%N, {enc.alts(P[n]['alts'], P)})" for n in g["python"]["order"])
    Kc = "[" + "; ".join(f"{enc.tok(k)}%N" for k in K) + "]"
    tc = "[" + "; ".join(f"{ids[n]}%N" for n in g["scenic"]["order"] if n in tbl) + "]"
    text = ("From Coq Require Import NArith List Bool.\nFrom Scenic Require Import C10.PEG C09.Peg C09.PegProofs.\nImport ListNotations.\n"
            f"Definition Gs : grammar := [\n  {gs}\n].\nDefinition Gp : grammar := [\n  {gp}\n].\n"
            f"Definition K : list N := {Kc}.\nDefinition tbl : list N := {tc}.\n"
            "Lemma Gs_kw_consistent : kw_consistent Gs K tbl = true. Proof. vm_compute. reflexivity. Qed.\n"
            "(* hence: no rule of tbl and no alternative flagged by requires_kw can succeed on a token stream free of Scenic keywords *)\n"
            "Theorem scenic_only_rules_need_keyword : forall LR r s, memN r tbl = true -> kwfree K s = true -> forall fuel s', peglr fuel Gs LR (PRule r) s <> Some (Some s').\n"
            "Proof. intros LR r s Hr Hk. apply (requires_kw_sound_lr Gs K tbl LR (PRule r) s Gs_kw_consistent); [exact Hr|exact Hk]. Qed.\n"
            "Definition residual : list N := map fst (filter (fun re => match lookup Gs (fst re) with Some es => negb (ext_check K tbl es (snd re) && refs_defined Gp (snd re)) | None => true end) Gp).\n"
            "Eval vm_compute in residual.\n")
    ok, out = common.run_coq_cases("C09Grammars", text, timeout=900)
    inv = {v: k for k, v in ids.items()}
    m = re.search(r"= \[([^\]]*)\]\s*:\s*list N", out.replace("\n", " "))
    kres = None
    if ok and m is not None:
        kres = sorted(inv[int(x.strip().rstrip("%N"))] for x in m.group(1).split(";") if x.strip())
    c.cov["kernel_cert"] = dict(kernel_checked=ok, scenic_keywords=[k[1:-1] for k in K], keyword_requiring_rules=len(tbl),
                                python_rules=len(P), residual=kres,
                                kernel_certified_extension_rules=(len(P) - len(kres)) if kres is not None else None)
    if not ok or kres is None:
        c.violation("grammar-cert", "the kernel could not evaluate the certificate over the regenerated grammar tables (kw_consistent fails or the file does not compile)",
                    dict(rule="<kernel>", cls="kernel", log=out[-1200:]), no_input=True)
        return
    want = sorted(cert.get("kernel_residual", []))
    if kres != want:
        c.violation("grammar-cert", "the set of Python rules that are NOT keyword-guarded extensions in scenic.gram (kernel-evaluated ext_check) differs from the recorded, hand-justified residual",
                    dict(rule="<kernel-residual>", cls="kernel-residual", now=kres, recorded=want, new=sorted(set(kres) - set(want)), gone=sorted(set(want) - set(kres))))
