"""C16/C03 implementation driver: runs inside /venv/bin/python with Scenic from $VERIF_REPO.
JSON in (stdin), JSON out (last stdout line).  kinds:
  dispatch : probe the double-dispatch protocol of intersect/intersects/union/difference for
             every ordered pair of region classes under a call tracer
  pairs    : build operand pairs from specs, apply the operations, observe memberships,
             distances, AABBs, intersects, containsRegion at probe points
"""
import json
import math
import sys
import warnings

warnings.filterwarnings("ignore")

import numpy
import shapely
import shapely.geometry
import trimesh

import scenic.core.regions as R
from scenic.core.distributions import Range
from scenic.core.vectors import Orientation, Vector

OPS = ["intersect", "intersects", "union", "difference"]


# ------------------------------------------------------------------------------ construction
def build(spec, lazy=False):
    k = spec["kind"]
    if k == "everywhere":
        return R.everywhere
    if k == "nowhere":
        return R.nowhere
    if k in ("box", "spheroid", "meshvol", "meshsurf"):
        rot = Orientation.fromEuler(*spec["rot"])
        pos = Vector(*spec["pos"])
        if lazy:
            pos = Vector(Range(spec["pos"][0], spec["pos"][0]), spec["pos"][1], spec["pos"][2])
        kw = dict(dimensions=tuple(spec["dims"]), position=pos, rotation=rot)
        if k == "box":
            return R.BoxRegion(**kw)
        if k == "spheroid":
            return R.SpheroidRegion(**kw)
        if k == "meshvol":
            return R.MeshVolumeRegion(mesh=base_mesh(spec["shape"]), **kw)
        return R.MeshSurfaceRegion(mesh=base_mesh(spec["shape"]), **kw)
    if k == "polygon":
        poly = shapely.geometry.Polygon(spec["pts"], spec.get("holes") or None)
        z = Range(spec["z"], spec["z"]) if lazy else spec["z"]
        return R.PolygonalRegion(polygon=poly, z=z)
    if k == "footprint":
        return R.PolygonalFootprintRegion(shapely.geometry.Polygon(spec["pts"], spec.get("holes") or None))
    if k == "polyfoot":      # the (cached) footprint of a polygonal region
        return R.PolygonalRegion(polygon=shapely.geometry.Polygon(spec["pts"], spec.get("holes") or None), z=spec.get("z", 0)).footprint
    if k == "circle":
        r = Range(spec["r"], spec["r"]) if lazy else spec["r"]
        return R.CircularRegion(Vector(*spec["center"]), r)
    if k == "sector":
        r = Range(spec["r"], spec["r"]) if lazy else spec["r"]
        return R.SectorRegion(Vector(*spec["center"]), r, spec["heading"], spec["angle"])
    if k == "rect":
        w = Range(spec["w"], spec["w"]) if lazy else spec["w"]
        return R.RectangularRegion(Vector(*spec["pos"]), spec["heading"], w, spec["l"])
    if k == "polyline":
        return R.PolylineRegion(points=[tuple(p) for p in spec["pts"]])
    if k == "path":
        return R.PathRegion(points=[tuple(p) for p in spec["pts"]])
    if k == "pointset":
        return R.PointSetRegion("ps", [tuple(p) for p in spec["pts"]])
    if k == "grid":
        return R.GridRegion("grid", spec["grid"], spec["Ax"], spec["Ay"], spec["Bx"], spec["By"])
    raise ValueError(k)


_MESHES = {}


def base_mesh(shape):
    if shape not in _MESHES:
        if shape == "cyl":
            m = trimesh.creation.cylinder(radius=1, height=1, sections=12)
        elif shape == "L":
            poly = shapely.geometry.Polygon([(0, 0), (2, 0), (2, 1), (1, 1), (1, 2), (0, 2)])
            m = trimesh.creation.extrude_polygon(poly, 1.0)
        elif shape == "U":
            poly = shapely.geometry.Polygon([(0, 0), (3, 0), (3, 2), (2, 2), (2, 1), (1, 1), (1, 2), (0, 2)])
            m = trimesh.creation.extrude_polygon(poly, 1.0)
        else:
            m = trimesh.creation.box((1, 1, 1))
        _MESHES[shape] = m
    return _MESHES[shape].copy()


def can_be_lazy(spec):
    return spec["kind"] in ("box", "spheroid", "polygon", "circle", "sector", "rect")


# ------------------------------------------------------------------------------ independent geometry
def rotmat(spec):
    yaw, pitch, roll = spec["rot"]
    # Scenic: intrinsic ZXY (yaw about z, pitch about x, roll about y)
    from scipy.spatial.transform import Rotation
    return Rotation.from_euler("ZXY", [yaw, pitch, roll]).as_matrix()


def local_coords(spec, p):
    M = rotmat(spec)
    d = numpy.array(p, dtype=float) - numpy.array(spec["pos"], dtype=float)
    return M.T @ d


def truth_and_clearance(spec, reg, p):
    """Independent (formula / third-party kernel) membership of point p in the operand and a
    lower bound of its distance to the operand's boundary.  membership None = no independent
    oracle.  Returns (member, clearance, info)."""
    k = spec["kind"]
    x, y, z = p
    if k == "everywhere":
        return True, 1e9, {}
    if k == "nowhere":
        return False, 1e9, {}
    if k == "box":
        u = local_coords(spec, p)
        h = numpy.array(spec["dims"]) / 2
        gaps = numpy.abs(u) - h
        return bool((gaps <= 0).all()), float(numpy.min(numpy.abs(gaps))), dict(local=[float(t) for t in u])
    if k == "spheroid":
        u = local_coords(spec, p)
        h = numpy.array(spec["dims"]) / 2
        s = math.sqrt(float(((u / h) ** 2).sum()))
        # the region is an icosphere mesh: stay 4 % (in the normalised radius) from the surface
        return s <= 1, (abs(s - 1) - 0.04) * float(h.min()), dict(local=[float(t) for t in u])
    if k in ("meshvol", "meshsurf"):
        mesh = reg.mesh
        sd = _SD.get((id(reg), tuple(p)))
        if sd is None:
            sd = float(trimesh.proximity.ProximityQuery(mesh).signed_distance([list(p)])[0])
        if k == "meshvol":
            return sd > 0, abs(sd), {}
        return None if abs(sd) < 1e-3 else False, abs(sd), {}
    if k in ("polygon", "footprint", "polyfoot", "rect"):
        poly = reg.polygons
        pt = shapely.geometry.Point(x, y)
        inside = bool(poly.contains(pt))
        return inside, float(poly.boundary.distance(pt)), {}
    if k in ("circle", "sector"):
        cx, cy, cz = spec["center"]
        rho = math.hypot(x - cx, y - cy)
        Rr = spec["r"]
        inplane = (z == cz)
        clr = abs(rho - Rr) - 2e-3 * Rr      # polygonal approximation used by footprints
        mem = rho <= Rr
        info = dict(rho=rho, inplane=inplane)
        if k == "sector":
            a = math.atan2(y - cy, x - cx) - (spec["heading"] + math.pi / 2)
            while a > math.pi:
                a -= math.tau
            while a < -math.pi:
                a += math.tau
            half = spec["angle"] / 2
            mem = mem and abs(a) <= half
            info["va"] = a
            if spec["angle"] < math.tau - 0.001:
                clr = min(clr, abs(abs(a) - half) * max(rho, 1e-9) - 1e-3 * Rr, rho - 1e-3,
                          (math.pi - abs(a)) * max(rho, 1e-9) - 1e-3)
        # footprint (2-D) membership and strict (own containsPoint) membership
        info["foot"] = mem
        if not inplane:
            clr = min(clr, abs(z - cz)) if False else clr
        return (mem and inplane), clr, info
    if k == "polyline":
        ls = reg.lineString
        d2 = float(ls.distance(shapely.geometry.Point(x, y)))
        d = math.hypot(d2, z)
        return None if d < 1e-3 else False, d, {}
    if k == "path":
        pts = numpy.array(spec["pts"], dtype=float)
        best = 1e18
        q = numpy.array(p, dtype=float)
        for a, b in zip(pts[:-1], pts[1:]):
            t = float(numpy.dot(q - a, b - a) / numpy.dot(b - a, b - a))
            t = min(1.0, max(0.0, t))
            best = min(best, float(numpy.linalg.norm(a + t * (b - a) - q)))
        return None if best < 1e-3 else False, best, dict(dist=best)
    if k == "pointset":
        pts = numpy.array(spec["pts"], dtype=float)
        if pts.shape[1] == 2:
            pts = numpy.hstack([pts, numpy.zeros((len(pts), 1))])
        d = float(numpy.min(numpy.linalg.norm(pts - numpy.array(p, dtype=float), axis=1)))
        return d <= 1e-6, abs(d - 1e-6), dict(dist=d)
    if k == "grid":
        fx = (x - spec["Bx"]) / spec["Ax"]
        fy = (y - spec["By"]) / spec["Ay"]
        clr = min(abs(fx - math.floor(fx) - 0.5) * abs(spec["Ax"]), abs(fy - math.floor(fy) - 0.5) * abs(spec["Ay"]))
        nx, ny = int(round(fx)), int(round(fy))
        g = spec["grid"]
        mem = 0 <= ny < len(g) and 0 <= nx < len(g[0]) and g[ny][nx] == 0
        return bool(mem), clr, {}
    raise ValueError(k)


_SD = {}


def precompute_sd(spec, reg, probes):
    """signed distances of all probes to a mesh operand in one query (independent oracle: trimesh proximity)"""
    if spec["kind"] in ("meshvol", "meshsurf"):
        sd = trimesh.proximity.ProximityQuery(reg.mesh).signed_distance([list(p) for p in probes])
        for p, d in zip(probes, sd):
            _SD[(id(reg), tuple(p))] = float(d)
    _KEEP.append(reg)


_KEEP = []


def fl(v):
    try:
        v = float(v)
    except Exception:
        return None
    if math.isnan(v):
        return "nan"
    if math.isinf(v):
        return "inf" if v > 0 else "-inf"
    return v


def obs(f):
    try:
        v = f()
    except RecursionError:
        return dict(exc="RecursionError")
    except BaseException as e:  # noqa
        return dict(exc=type(e).__name__, msg=str(e)[:120])
    return dict(v=v)


def aabb_of(reg):
    o = obs(lambda: reg.AABB)
    if "v" in o:
        try:
            lo, hi = o["v"]
            return dict(v=[[float(t) for t in lo], [float(t) for t in hi]])
        except Exception as e:
            return dict(exc="bad-aabb:" + type(e).__name__)
    return o


# ------------------------------------------------------------------------------ pairs
def run_pair(job):
    out = dict(id=job["id"])
    sys.setrecursionlimit(400)
    try:
        lazyA, lazyB = job.get("lazyA", False), job.get("lazyB", False)
        A0, B0 = build(job["A"]), build(job["B"])
        out["classes"] = [type(A0).__name__, type(B0).__name__]
        probes = [tuple(p) for p in job["probes"]]
        vec = [Vector(*p) for p in probes]
        ta, tb = [], []
        precompute_sd(job["A"], A0, probes)
        precompute_sd(job["B"], B0, probes)
        for p in probes:
            m, c, info = truth_and_clearance(job["A"], A0, p)
            ta.append([m, c, info])
            m, c, info = truth_and_clearance(job["B"], B0, p)
            tb.append([m, c, info])
        out["truthA"], out["truthB"] = ta, tb
        out["memA"] = [obs(lambda v=v: bool(A0.containsPoint(v))) for v in vec]
        out["memB"] = [obs(lambda v=v: bool(B0.containsPoint(v))) for v in vec]
        out["distA"] = [obs(lambda v=v: fl(A0.distanceTo(v))) for v in vec]
        out["distB"] = [obs(lambda v=v: fl(B0.distanceTo(v))) for v in vec]
        out["aabbA"], out["aabbB"] = aabb_of(A0), aabb_of(B0)
        out["sizeA"] = obs(lambda: fl(A0.size))
        out["dimA"] = obs(lambda: fl(A0.dimensionality))
        res = {}
        for op in job["ops"]:
            r = dict()
            if lazyA or lazyB:
                A = build(job["A"], lazy=lazyA and can_be_lazy(job["A"]))
                B = build(job["B"], lazy=lazyB and can_be_lazy(job["B"]))
            else:
                A, B = A0, B0
            sys.setrecursionlimit(400)
            if op == "intersects_rev":
                o = obs(lambda: B.intersects(A))
            else:
                o = obs(lambda: getattr(A, op)(B))
            sys.setrecursionlimit(3000)
            if "exc" in o:
                r["exc"] = o["exc"]
                r["msg"] = o.get("msg")
                res[op] = r
                continue
            v = o["v"]
            if op in ("intersects", "intersects_rev"):
                from scenic.core.distributions import needsSampling as _ns
                if _ns(v):
                    o2 = obs(lambda: v.sample())
                    if "exc" in o2:
                        r["exc"] = "sample:" + o2["exc"]
                        res[op] = r
                        continue
                    v = o2["v"]
                r["value"] = bool(v)
                res[op] = r
                continue
            r["lazy_class"] = type(v).__name__
            if lazyA or lazyB:
                from scenic.core.distributions import needsSampling
                if needsSampling(v):
                    o2 = obs(lambda: v.sample())
                    if "exc" in o2:
                        r["exc"] = "sample:" + o2["exc"]
                        r["msg"] = o2.get("msg")
                        res[op] = r
                        continue
                    v = o2["v"]
            r["class"] = type(v).__name__
            r["z"] = fl(getattr(v, "z", None)) if isinstance(v, R.PolygonalRegion) else None
            r["mem"] = [obs(lambda q=q: bool(v.containsPoint(q))) for q in vec]
            r["dist"] = [obs(lambda q=q: fl(v.distanceTo(q))) for q in vec]
            r["aabb"] = aabb_of(v)
            r["size"] = obs(lambda: fl(v.size))
            r["dim"] = obs(lambda: fl(v.dimensionality))
            if op in ("intersect", "difference"):
                r["A_contains_res"] = obs(lambda: bool(A0.containsRegion(v, tolerance=1e-6)))
            if op == "union":
                r["res_contains_A"] = obs(lambda: bool(v.containsRegion(A0, tolerance=1e-6)))
            res[op] = r
        out["res"] = res
    except BaseException as e:  # noqa
        import traceback
        out["crash"] = type(e).__name__ + ": " + str(e)[:300] + " @ " + traceback.format_exc()[-400:]
    return out


# ------------------------------------------------------------------------------ histories
def observe(v, vec, op):
    """what a caller can see of the result of one operation"""
    from scenic.core.distributions import needsSampling
    r = dict()
    if op == "intersects":
        r["value"] = bool(v)
        return r
    if op == "containsRegion":
        r["value"] = bool(v)
        return r
    r["class"] = type(v).__name__
    r["z"] = fl(getattr(v, "z", None)) if isinstance(v, R.PolygonalRegion) else None
    r["mem"] = [obs(lambda q=q: bool(v.containsPoint(q))) for q in vec]
    r["aabb"] = aabb_of(v)
    r["size"] = obs(lambda: fl(v.size))
    r["dim"] = obs(lambda: fl(v.dimensionality))
    if isinstance(v, R.PolygonalRegion):
        r["bounds"] = [float(t) for t in v.polygons.bounds]
    return r


def apply_op(op, A, B):
    if op == "containsRegion":
        return A.containsRegion(B, tolerance=1e-6)
    return getattr(A, op)(B)


def touch(reg):
    """read the cached derived data of a region (so later operations find warm caches)"""
    for name in ("AABB", "size", "boundingPolygon", "footprint", "circumcircle", "isConvex", "kdTree", "dimensionality"):
        try:
            getattr(reg, name)
        except BaseException:  # noqa
            pass


def run_history(job):
    """the same region OBJECTS combined in several successive operations (caches carry over), each
    result observed next to the same operation on freshly built equal regions"""
    out = dict(id=job["id"])
    try:
        specs = job["pool"]
        pool = [build(s) for s in specs]
        probes = [tuple(p) for p in job["probes"]]
        vec = [Vector(*p) for p in probes]
        truth, mem = [], []
        for s, reg in zip(specs, pool):
            fresh = build(s)
            precompute_sd(s, fresh, probes)
            truth.append([list(truth_and_clearance(s, fresh, p)) for p in probes])
            mem.append([obs(lambda v=v: bool(fresh.containsPoint(v))) for v in vec])
        out["truth"], out["mem"] = truth, mem
        steps = []
        for op, i, j in job["steps"]:
            st = dict()
            for tag, (A, B) in (("pooled", (pool[i], pool[j] if j is not None else None)),
                                ("fresh", (build(specs[i]), build(specs[j]) if j is not None else None))):
                if op == "touch":
                    touch(A)
                    st[tag] = dict(value=True)
                    continue
                sys.setrecursionlimit(400)
                o = obs(lambda: apply_op(op, A, B))
                sys.setrecursionlimit(3000)
                if "exc" in o:
                    st[tag] = dict(exc=o["exc"], msg=o.get("msg"))
                else:
                    st[tag] = observe(o["v"], vec, op)
            steps.append(st)
        out["steps"] = steps
    except BaseException as e:  # noqa
        import traceback
        out["crash"] = type(e).__name__ + ": " + str(e)[:300] + " @ " + traceback.format_exc()[-400:]
    return out


# ------------------------------------------------------------------------------ derived operands
_CANON = {
    "box": (None, (-0.5, 0.5)),
    "L": (shapely.geometry.Polygon([(0, 0), (2, 0), (2, 1), (1, 1), (1, 2), (0, 2)]), (0.0, 1.0)),
    "U": (shapely.geometry.Polygon([(0, 0), (3, 0), (3, 2), (2, 2), (2, 1), (1, 1), (1, 2), (0, 2)]), (0.0, 1.0)),
}


def prism_truth(poly, zlo, zhi, w):
    """(member, lower bound of the distance to the boundary) of w for the prism poly x [zlo, zhi]"""
    pt = shapely.geometry.Point(float(w[0]), float(w[1]))
    inside2 = bool(poly.contains(pt))
    inz = zlo <= w[2] <= zhi
    if inside2 and inz:
        return True, min(float(poly.boundary.distance(pt)), w[2] - zlo, zhi - w[2])
    return False, max(float(poly.distance(pt)), zlo - w[2], w[2] - zhi)


def derived_truth(job, e, p, leaf_regs):
    """independent (closed-form / third-party) membership of p in the derived operand e and a lower bound of its distance to the
    operand's boundary; (None, None) = no certificate"""
    t = e[0]
    if t == "leaf":
        spec = job["leaves"][e[1]]
        m, c, _ = truth_and_clearance(spec, leaf_regs[e[1]], p)
        return m, c
    if t == "surfvol":
        return derived_truth(job, e[1], p, leaf_regs)
    if t == "op":
        ma, ca = derived_truth(job, e[2], p, leaf_regs)
        mb, cb = derived_truth(job, e[3], p, leaf_regs)
        if ma is None or mb is None:
            return None, None
        m = (ma and mb) if e[1] == "intersect" else ((ma or mb) if e[1] == "union" else (ma and not mb))
        return m, min(ca, cb)           # the boundary of A op B lies in the union of the operands' boundaries
    if t == "view":
        v = e[1]
        M = rotmat(dict(rot=v["rot"]))
        q = M.T @ (numpy.array(p, dtype=float) - numpy.array(v["pos"], dtype=float))
        rho = float(numpy.linalg.norm(q))
        rh = math.hypot(q[0], q[1])
        az = math.atan2(-q[0], q[1])
        alt = math.atan2(q[2], rh)
        h, w_ = math.radians(v["angles"][0]), math.radians(v["angles"][1])
        D = v["dist"]
        ins, outs = [0.93 * D - rho], [rho - D]      # the sphere is an icosphere inscribed in the ball of radius D
        if h < math.tau - 0.017:
            da = h / 2 - abs(az)
            ins.append(rh * math.sin(da) if da < math.pi / 2 else rh)
            outs.append((rh * math.sin(-da) if -da < math.pi / 2 else rh) if da < 0 else -1.0)
        if w_ < math.pi - 0.017:
            lim = math.atan(math.tan(w_ / 2) / math.cos(h / 31 / 2))     # flat faces between 32 sampled azimuths
            ins.append(rho * math.sin(min(w_ / 2 - abs(alt), math.pi / 2)))
            db = abs(alt) - lim
            outs.append(rho * math.sin(min(db, math.pi / 2)) if db > 0 else -1.0)
        margin = 0.02 * D
        if all(x > 0 for x in ins):
            return True, min(ins) - margin
        if max(outs) > 0:
            return False, max(outs) - margin
        return None, None
    if t == "uncentred":
        u = e[1]
        M = rotmat(dict(rot=u["rot"]))
        w = (M.T @ (numpy.array(p, dtype=float) - numpy.array(u["pos"], dtype=float))) / u["scale"] - numpy.array(u["offset"], dtype=float)
        if u["shape"] == "box":
            g = numpy.abs(w) - 0.5
            return (True, float(-g.max()) * u["scale"]) if (g <= 0).all() else (False, float(g.max()) * u["scale"])
        if u["shape"] == "cyl":
            m_ = base_mesh("cyl")
            poly = shapely.geometry.MultiPoint([(float(x), float(y)) for x, y, _ in m_.vertices]).convex_hull
            zlo, zhi = -0.5, 0.5
        else:
            poly, (zlo, zhi) = _CANON[u["shape"]]
        m, c = prism_truth(poly, zlo, zhi, w)
        return m, c * u["scale"]
    if t == "slab":
        sl = e[1]
        return prism_truth(shapely.geometry.Polygon(sl["pts"]), sl["z"] - sl["h"] / 2, sl["z"] + sl["h"] / 2, p)
    raise ValueError(t)


def build_derived(job, e, leaf_regs):
    t = e[0]
    if t == "leaf":
        return build(job["leaves"][e[1]])        # a fresh object per use
    if t == "op":
        return getattr(build_derived(job, e[2], leaf_regs), e[1])(build_derived(job, e[3], leaf_regs))
    if t == "surfvol":
        return build_derived(job, e[1], leaf_regs).getSurfaceRegion().getVolumeRegion()
    if t == "view":
        v = e[1]
        return R.ViewRegion(v["dist"], (math.radians(v["angles"][0]), math.radians(v["angles"][1])), position=Vector(*v["pos"]),
                            rotation=Orientation.fromEuler(*v["rot"]))
    if t == "uncentred":
        u = e[1]
        m = base_mesh(u["shape"])
        m.apply_translation(u["offset"])
        kw = dict(position=Vector(*u["pos"]), rotation=Orientation.fromEuler(*u["rot"]), centerMesh=False)
        if u["scale"] != 1.0:
            kw["dimensions"] = tuple(float(x) * u["scale"] for x in m.extents)
        return R.MeshVolumeRegion(mesh=m, **kw)
    if t == "slab":
        sl = e[1]
        return R.PolygonalFootprintRegion(shapely.geometry.Polygon(sl["pts"])).boundFootprint(sl["z"], sl["h"])
    raise ValueError(t)


def pass1_record(D):
    """what PASS 1 of MeshVolumeRegion.intersects uses for a region without a precomputed shape: nominal position, fallback
    circumradius, mesh vertices (optional observation: None when the attribute is not there or the mesh is large)"""
    try:
        if not isinstance(D, R.MeshVolumeRegion) or getattr(D, "_shape", None) or getattr(D, "_scaledShape", None):
            return None
        verts = D.mesh.vertices
        if len(verts) > 40:
            return None
        return dict(position=[float(t) for t in D.position], r=float(D._circumradius), verts=[[float(x) for x in v] for v in verts])
    except BaseException:  # noqa
        return None


def run_derived(job):
    out = dict(id=job["id"])
    try:
        leaf_regs = [build(s) for s in job["leaves"]]
        cand = [tuple(p) for p in job["cand"]]
        vec = [Vector(*p) for p in cand]
        for s, reg in zip(job["leaves"], leaf_regs):
            precompute_sd(s, reg, cand)
        regs, ops = [], []
        for e in job["exprs"]:
            o = obs(lambda: build_derived(job, e, leaf_regs))
            if "exc" in o:
                ops.append(dict(exc=o["exc"], msg=o.get("msg")))
                regs.append(None)
                continue
            D = o["v"]
            regs.append(D)
            d = {"class": type(D).__name__}
            d["truth"] = [list(derived_truth(job, e, p, leaf_regs)) for p in cand]
            d["mem"] = [obs(lambda q=q: bool(D.containsPoint(q))) for q in vec]
            d["dist"] = [obs(lambda q=q: fl(D.distanceTo(q))) for q in vec]
            rows = []
            order = sorted(range(len(cand)), key=lambda t: -(d["truth"][t][1] or 0))
            nin = nout = 0
            for t in order:
                m, c = d["truth"][t]
                if m is None or c is None or c <= 0.12:
                    continue
                if (m and nin >= 5) or (not m and nout >= 4):
                    continue
                nin, nout = nin + bool(m), nout + (not m)
                pr = job["probes"][t]
                rad = min(0.8 * c, 1.5)                       # circumradius of the probe region
                dims = [max(0.04, 2 * rad / math.sqrt(3) * f) for f in pr["f"]]
                if pr["kind"] == "spheroid":
                    dims = [max(0.04, 2 * rad * f) for f in pr["f"]]
                cls = R.BoxRegion if pr["kind"] == "box" else R.SpheroidRegion
                mk = lambda: cls(dimensions=tuple(dims), position=Vector(*cand[t]), rotation=Orientation.fromEuler(*pr["rot"]))
                rows.append(dict(cand=t, region=dict(kind=pr["kind"], dims=dims, pos=list(cand[t]), rot=pr["rot"]),
                                 fwd=obs(lambda: bool(D.intersects(mk()))), rev=obs(lambda: bool(mk().intersects(D)))))
            d["probe_rows"] = rows
            d["pass1"] = pass1_record(D)
            if rows:
                P0 = job["probes"][rows[0]["cand"]]
                d["pass1_probe"] = pass1_record((R.BoxRegion if rows[0]["region"]["kind"] == "box" else R.SpheroidRegion)(
                    dimensions=tuple(rows[0]["region"]["dims"]), position=Vector(*rows[0]["region"]["pos"]), rotation=Orientation.fromEuler(*P0["rot"])))
                d["pass1_probe_row"] = 0
            ops.append(d)
        out["operands"] = ops
        pairs = []
        for i in range(len(regs)):
            for j in range(i + 1, len(regs)):
                if regs[i] is None or regs[j] is None:
                    continue
                pairs.append(dict(i=i, j=j, fwd=obs(lambda: bool(regs[i].intersects(regs[j]))), rev=obs(lambda: bool(regs[j].intersects(regs[i])))))
        out["pairs"] = pairs
    except BaseException as e:  # noqa
        import traceback
        out["crash"] = type(e).__name__ + ": " + str(e)[:300] + " @ " + traceback.format_exc()[-400:]
    return out


# ------------------------------------------------------------------------------ projection along a direction
def run_project(job):
    out = dict(id=job["id"])
    try:
        reg = build(job["A"])
        rows = []
        for p, d in job["queries"]:
            dn = numpy.array(d, dtype=float)
            dn = dn / numpy.linalg.norm(dn)
            pv = numpy.array(p, dtype=float)
            row = dict(contains=bool(reg.containsPoint(Vector(*p))))
            o = obs(lambda: reg.projectVector(Vector(*p), tuple(float(t) for t in dn)))
            if "exc" in o:
                row["exc"] = o["exc"]
            elif o["v"] is None:
                row["t"] = None
            else:
                r = numpy.array([float(t) for t in o["v"]])
                row["t"] = float(numpy.dot(r - pv, dn))
                row["off_line"] = float(numpy.linalg.norm((r - pv) - row["t"] * dn))
            # all crossings of the line with the surface (both rays, every hit)
            loc, ray, _ = reg.mesh.ray.intersects_location(ray_origins=[pv, pv], ray_directions=[dn, -dn], multiple_hits=True)
            row["ts"] = sorted(float(numpy.dot(x - pv, dn)) for x in loc)
            row["sd"] = float(trimesh.proximity.ProximityQuery(reg.mesh).signed_distance([list(p)])[0])
            rows.append(row)
        out["rows"] = rows
    except BaseException as e:  # noqa
        import traceback
        out["crash"] = type(e).__name__ + ": " + str(e)[:300] + " @ " + traceback.format_exc()[-400:]
    return out


# ------------------------------------------------------------------------------ dispatch probe
PROBE_SPECS = {
    "AllRegion": dict(kind="everywhere"),
    "EmptyRegion": dict(kind="nowhere"),
    "BoxRegion": dict(kind="box", dims=[2, 2, 2], pos=[0.2, 0.1, 0.0], rot=[0, 0, 0]),
    "SpheroidRegion": dict(kind="spheroid", dims=[2, 2, 2], pos=[0.1, 0.3, 0.0], rot=[0, 0, 0]),
    "MeshVolumeRegion": dict(kind="meshvol", shape="cyl", dims=[2, 2, 2], pos=[0.0, 0.2, 0.0], rot=[0, 0, 0]),
    "MeshSurfaceRegion": dict(kind="meshsurf", shape="box", dims=[2, 2, 2], pos=[0.1, 0.0, 0.0], rot=[0, 0, 0]),
    "PolygonalFootprintRegion": dict(kind="footprint", pts=[[-1, -1], [1.3, -1], [1.3, 1.1], [-1, 1.1]]),
    "PathRegion": dict(kind="path", pts=[[-1, -1, 0], [0.5, 0.5, 0], [1.5, 0.2, 0.3]]),
    "PolygonalRegion": dict(kind="polygon", pts=[[-1, -1], [1.2, -1], [1.2, 1], [-1, 1]], z=0),
    "CircularRegion": dict(kind="circle", center=[0.1, 0.1, 0], r=1.0),
    "SectorRegion": dict(kind="sector", center=[0.0, -0.1, 0], r=1.5, heading=0.3, angle=1.2),
    "RectangularRegion": dict(kind="rect", pos=[0.1, 0.0, 0], heading=0.2, w=1.5, l=1.0),
    "PolylineRegion": dict(kind="polyline", pts=[[-1, -0.5], [0.5, 0.4], [1.5, 0.1]]),
    "PointSetRegion": dict(kind="pointset", pts=[[0, 0, 0], [0.5, 0.5, 0], [3, 3, 0]]),
    "GridRegion": dict(kind="grid", grid=[[0, 1], [0, 0]], Ax=0.5, Ay=0.5, Bx=0.0, By=0.0),
}


def second_instance(spec):
    s = json.loads(json.dumps(spec))
    for key in ("pos", "center"):
        if key in s:
            s[key][0] += 0.25
    if "pts" in s:
        s["pts"] = [[p[0] + 0.25] + list(p[1:]) for p in s["pts"]]
    if s["kind"] == "grid":
        s["Bx"] += 0.25
    return s


class ProbeCut(RecursionError):
    pass


def probe_dispatch(payload):
    depth_cut = payload.get("depth", 8)
    classes = {}
    for name in dir(R):
        obj = getattr(R, name)
        if isinstance(obj, type) and issubclass(obj, R.Region):
            classes[name] = obj
    stack, roots = [], []

    def make(cls, op, orig):
        def wrapper(self, other, *a, **kw):
            if op == "difference":
                flag = False
            else:
                flag = bool(kw.get("triedReversed", a[0] if a else False))
            act = dict(defcls=cls.__name__, self=self, other=other, flag=flag, op=op, children=[])
            (stack[-1]["children"] if stack else roots).append(act)
            if len(stack) >= depth_cut:
                act["exc"] = "RecursionError"
                act["cut"] = True
                raise ProbeCut("probe depth cut")
            stack.append(act)
            try:
                r = orig(self, other, *a, **kw)
                act["ret"] = "bool" if isinstance(r, (bool, numpy.bool_)) else type(r).__name__
                return r
            except BaseException as e:  # noqa
                act["exc"] = "RecursionError" if isinstance(e, RecursionError) else type(e).__name__
                raise
            finally:
                stack.pop()
        wrapper.__wrapped_by_probe__ = True
        return wrapper

    saved = []
    for cname, cls in classes.items():
        for op in OPS:
            if op in cls.__dict__:
                orig = cls.__dict__[op]
                saved.append((cls, op, orig))
                setattr(cls, op, make(cls, op, orig))
    inst, inst2, skipped = {}, {}, {}
    for cname, spec in PROBE_SPECS.items():
        try:
            inst[cname] = build(spec)
            s2 = second_instance(spec)
            inst2[cname] = build(s2) if spec["kind"] not in ("everywhere", "nowhere") else build(spec)
        except BaseException as e:  # noqa
            skipped[cname] = type(e).__name__ + ": " + str(e)[:100]
    for cname in ("PolygonalRegion", "CircularRegion", "RectangularRegion"):
        try:
            inst[cname + "~lazy"] = build(PROBE_SPECS[cname], lazy=True)
            inst2[cname + "~lazy"] = build(second_instance(PROBE_SPECS[cname]), lazy=True)
        except BaseException as e:  # noqa
            skipped[cname + "~lazy"] = type(e).__name__ + ": " + str(e)[:100]
    # composed operands (generic regions)
    try:
        inst["IntersectionRegion"] = R.IntersectionRegion(inst["PathRegion"], inst["BoxRegion"])
        inst2["IntersectionRegion"] = R.IntersectionRegion(inst2["PathRegion"], inst2["BoxRegion"])
        inst["UnionRegion"] = R.UnionRegion(inst["PathRegion"], inst["PointSetRegion"])
        inst2["UnionRegion"] = R.UnionRegion(inst2["PathRegion"], inst2["PointSetRegion"])
        inst["DifferenceRegion"] = R.DifferenceRegion(inst["PathRegion"], inst["BoxRegion"])
        inst2["DifferenceRegion"] = R.DifferenceRegion(inst2["PathRegion"], inst2["BoxRegion"])
    except BaseException as e:  # noqa
        skipped["composed"] = type(e).__name__ + ": " + str(e)[:100]
    try:
        inst["VoxelRegion"] = inst["BoxRegion"].voxelized(0.5)
        inst2["VoxelRegion"] = inst2["BoxRegion"].voxelized(0.5)
    except BaseException as e:  # noqa
        skipped["VoxelRegion"] = type(e).__name__ + ": " + str(e)[:100]
    roots.clear()

    entries = {}     # key -> action
    conflicts = []
    cases = []

    from scenic.core.lazy_eval import isLazy as _isLazy

    def kname(o):
        return type(o).__name__ + ("~lazy" if _isLazy(o) else "")

    def classify(act):
        rel = None
        for ch in act["children"]:
            if ch["op"] != act["op"]:
                continue
            if ch["self"] is act["self"] and ch["other"] is act["other"]:
                rel = ("super", ch["defcls"], ch["flag"])
            elif ch["self"] is act["other"] and ch["other"] is act["self"]:
                rel = ("rev", ch["defcls"], ch["flag"])
        if rel is None:
            if "exc" in act:
                return ["raise", act["exc"]]
            return ["ret", act.get("ret", "?")]
        return [rel[0], rel[1], rel[2]]

    def walk(act, op):
        n = 0
        if act["op"] == op and not act.get("cut"):
            key = (op, act["defcls"], kname(act["self"]), kname(act["other"]), act["flag"])
            a = classify(act)
            if key in entries and entries[key] != a:
                conflicts.append([list(key), entries[key], a])
            entries.setdefault(key, a)
        return n

    def chain(act, op):
        """the delegation chain from a root activation: list of activations"""
        out = [act]
        cur = act
        while True:
            nxt = None
            for ch in cur["children"]:
                if ch["op"] != op:
                    continue
                if (ch["self"] is cur["self"] and ch["other"] is cur["other"]) or \
                   (ch["self"] is cur["other"] and ch["other"] is cur["self"]):
                    nxt = ch
            if nxt is None:
                return out
            out.append(nxt)
            cur = nxt

    names = sorted(inst)
    for op in OPS:
        for a in names:
            for b in names:
                A = inst[a]
                B = inst2[b] if a == b else inst[b]
                roots.clear()
                del stack[:]
                o = obs(lambda: getattr(A, op)(B))
                if not roots:
                    continue
                root = roots[0]
                ch = chain(root, op)
                for act in ch:
                    walk(act, op)
                if "exc" in o:
                    outcome = ["raise", o["exc"]]
                else:
                    v = o["v"]
                    outcome = ["ret", "bool" if isinstance(v, (bool, numpy.bool_)) else type(v).__name__]
                if "exc" not in o and op == "intersects" and not isinstance(o["v"], (bool, numpy.bool_)):
                    o = dict(v=False)
                cases.append(dict(op=op, a=a, b=b, defcls=root["defcls"], outcome=outcome, calls=len(ch),
                                  value=(bool(o["v"]) if op == "intersects" and "v" in o else None)))
    for cls, op, orig in saved:
        setattr(cls, op, orig)
    ranks = {n: len(c.__mro__) for n, c in classes.items()}
    return dict(entries=[[list(k), v] for k, v in entries.items()], cases=cases, conflicts=conflicts,
                ranks=ranks, skipped=skipped, classes=names)


def main():
    payload = json.load(sys.stdin)
    kind = payload["kind"]
    if kind == "dispatch":
        out = probe_dispatch(payload)
    elif kind == "pairs":
        out = dict(results=[run_derived(j) if j.get("kind") == "derived" else run_history(j) if j.get("kind") == "history" else run_project(j) if j.get("kind") == "project" else run_pair(j)
                            for j in payload["jobs"]])
    else:
        raise SystemExit("unknown kind")
    print(json.dumps(out))


if __name__ == "__main__":
    main()
