"""Compare a junit xml of the pinned suite with BASELINE.json's stable_pass list."""
import json, sys, xml.etree.ElementTree as ET
base = set(json.load(open('/root/.vp/BASELINE.json'))['stable_pass'])
t = ET.parse(sys.argv[1])
res = {}
for tc in t.iter('testcase'):
    name = tc.get('classname') + '::' + tc.get('name')
    st = 'pass'
    for ch in tc:
        if ch.tag in ('failure', 'error'): st = ch.tag
        elif ch.tag == 'skipped': st = 'skipped'
    res[name] = st
bad = sorted(n for n in base if res.get(n) != 'pass')
print('stable_pass:', len(base), 'in run:', len(res), 'not passing now:', len(bad))
for n in bad[:60]: print('  ', n, res.get(n))
extra_fail = sorted(n for n, s in res.items() if s in ('failure', 'error') and n not in base)
print('failing but not in stable_pass:', len(extra_fail)); [print('  ', n) for n in extra_fail[:20]]
