"""Distributions with unusual value types, imported by the C18 generated programs so that every
codec (str, bytes, bool, None, big ints across every width boundary) is exercised through the
real Scenario.sceneToBytes / sceneFromBytes path."""
import random

from scenic.core.distributions import Distribution
from scenic.core.vectors import Orientation, Vector

BOUNDARY_INTS = [0, 1, 252, 253, 254, 255, 256, -1, -2, 32767, 32768, -32768, -32769, 65535, 65536,
                 2147483647, 2147483648, -2147483648, -2147483649, 2**63, -(2**63), 2**64 - 1, 2**127,
                 -(2**127) - 1, 2**200 + 12345, -(2**1000), 2**2031 - 1, -(2**2031)]


class _Prim(Distribution):
    _vt = object
    _choices = ()

    def __init__(self):
        super().__init__(valueType=self._vt)

    def clone(self):
        return type(self)()

    def sampleGiven(self, value):
        return random.choice(self._choices)

    def __repr__(self):
        return type(self).__name__ + "()"


class BigInt(_Prim):
    _vt = int
    _choices = BOUNDARY_INTS

    def sampleGiven(self, value):
        if random.random() < 0.5:
            return random.choice(BOUNDARY_INTS)
        return random.randint(-(2 ** random.randint(1, 300)), 2 ** random.randint(1, 300))


class RandStr(_Prim):
    _vt = str
    _choices = ("", "a", "zoggle", "é" * 3, "x" * 252, "y" * 253, "z" * 70000, "日本語")


class RandBytes(_Prim):
    _vt = bytes
    _choices = (b"", b"\x00", b"\xff" * 253, bytes(range(256)), b"ab" * 20000)


class RandBool(_Prim):
    _vt = bool
    _choices = (True, False)


class RandNone(_Prim):
    _vt = type(None)
    _choices = (None,)


# run-time variants (drawn at every step of a behaviour: keep the replay small)
class SRandStr(_Prim):
    _vt = str
    _choices = ("", "a", "zoggle", "\u00e9" * 3, "x" * 252, "y" * 253, "\u65e5\u672c\u8a9e")


class SRandBytes(_Prim):
    _vt = bytes
    _choices = (b"", b"\x00", b"\xff" * 253, bytes(range(256)))


class RandVec(_Prim):
    _vt = Vector

    def sampleGiven(self, value):
        return Vector(random.randint(-5, 5) / 4, random.random(), random.choice([0.0, -1.5, 1e300, 5e-324]))


class RandOri(_Prim):
    _vt = Orientation

    def sampleGiven(self, value):
        return Orientation.fromEuler(random.uniform(-3, 3), random.uniform(-1, 1), random.uniform(-3, 3))
