#!/bin/sh
# run thorough tiers, 3 lanes; summary in work/thorough.txt
cd /verif
: > work/thorough.txt
lane() {
  for id in "$@"; do
    s=$(date +%s)
    VERIF_EVID_SUFFIX=.thorough nice -n 5 ./check $id --tier thorough > work/thorough_$id.log 2>&1; rc=$?
    e=$(date +%s)
    echo "$id rc=$rc wall=$((e-s))s $(grep -c '^VIOLATION' work/thorough_$id.log) violations, $(grep -c '^KNOWN-FINDING' work/thorough_$id.log) known" >> work/thorough.txt
  done
}
lane C01 C04 C08 C13 C16 &
lane C02 C05 C11 C14 C17 &
lane C03 C07 C12 C15 C19 &
wait
echo done >> work/thorough.txt
