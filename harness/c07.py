"""C07 — built-in specifiers and operators have their documented geometric meaning.
Proof layer: coq/Properties/C07.v (carrier R).  Correspondence: the same generic model instantiated at Q
(extracted, ocaml/c07/driver) against scenes built by the real Scenic from generated programs; every float
the implementation used enters the model as its exact rational value, trigonometric / square-root values
as recorded values.  Property oracle: gap between corner sets along X's local axis, inherited
orientations, frames, operator relations — evaluated on what the implementation did."""
import concurrent.futures as cf
import json
import math
import os
import sys
from fractions import Fraction

sys.path.insert(0, os.path.dirname(os.path.abspath(__file__)))
import common
from common import Check

PID = "C07"
TOL = 1e-9
DIRWORDS = ["left of", "right of", "ahead of", "behind", "above", "below"]
SIDES = ["front", "back", "left", "right", "top", "bottom", "front left", "front right", "back left", "back right",
         "top front left", "top front right", "top back left", "top back right",
         "bottom front left", "bottom front right", "bottom back left", "bottom back right"]


# ----------------------------------------------------------------------------- small helpers
def zs(n):
    return str(n) if abs(n) < 2 ** 60 else ("-" if n < 0 else "") + "0b" + bin(abs(n))[2:]


def qs(x):
    n, d = float(x).as_integer_ratio()
    return zs(n) + "/" + zs(d)


def parse_q(tok):
    n, d = tok.split("/")
    return float(Fraction(int(n, 0), int(d, 0)))


def ha(a):
    """half-angle pair of an angle, as the model wants it"""
    return [math.cos(a / 2.0), math.sin(a / 2.0)]


def eul(e):
    return ha(e[0]) + ha(e[1]) + ha(e[2])


def pose_block(p):
    return list(p["pos"]) + eul(p["par"]) + eul(p["loc"])


def close(a, b, scale=1.0):
    return abs(a - b) <= TOL * max(1.0, scale, abs(a), abs(b))


def vclose(a, b, scale=1.0):
    return len(a) == len(b) and all(close(x, y, scale) for x, y in zip(a, b))


def qclose(a, b):
    return vclose(a, b) or vclose(a, [-x for x in b])


def sub(a, b):
    return [x - y for x, y in zip(a, b)]


def dot(a, b):
    return sum(x * y for x, y in zip(a, b))


def norm(a):
    return math.sqrt(dot(a, a))


def unit(a):
    n = norm(a)
    return [x / n for x in a]


# independent float quaternion helpers, used ONLY by the property oracle (not by the model)
def q_mul(a, b):
    x1, y1, z1, w1 = a
    x2, y2, z2, w2 = b
    return [w1 * x2 + x1 * w2 + y1 * z2 - z1 * y2, w1 * y2 - x1 * z2 + y1 * w2 + z1 * x2,
            w1 * z2 + x1 * y2 - y1 * x2 + z1 * w2, w1 * w2 - x1 * x2 - y1 * y2 - z1 * z2]


def q_conj(q):
    return [-q[0], -q[1], -q[2], q[3]]


def q_rot(q, v):
    p = q_mul(q_mul(q, [v[0], v[1], v[2], 0.0]), q_conj(q))
    return p[:3]


def q_euler(e):
    y, p, r = e
    qz = [0, 0, math.sin(y / 2), math.cos(y / 2)]
    qx = [math.sin(p / 2), 0, 0, math.cos(p / 2)]
    qy = [0, math.sin(r / 2), 0, math.cos(r / 2)]
    return q_mul(q_mul(qz, qx), qy)


def axes_from_corners(c):
    """local right/forward/up unit axes of a box from Object.corners (Scenic's corner order)"""
    return [unit(sub(c[0], c[1])), unit(sub(c[1], c[2])), unit(sub(c[0], c[4]))]


def outward(axes, d):
    a = axes[d // 2]
    return [-x for x in a] if d in (0, 3, 5) else list(a)   # left, behind, below are negative axes


def gap_from_corners(u, cx, cn):
    return min(dot(u, p) for p in cn) - max(dot(u, p) for p in cx)


def norm_angle(a):
    while a > math.pi:
        a -= math.tau
    while a < -math.pi:
        a += math.tau
    return a


# ----------------------------------------------------------------------------- generators
def rf(rng, lo, hi):
    return round(rng.uniform(lo, hi), 3)


def rb(rng, lo, hi, p=0.25, neg=True):
    """a numeric argument: mostly uniform in [lo, hi], but with probability p a boundary value (integer and
    float zero, negative zero, tiny, huge, negative) -- the values at which `if not x`, `x or default`,
    `x > 0` style mistakes show"""
    if rng.random() < p:
        opts = [0, 0.0, -0.0, 1e-12, 1e4]
        if neg:
            opts += [-1e-12, -round(rng.uniform(0.01, 3), 3), -1e4]
        return rng.choice(opts)
    return rf(rng, lo, hi)


def rbv(rng, lo, hi, p=0.25):
    """a vector argument; with probability p some components are boundary values"""
    if rng.random() < p:
        return [rb(rng, lo, hi, 0.6) for _ in range(3)]
    return [rf(rng, lo, hi) for _ in range(3)]


def rpos(rng):
    return [rng.choice([-1, 1]) * rf(rng, 4, 40) for _ in range(3)]


def reul(rng, kind=None):
    kind = kind or rng.choice(["full", "full", "full", "yaw", "zero"])
    if kind == "zero":
        return [0.0, 0.0, 0.0]
    if kind == "yaw":
        return [rf(rng, -3.1, 3.1), 0.0, 0.0]
    return [rf(rng, -3.1, 3.1), rf(rng, -1.5, 1.5), rf(rng, -3.1, 3.1)]


def rdims(rng):
    return [rf(rng, 0.4, 6), rf(rng, 0.4, 6), rf(rng, 0.4, 6)]


def rpose(rng, parent=None, local=None):
    return dict(pos=rpos(rng), par=reul(rng, parent), loc=reul(rng, local))


def tup(v):
    return "(" + ", ".join(repr(x) if isinstance(x, int) else repr(float(x)) for x in v) + ")"


# ----------------------------------------------------------------------------- vector fields
def gen_field(rng):
    kind = rng.choice(["heading", "tuple", "orient", "affine", "affine", "affine", "poly"])
    fd = dict(kind=kind)
    if kind == "heading":
        fd["base"] = [rf(rng, -3.1, 3.1), 0.0, 0.0]
    elif kind in ("tuple", "orient"):
        fd["base"] = reul(rng, "full")
    elif kind == "affine":
        fd["base"] = [rf(rng, -3.1, 3.1), rf(rng, -1.0, 1.0), rf(rng, -3.1, 3.1)]
        fd["grad"] = [[round(rng.uniform(-0.02, 0.02), 4) for _ in range(3)] for _ in range(3)]
    else:
        fd["quad"] = [rf(rng, -3.1, 3.1) for _ in range(4)]
    return fd


def field_src(fd):
    """Scenic source defining the vector field `fld` (python-defined VectorField / PolygonalVectorField)"""
    L = ["from scenic.core.vectors import VectorField, PolygonalVectorField", "import shapely.geometry"]
    b = fd.get("base")
    if fd["kind"] == "heading":
        L.append(f"fld = VectorField('fld', lambda pos: {b[0]!r})")
    elif fd["kind"] == "tuple":
        L.append(f"fld = VectorField('fld', lambda pos: {tup(b)})")
    elif fd["kind"] == "orient":
        L.append(f"fld = VectorField('fld', lambda pos: Orientation.fromEuler{tup(b)})")
    elif fd["kind"] == "affine":
        g = fd["grad"]
        comp = ", ".join(f"{b[j]!r} + ({g[j][0]!r} * pos.x + {g[j][1]!r} * pos.y + {g[j][2]!r} * pos.z)" for j in range(3))
        L.append("def _fv(pos):")
        L.append(f"    return Orientation.fromEuler({comp})")
        L.append("fld = VectorField('fld', _fv)")
    else:
        q = fd["quad"]
        B = 100000
        cells = [f"(shapely.geometry.box(0, 0, {B}, {B}), {q[0]!r})", f"(shapely.geometry.box(-{B}, 0, 0, {B}), {q[1]!r})",
                 f"(shapely.geometry.box(-{B}, -{B}, 0, 0), {q[2]!r})", f"(shapely.geometry.box(0, -{B}, {B}, 0), {q[3]!r})"]
        L.append("fld = PolygonalVectorField('fld', [" + ", ".join(cells) + "])")
    return L


def field_eval(fd, pos):
    """the field's value (Euler triple) at pos, computed independently of Scenic; None when pos is too close
    to a cell boundary of a polygonal field"""
    if fd["kind"] == "affine":
        b, g = fd["base"], fd["grad"]
        return [b[j] + (g[j][0] * pos[0] + g[j][1] * pos[1] + g[j][2] * pos[2]) for j in range(3)]
    if fd["kind"] == "poly":
        if abs(pos[0]) < 1e-6 or abs(pos[1]) < 1e-6:
            return None
        i = (0 if pos[1] > 0 else 3) if pos[0] > 0 else (1 if pos[1] > 0 else 2)
        return [fd["quad"][i], 0.0, 0.0]
    return list(fd["base"])


def follow_ref(fd, x, D):
    """forward Euler as documented for `following F from X for D`: max(4, ceil(D/5)) equal steps of D/steps along
    the field's forward axis; returns (n, step, visited positions, final position) or None near a cell boundary"""
    n = max(4, math.ceil(D / 5))
    step = D / n
    pos, vis = [float(c) for c in x], []
    for _ in range(n):
        e = field_eval(fd, pos)
        if e is None:
            return None
        vis.append(list(pos))
        d = q_rot(q_euler(e), [0.0, step, 0.0])
        pos = [a + b for a, b in zip(pos, d)]
    return n, step, vis, pos


def pose_src(p, with_pos=True):
    s = []
    if with_pos:
        s.append(f"at {tup(p['pos'])}")
    s.append(f"with parentOrientation {tup(p['par'])}")
    s += [f"with yaw {p['loc'][0]!r}", f"with pitch {p['loc'][1]!r}", f"with roll {p['loc'][2]!r}"]
    return ", ".join(s)


def dims_src(d):
    return f"with width {d[0]!r}, with length {d[1]!r}, with height {d[2]!r}"


def gen_program(rng, idx, nplace):
    ego = rpose(rng, parent=rng.choice(["full", "full", "yaw"]), local=rng.choice(["full", "full", "yaw", "zero"]))
    ego["dims"] = rdims(rng)
    op = rpose(rng, parent="full", local=rng.choice(["full", "yaw"]))
    H = reul(rng, rng.choice(["full", "full", "yaw"]))
    fd = gen_field(rng)
    L = field_src(fd) + [f"ego = new Object {pose_src(ego)}, {dims_src(ego['dims'])}, with vid 0, with allowCollisions True",
         f"op = new OrientedPoint {pose_src(op)}",
         f"hp = new OrientedPoint at (0, 0, 0), with parentOrientation {tup(H)}",
         "param op = op", "param hp = hp"]
    items = []
    vid = [0]

    def newvid():
        vid[0] += 1
        return vid[0]

    tail = lambda v: f"with vid {v}, with allowCollisions True"
    kinds = ["dir"] * 5 + ["beyond"] * 2 + ["offset", "facing", "toward", "toward", "apparently", "scalar", "box"] \
        + ["ffield", "ffield", "along", "follow", "onobj", "onpt"]
    chosen = [kinds[i % len(kinds)] for i in range(nplace)] if nplace >= len(kinds) else rng.sample(kinds, nplace)
    for k in chosen:
        if k == "dir":
            d = rng.randrange(6)
            ref = rng.choice(["obj", "obj", "obj", "op", "vec"])
            by = rng.choice(["none", "scalar", "scalar", "vector"])
            aligned = ref == "vec" or rng.random() < 0.7
            it = dict(kind="dir", d=d, ref=ref, by=by, aligned=aligned, vid=newvid(), dims=rdims(rng),
                      ct=rng.choice([1e-4, 1e-4, rf(rng, 0.01, 1.0), rf(rng, 0.01, 1.0), 0, 2.5]), loc=[0.0, 0.0, 0.0], par=[0.0, 0.0, 0.0])
            if by == "scalar":
                D = rb(rng, 0.0, 6.0, 0.35)
                it["byv"] = [D, D, D]
                it["byform"] = rng.choice(["literal"] * 5 + ["range", "uniform"])
                bysrc = {"literal": f" by {D!r}", "range": f" by Range({D!r}, {D!r})", "uniform": f" by Uniform({D!r}, {D!r})"}[it["byform"]]
            elif by == "vector":
                it["byv"] = rbv(rng, -5, 5)
                bysrc = f" by {tup(it['byv'])}"
            else:
                it["byv"] = [0.0, 0.0, 0.0]
                bysrc = ""
            extra = ""
            if ref == "vec":
                it["p"] = rpos(rng)
                it["par"], it["loc"] = reul(rng), reul(rng)
                refsrc = tup(it["p"])
                extra = ", " + pose_src(it, with_pos=False)
            else:
                refsrc = "ego" if ref == "obj" else "op"
                if not aligned:
                    it["loc"] = reul(rng, "full")
                    extra = f", with yaw {it['loc'][0]!r}, with pitch {it['loc'][1]!r}, with roll {it['loc'][2]!r}"
            ctsrc = f", with contactTolerance {it['ct']!r}"
            L.append(f"new Object {DIRWORDS[d]} {refsrc}{bysrc}, {dims_src(it['dims'])}{ctsrc}{extra}, {tail(it['vid'])}")
            items.append(it)
        elif k == "beyond":
            frm = rng.choice(["default", "ego", "op", "vec"])
            by = rng.choice(["scalar", "vector"])
            it = dict(kind="beyond", frm=frm, by=by, vid=newvid(), p=rpos(rng))
            if by == "scalar":
                D = rb(rng, -3, 8)
                it["byv"] = [0.0, D, 0.0]
                bysrc = repr(D)
            else:
                it["byv"] = rbv(rng, -5, 5)
                bysrc = tup(it["byv"])
            if frm == "vec":
                it["q"] = rpos(rng)
                fsrc = f" from {tup(it['q'])}"
            else:
                it["q"] = ego["pos"] if frm in ("default", "ego") else op["pos"]
                fsrc = "" if frm == "default" else f" from {frm}"
            L.append(f"new Object beyond {tup(it['p'])} by {bysrc}{fsrc}, {tail(it['vid'])}")
            items.append(it)
        elif k == "offset":
            it = dict(kind="offset", v=rbv(rng, -9, 9), vid_by=newvid(), vid_along=newvid(),
                      hform=rng.choice(["orient", "tuple"]))
            v = tup(it["v"])
            hs = "hp.orientation" if it["hform"] == "orient" else tup(H)
            L.append(f"new Object offset by {v}, {tail(it['vid_by'])}")
            L.append(f"new Object offset along {hs} by {v}, {tail(it['vid_along'])}")
            L.append(f"param rel_op = {v} relative to ego")
            L.append(f"param off_op = ego offset by {v}")
            L.append(f"param along_op = ego offset along {hs} by {v}")
            L.append("param ego_rel_h = ego.orientation relative to hp.orientation")
            L.append("param h_rel_ego = hp.orientation relative to ego.orientation")
            L.append(f"param vecrel = {v} relative to {tup(op['pos'])}")
            items.append(it)
        elif k == "facing":
            it = dict(kind="facing", vid=newvid(), pos=rpos(rng), par=reul(rng, "full"), target=reul(rng))
            form = "heading" if it["target"][1] == 0.0 and it["target"][2] == 0.0 else "tuple"
            tsrc = repr(it["target"][0]) if form == "heading" else tup(it["target"])
            L.append(f"new Object at {tup(it['pos'])}, with parentOrientation {tup(it['par'])}, facing {tsrc}, {tail(it['vid'])}")
            items.append(it)
        elif k == "toward":
            it = dict(kind="toward", vid=newvid(), pos=rpos(rng), par=reul(rng, rng.choice(["full", "full", "yaw", "zero"])),
                      p=rpos(rng), away=rng.random() < 0.5, directly=rng.random() < 0.5,
                      roll=rng.choice([0.0, rf(rng, -3, 3)]))
            if rng.random() < 0.1:
                it["roll"] = rng.choice([1e-12, -0.0, 1e4])
            word = ("directly " if it["directly"] else "") + ("away from" if it["away"] else "toward")
            rs = f", with roll {it['roll']!r}" if it["roll"] else ""
            L.append(f"new Object at {tup(it['pos'])}, with parentOrientation {tup(it['par'])}, facing {word} {tup(it['p'])}{rs}, {tail(it['vid'])}")
            items.append(it)
        elif k == "apparently":
            it = dict(kind="apparently", vid=newvid(), pos=rpos(rng), par=reul(rng, rng.choice(["zero", "yaw", "full"])),
                      p=rpos(rng), h=rb(rng, -3, 3, 0.15), frm=rng.choice(["vec", "ego"]))
            if it["frm"] == "ego":
                it["p"] = ego["pos"]
            fs = f" from {tup(it['p'])}" if it["frm"] == "vec" else ""
            L.append(f"new Object at {tup(it['pos'])}, with parentOrientation {tup(it['par'])}, apparently facing {it['h']!r}{fs}, {tail(it['vid'])}")
            items.append(it)
        elif k == "scalar":
            n = len([i for i in items if i["kind"] == "scalar"])
            it = dict(kind="scalar", a=rpos(rng), b=rpos(rng), tag=f"s{n}", afrom=rng.choice(["vec", "ego"]))
            if it["afrom"] == "ego":
                it["a"] = ego["pos"]
            a = tup(it["a"]) if it["afrom"] == "vec" else "ego"
            b = tup(it["b"])
            t = it["tag"]
            L.append(f"param {t}_dist = distance from {a} to {b}")
            L.append(f"param {t}_ang = angle from {a} to {b}")
            L.append(f"param {t}_alt = altitude from {a} to {b}")
            L.append(f"param {t}_rh = relative heading of op.orientation from ego.orientation")
            L.append(f"param {t}_rh2 = relative heading of ego.orientation from op.orientation")
            L.append(f"param {t}_ah = apparent heading of op from {b}")
            L.append(f"param {t}_relpos = relative position of {b} from {a}")
            items.append(it)
        elif k == "ffield":
            # facing <vector field>, under an explicit or an inherited non-global parentOrientation
            it = dict(kind="ffield", vid=newvid(), pos=rpos(rng), par=reul(rng, rng.choice(["full", "full", "full", "yaw", "zero"])),
                      how=rng.choice(["at", "at", "at", "ahead of op", "left of ego"]),
                      rel=rng.choice(["none", "none", "hrel", "frel"]), H=reul(rng, rng.choice(["yaw", "full"])))
            hs = repr(it["H"][0]) if it["H"][1:] == [0.0, 0.0] else tup(it["H"])
            fs = {"none": "fld", "hrel": f"({hs} relative to fld)", "frel": f"(fld relative to {hs})"}[it["rel"]]
            if it["how"] == "at":
                ps = f"at {tup(it['pos'])}, with parentOrientation {tup(it['par'])}"
            else:
                ps = f"{it['how']} by {rf(rng, 0.5, 9)!r}"
            L.append(f"new Object {ps}, facing {fs}, {tail(it['vid'])}")
            items.append(it)
        elif k == "along":
            n = len([i for i in items if i["kind"] == "along"])
            it = dict(kind="along", vid=newvid(), v=rbv(rng, -9, 9), x=rpos(rng), tag=f"al{n}")
            L.append(f"new Object offset along fld by {tup(it['v'])}, {tail(it['vid'])}")
            L.append(f"param {it['tag']}_ego = ego offset along fld by {tup(it['v'])}")
            L.append(f"param {it['tag']}_vec = {tup(it['x'])} offset along fld by {tup(it['v'])}")
            items.append(it)
        elif k == "follow":
            n = len([i for i in items if i["kind"] == "follow"])
            D = rng.choice([rf(rng, 0.5, 19), rf(rng, 20, 58), rf(rng, 0.5, 58), 20, 20.000001, 25.0, 0, 0.0, -0.0, 1e-12,
                            -rf(rng, 0.5, 30), -rf(rng, 0.5, 30), -20, 5, 1e-3])
            it = dict(kind="follow", vid=newvid(), frm=rng.choice(["ego", "vec"]), x=rpos(rng), D=D, tag=f"fo{n}")
            if it["frm"] == "ego":
                it["x"] = ego["pos"]
            fs = "" if it["frm"] == "ego" else f" from {tup(it['x'])}"
            L.append(f"new Object following fld{fs} for {D!r}, {tail(it['vid'])}")
            L.append(f"param {it['tag']} = follow fld from {tup(it['x'])} for {D!r}")
            items.append(it)
        elif k == "onobj":
            it = dict(kind="onobj", vid=newvid(), dims=rdims(rng), ct=rng.choice([1e-4, rf(rng, 0.01, 1.0), 0, 2.5]),
                      base=rng.choice([None, None, [rf(rng, -1, 1), rf(rng, -1, 1), rf(rng, -2, 2)], [0, 0, 0]]))
            bs = f", with baseOffset {tup(it['base'])}" if it["base"] is not None else ""
            L.append(f"new Object on ego, {dims_src(it['dims'])}, with contactTolerance {it['ct']!r}{bs}, {tail(it['vid'])}")
            items.append(it)
        elif k == "onpt":
            it = dict(kind="onpt", vid=newvid(), dims=rdims(rng), ct=rng.choice([1e-4, rf(rng, 0.01, 1.0), 0, 2.5]),
                      base=rng.choice([None, None, [rf(rng, -1, 1), rf(rng, -1, 1), rf(rng, -2, 2)]]),
                      how=rng.choice(["vec", "on-ps", "on-ps", "in-ps", "on-ps-plain"]), pts=[rpos(rng) for _ in range(rng.choice([1, 1, 3]))])
            if fd["kind"] == "poly" and it["how"] == "on-ps" and rng.random() < 0.75:
                it["how"] = "in-ps"     # (on + PolygonalVectorField is kept rare: known finding F24 rejects the whole program)
            bs = f", with baseOffset {tup(it['base'])}" if it["base"] is not None else ""
            pts = "[" + ", ".join(tup(p) for p in it["pts"]) + "]"
            if it["how"] == "vec":
                it["pts"] = it["pts"][:1]
                ts = "on " + tup(it["pts"][0])
            elif it["how"] == "on-ps-plain":
                ts = f"on PointSetRegion('ps', {pts})"
            else:
                ts = f"{it['how'][:2]} PointSetRegion('ps', {pts}, orientation=fld)"
            L.append(f"new Object {ts}, {dims_src(it['dims'])}, with contactTolerance {it['ct']!r}{bs}, {tail(it['vid'])}")
            items.append(it)
        elif k == "box":
            n = len([i for i in items if i["kind"] == "box"])
            it = dict(kind="box", side=rng.randrange(len(SIDES)), tag=f"b{n}")
            L.append(f"param {it['tag']}_side = {SIDES[it['side']]} of ego")
            items.append(it)
    src = "\n".join(L) + "\n"
    return dict(name=f"prog{idx}", src=src, seed=rng.randint(0, 10 ** 6), ego=ego, op=op, H=H, fd=fd, items=items)


# ----------------------------------------------------------------------------- model inputs
def model_line(job, it, obs):
    """(kind, list of floats) for the extracted model; values the implementation chose come from obs."""
    ego, op = job["ego"], job["op"]
    O = obs["objects"]
    k = it["kind"]
    if k == "dir":
        if it["ref"] == "obj":
            xp, xd = pose_block(ego), ego["dims"]
        elif it["ref"] == "op":
            xp, xd = pose_block(op), [0.0, 0.0, 0.0]
        else:
            xp, xd = pose_block(dict(pos=it["p"], par=[0, 0, 0], loc=[0, 0, 0])), [0.0, 0.0, 0.0]
        a = [it["d"], {"obj": 0, "op": 1, "vec": 2}[it["ref"]]] + xp + xd + eul(it["par"]) + eul(it["loc"]) + it["dims"] \
            + [it["ct"], {"none": 0, "scalar": 1, "vector": 2}[it["by"]]] + it["byv"]
        o = O[str(it["vid"])]
        a += (O["0"]["q"] if it["ref"] == "obj" else obs["params"]["op"]["q"] if it["ref"] == "op" else o["q"]) + o["q"] + o["pos"]
        return 1, a
    if k == "beyond":
        d = sub(it["p"], it["q"])
        th = math.atan2(d[1], d[0]) - math.pi / 2
        ph = math.atan2(d[2], math.hypot(d[0], d[1]))
        rho = math.hypot(*d)
        return 2, it["p"] + it["q"] + [1 if it["by"] == "scalar" else 2] + it["byv"] + ha(th) + ha(ph) + [rho]
    if k == "offset":
        return 3, pose_block(ego) + eul(job["H"]) + it["v"]
    if k == "facing":
        return 4, eul(it["par"]) + eul(it["target"]) + eul(O[str(it["vid"])]["ypr"])
    if k in ("toward", "apparently"):
        o = O[str(it["vid"])]
        d = sub(it["p"], it["pos"]) if not it.get("away") else sub(it["pos"], it["p"])
        rho = math.hypot(*d)
        away = 1 if (it.get("away") or k == "apparently") else 0   # apparently facing: line of sight from P to the object
        return 5, it["pos"] + eul(it["par"]) + it["p"] + [away] + eul(o["ypr"]) + [rho] + ha(it.get("h", 0.0))
    if k == "scalar":
        P = obs["params"]
        t = it["tag"]
        d = sub(it["b"], it["a"])
        return 6, it["a"] + it["b"] + [P[t + "_dist"]] + ha(P[t + "_ang"]) + ha(P[t + "_alt"]) + [math.hypot(d[0], d[1])] \
            + pose_block(op) + pose_block(ego) + ha(P[t + "_rh"]) + ha(P[t + "_ah"]) + P["op"]["q"] + O["0"]["q"]
    if k == "box":
        return 7, pose_block(ego) + ego["dims"] + [it["side"]] + O["0"]["q"]
    fd = job.get("fd")
    if k == "ffield":
        o = O[str(it["vid"])]
        F = field_eval(fd, o["pos"])
        if F is None:
            return None, None
        it["F"] = F
        return 8, o["pq"] + eul(F) + eul(it["H"]) + [{"none": 0, "hrel": 1, "frel": 2}[it["rel"]]] + eul(o["ypr"])
    if k == "along":
        F1, F2 = field_eval(fd, ego["pos"]), field_eval(fd, it["x"])
        if F1 is None or F2 is None:
            return None, None
        it["F1"], it["F2"] = F1, F2
        return 9, list(ego["pos"]) + eul(F1) + it["x"] + eul(F2) + it["v"]
    if k == "follow":
        r = follow_ref(fd, it["x"], it["D"])
        Ff = field_eval(fd, r[3]) if r else None
        if r is None or Ff is None:
            return None, None
        n, step, vis, fin = r
        it["ref"] = dict(n=n, step=step, final=fin, Ffinal=Ff)
        a = list(it["x"]) + [step, n] + eul(Ff)
        for v in vis:
            a += eul(field_eval(fd, v))
        return 10, a
    if k == "onobj":
        o = O[str(it["vid"])]
        # the face of X the object was put on: the one whose outward normal is the new object's up axis
        axes, nup = axes_from_corners(O["0"]["corners"]), axes_from_corners(o["corners"])[2]
        it["face"] = max(range(6), key=lambda d: dot(outward(axes, d), nup))
        return 11, pose_block(ego) + ego["dims"] + O["0"]["q"] + o["pos"] + o["q"] + it["dims"] + [it["face"]]
    if k == "onpt":
        o = O[str(it["vid"])]
        base = it["base"] if it["base"] is not None else [0.0, 0.0, -it["dims"][2] / 2]
        mode = {"vec": 0, "on-ps-plain": 0, "on-ps": 1, "in-ps": 2}[it["how"]]
        offl = sub([0.0, 0.0, it["ct"] / 2], base) if mode < 2 else [0.0, 0.0, 0.0]
        # which point of the set was sampled (recorded choice, like a random draw); the point whose field value
        # was used for the orientation is identified separately: they must be the same point (oracle below)
        best = None
        pairs = [(a_, a_) for a_ in it["pts"]] + [(a_, b_) for a_ in it["pts"] for b_ in it["pts"] if a_ is not b_]
        for a_, b_ in pairs:      # consistent pairs first; an inconsistent one must be strictly better
            Fb = [0.0, 0.0, 0.0] if mode == 0 else field_eval(fd, b_)
            if Fb is None:
                return None, None
            e = norm(sub(o["pos"], [x + y for x, y in zip(a_, q_rot(q_euler(Fb), offl))]))
            if mode > 0:
                qb = q_euler(Fb)
                e += min(norm(sub(o["pq"], qb)), norm(sub(o["pq"], [-x for x in qb])))
            if best is None or e < best[0] - 1e-7:
                best = (e, a_, b_, Fb)
        _, pt, pto, F = best
        it["pt"], it["pto"], it["F"], it["mode"] = pt, pto, F, mode
        return 12, list(pt) + eul(F) + [it["ct"]] + base + [it["mode"]]
    raise ValueError(k)


def chunk3(l):
    return [l[i:i + 3] for i in range(0, len(l), 3)]


# ----------------------------------------------------------------------------- evaluation of one item
def evaluate(c, job, it, obs, m):
    """Compare the model's output m (floats) with the implementation's observation, and evaluate the
    property oracle on the implementation's own values.  Reports through c.violation."""
    O, P = obs["objects"], obs["params"]
    ego_i = O["0"]
    k = it["kind"]
    case = dict(program=job["src"], seed=job["seed"], item=it)

    def corr(what, impl, model):
        c.violation("correspondence", f"model and implementation disagree: {what}",
                    dict(case, what=what, impl=impl, model=model, job=strip(job)))

    def oracle(kind, what, **kw):
        c.violation(kind, what, dict(case, job=strip(job), **kw))

    if k == "dir":
        o = O[str(it["vid"])]
        xq = ego_i["q"] if it["ref"] == "obj" else (P["op"]["q"] if it["ref"] == "op" else None)
        xpos = ego_i["pos"] if it["ref"] == "obj" else (P["op"]["pos"] if it["ref"] == "op" else it["p"])
        if xq is not None and not qclose(m[0:4], xq):
            corr("orientation of X (parentOrientation * fromEuler(yaw,pitch,roll))", xq, m[0:4])
        if not vclose(m[4:7], o["pos"], 50):
            corr(f"position of `{DIRWORDS[it['d']]}` ({it['ref']}, by {it['by']})", o["pos"], m[4:7])
        if not qclose(m[7:11], o["pq"]):
            corr("parentOrientation given by the directional specifier", o["pq"], m[7:11])
        if not qclose(m[11:15], o["q"]):
            corr("orientation of the new object", o["q"], m[11:15])
        mcx, mcn = chunk3(m[15:39]), chunk3(m[39:63])
        if it["ref"] == "obj" and not all(vclose(a, b, 50) for a, b in zip(mcx, ego_i["corners"])):
            corr("corners of X", ego_i["corners"], mcx)
        if not all(vclose(a, b, 50) for a, b in zip(mcn, o["corners"])):
            corr("corners of the new object", o["corners"], mcn)
        # independent gap: corner sets projected on X's local axis, from obj.corners only
        if it["ref"] == "obj":
            axes, cx = axes_from_corners(ego_i["corners"]), ego_i["corners"]
        else:
            axes, cx = axes_from_corners(o["corners"]), [xpos]
        u = outward(axes, it["d"])
        gap = gap_from_corners(u, cx, o["corners"])
        if (it["aligned"] or it["ref"] == "obj") and not close(m[63], gap, 50):
            corr("gap between the corner sets along X's axis", gap, m[63])
        if it["aligned"]:
            a = it["d"] // 2
            want = {"none": (it["ct"] / 2 if it["ref"] == "obj" else 0.0), "scalar": it["byv"][a], "vector": it["byv"][a]}[it["by"]]
            if not close(gap, want, 50):
                oracle("gap", f"`{DIRWORDS[it['d']]} X` leaves a gap of {gap!r} between the bounding boxes along X's axis, documented {want!r}",
                       gap=gap, documented=want)
            # lateral placement: the other two coordinates of the centre in X's frame
            rel = sub(o["pos"], xpos)
            for j in range(3):
                if j != a:
                    wantj = it["byv"][j] if it["by"] == "vector" else 0.0
                    if not close(dot(axes[j], rel), wantj, 50):
                        oracle("lateral", f"`{DIRWORDS[it['d']]} X`: centre is displaced sideways by {dot(axes[j], rel)!r}, documented {wantj!r}",
                               axis=j, got=dot(axes[j], rel), documented=wantj)
        if it["ref"] in ("obj", "op") and not qclose(o["pq"], xq):
            oracle("inherit", f"`{DIRWORDS[it['d']]} X` does not inherit X's orientation as parentOrientation", impl=o["pq"], documented=xq)
        c.hist(f"dir:{DIRWORDS[it['d']]}:{it['ref']}:{it['by']}:{'aligned' if it['aligned'] else 'rotated'}")
        return ego_nontrivial(job) or it["ref"] != "obj"
    if k == "beyond":
        o = O[str(it["vid"])]
        d = sub(it["p"], it["q"])
        rho = math.hypot(*d)
        if not vclose(m[0:3], o["pos"], 50):
            corr(f"position of `beyond` (by {it['by']}, from {it['frm']})", o["pos"], m[0:3])
        if not vclose(m[3:6], [0, 0, 0], rho):
            corr("spherical angles of the line of sight (recorded atan2 values) do not reproduce it", d, m[3:6])
        if not vclose(m[6:9], it["byv"], 50):
            corr("`beyond` offset expressed in the line-of-sight frame", it["byv"], m[6:9])
        if it["by"] == "scalar":
            want = [p + it["byv"][1] * x for p, x in zip(it["p"], unit(d))]
            if not vclose(o["pos"], want, 50):
                oracle("beyond", "`beyond P by D from Q` is not D further along the line of sight Q->P", impl=o["pos"], documented=want)
        else:
            if not close(dot(sub(o["pos"], it["p"]), unit(d)), it["byv"][1], 50) or not close(norm(sub(o["pos"], it["p"])), norm(it["byv"]), 50):
                oracle("beyond", "`beyond P by V from Q`: V is not applied in the line-of-sight frame", impl=o["pos"])
        docq = {"default": ego_i["q"], "ego": ego_i["q"], "op": P["op"]["q"], "vec": [0.0, 0.0, 0.0, 1.0]}[it["frm"]]
        if not qclose(o["pq"], docq):
            oracle("beyond-parent-orientation",
                   "`beyond X by Y from Z` with Z an OrientedPoint/Object (or the ego by default) does not give Z's orientation as parentOrientation",
                   impl=o["pq"], documented=docq, impl_is_global=qclose(o["pq"], [0.0, 0.0, 0.0, 1.0]))
        c.hist(f"beyond:{it['by']}:from-{it['frm']}")
        return True
    if k == "offset":
        ob, oa = O[str(it["vid_by"])], O[str(it["vid_along"])]
        if not qclose(m[0:4], ego_i["q"]):
            corr("orientation of ego", ego_i["q"], m[0:4])
        for name, impl in (("offset by (specifier)", ob["pos"]), ("V relative to ego", P["rel_op"]["pos"]), ("ego offset by V", P["off_op"]["pos"])):
            if not vclose(m[4:7], impl, 50):
                corr(name, impl, m[4:7])
        if not qclose(m[7:11], P["hp"]["q"]):
            corr("orientation from a parentOrientation tuple", P["hp"]["q"], m[7:11])
        for name, impl in (("offset along (specifier)", oa["pos"]), ("ego offset along H by V", P["along_op"]["v"])):
            if not vclose(m[11:14], impl, 50):
                corr(name, impl, m[11:14])
        if not qclose(m[14:18], P["ego_rel_h"]["q"]):
            corr("ego.orientation relative to H", P["ego_rel_h"]["q"], m[14:18])
        if not qclose(m[18:22], P["h_rel_ego"]["q"]):
            corr("H relative to ego.orientation", P["h_rel_ego"]["q"], m[18:22])
        # oracle: frames and inherited orientations, from the implementation's own values
        axes = axes_from_corners(ego_i["corners"])
        loc = [dot(ax, sub(ob["pos"], ego_i["pos"])) for ax in axes]
        if not vclose(loc, it["v"], 50):
            oracle("frame", "`offset by V` is not V in ego's local frame", impl=loc, documented=it["v"])
        haxes = [q_rot(P["hp"]["q"], e) for e in ([1, 0, 0], [0, 1, 0], [0, 0, 1])]
        loc = [dot(ax, sub(oa["pos"], ego_i["pos"])) for ax in haxes]
        if not vclose(loc, it["v"], 50):
            oracle("frame", "`offset along H by V` is not V in the frame centred at ego and oriented along H", impl=loc, documented=it["v"])
        for name, o in (("offset by", ob), ("offset along", oa)):
            if not qclose(o["pq"], ego_i["q"]):
                oracle("inherit", f"`{name}` does not give ego's orientation as parentOrientation", impl=o["pq"], documented=ego_i["q"])
        for name in ("rel_op", "off_op"):
            if not qclose(P[name]["q"], ego_i["q"]):
                oracle("inherit", "`V relative to OrientedPoint` does not inherit its orientation", impl=P[name]["q"], documented=ego_i["q"])
        if not vclose(P["vecrel"]["v"], [a + b for a, b in zip(it["v"], job["op"]["pos"])], 50):
            oracle("frame", "`V relative to W` on plain vectors is not the sum", impl=P["vecrel"]["v"])
        c.hist("offset:" + it["hform"])
        return ego_nontrivial(job)
    if k == "facing":
        o = O[str(it["vid"])]
        for i, name in ((0, "parentOrientation from a tuple"), (8, "parent * (parent^-1 * target)"), (12, "parent * fromEuler(local angles chosen by `facing`)")):
            impl = o["pq"] if i == 0 else o["q"]
            if not qclose(m[i:i + 4], impl):
                corr(name, impl, m[i:i + 4])
        tq = q_euler(it["target"])
        if not qclose(m[4:8], tq):
            corr("fromEuler (harness reference)", tq, m[4:8])
        if not qclose(o["q"], tq):
            oracle("facing", "`facing O` does not yield O as the global orientation", impl=o["q"], documented=tq)
        ed = euler_defect(o)
        if ed:
            oracle("euler", "yaw/pitch/roll stored by `facing O` are not the intrinsic ZXY angles of the local rotation: " + ed["what"],
                   impl=ed["impl"], documented=ed["documented"], ypr=o["ypr"])
        c.hist("facing:" + ("heading" if it["target"][1:] == [0.0, 0.0] else "euler"))
        return it["par"] != [0.0, 0.0, 0.0]
    if k in ("toward", "apparently"):
        o = O[str(it["vid"])]
        if not qclose(m[3:7], o["q"]):
            corr("orientation = parent * fromEuler(yaw, pitch, roll)", o["q"], m[3:7])
        if k == "toward":
            d = sub(it["pos"], it["p"]) if it["away"] else sub(it["p"], it["pos"])
            rho = norm(d)
            if not close(m[7], 0.0, rho) or not (m[8] > 0):
                corr("yaw chosen by `facing toward/away from` is not the azimuth of the line of sight in the parent frame", o["ypr"], m[7:9])
            if it["directly"] and not vclose(m[9:12], [0, 0, 0], rho):
                corr("(yaw, pitch) chosen by `facing directly ...` are not the spherical angles of the line of sight in the parent frame", o["ypr"], m[9:12])
            if not it["directly"] and o["ypr"][1] != 0.0:
                oracle("facing", "`facing toward` changed pitch", impl=o["ypr"])
            if not close(norm_angle(o["ypr"][2] - it["roll"]), 0.0):
                oracle("facing", "`facing ... toward` changed roll", impl=o["ypr"])
            # oracle on the implementation's own values: forward axis vs line of sight
            fwd = unit(sub(o["corners"][0], o["corners"][3]))
            if it["directly"] :
                if not vclose(fwd, unit(d)):
                    oracle("facing", "`facing directly toward/away from P`: the forward axis does not point along the line of sight", impl=fwd, documented=unit(d))
            else:
                pinv = q_conj(o["pq"])
                f2, d2 = q_rot(pinv, fwd), q_rot(pinv, d)
                if it["roll"] == 0.0 and (not close(f2[0] * d2[1] - f2[1] * d2[0], 0.0, rho) or f2[0] * d2[0] + f2[1] * d2[1] <= 0):
                    oracle("facing", "`facing toward/away from P`: in the parent frame the forward axis is not above the line of sight", impl=f2, documented=d2)
            c.hist(f"toward:{'directly' if it['directly'] else 'yaw'}:{'away' if it['away'] else 'toward'}")
        else:
            los = sub(it["pos"], it["p"])
            glob = it["par"] == [0.0, 0.0, 0.0]
            old_ok = close(m[12], 0.0, norm(los)) and m[13] > 0      # yaw - H = azimuth of the line of sight in the global frame
            new_ok = close(m[14], 0.0, norm(los)) and m[15] > 0      # ... in the parent frame (repaired behaviour, F21)
            # independent float computation of the same two relations
            az = norm_angle(math.atan2(los[1], los[0]) - math.pi / 2)
            ll = q_rot(q_conj(o["pq"]), los)
            azl = norm_angle(math.atan2(ll[1], ll[0]) - math.pi / 2)
            o_old = close(norm_angle(o["ypr"][0] - az - it["h"]), 0.0)
            o_new = close(norm_angle(o["ypr"][0] - azl - it["h"]), 0.0)
            if (new_ok != o_new or old_ok != o_old) and math.hypot(ll[0], ll[1]) > 1e-3 * norm(los):
                corr("`apparently facing H from V`: model relation and harness relation disagree", [o_old, o_new], [old_ok, new_ok])
            if not new_ok and not o_new:
                if old_ok and not glob:
                    # documented: heading H with respect to the line of sight; yaw is relative to parentOrientation
                    oracle("apparently-facing-parent",
                           "`apparently facing H from V` with a non-global parentOrientation: the yaw is H plus the azimuth of the line of sight in the GLOBAL frame, "
                           "so the object's heading relative to the line of sight is not H (parentOrientation is ignored)",
                           impl_yaw=o["ypr"][0], documented_yaw=norm_angle(azl + it["h"]), parent_is_global=glob)
                else:
                    corr("yaw chosen by `apparently facing H from V` is not H plus the azimuth of the line of sight (in the parent frame)", o["ypr"], m[12:16])
            if o["ypr"][1] != 0.0 or o["ypr"][2] != 0.0:
                oracle("facing", "`apparently facing` changed pitch or roll", impl=o["ypr"])
            c.hist("apparently:" + it["frm"])
        return it["par"] != [0.0, 0.0, 0.0]
    if k == "scalar":
        t = it["tag"]
        d = sub(it["b"], it["a"])
        rho = norm(d)
        names = ["distance", "angle", "angle(sign)", "hypot", "altitude", "altitude(sign)", "relative heading", "relative heading(sign)",
                 "apparent heading", "apparent heading(sign)"]
        for i in (0, 1, 3, 4, 6, 8):
            scale = rho * rho if i in (0, 3) else rho
            if not close(m[i], 0.0, scale):
                corr(f"value returned by `{names[i]}` does not satisfy its defining relation (residual)", P.get(t + "_dist"), m[i])
        for i in (2, 5, 7, 9):
            if not m[i] > 0 and not (i == 5 and m[i] >= 0):
                corr(f"value returned by `{names[i]}` points the wrong way", None, m[i])
        if not qclose(m[10:14], P["op"]["q"]) or not qclose(m[14:18], ego_i["q"]):
            corr("orientations of op / ego", [P["op"]["q"], ego_i["q"]], [m[10:14], m[14:18]])
        # direct oracles
        if not close(P[t + "_dist"], math.sqrt(dot(d, d)), 50) or P[t + "_dist"] < 0:
            oracle("operator", "`distance from A to B` is not the Euclidean distance", impl=P[t + "_dist"])
        if not close(P[t + "_ang"], norm_angle(math.atan2(d[1], d[0]) - math.pi / 2)) or not -math.pi <= P[t + "_ang"] <= math.pi:
            oracle("operator", "`angle from A to B` is not the azimuth (0 = +Y, counter-clockwise)", impl=P[t + "_ang"])
        if not close(P[t + "_alt"], math.atan2(d[2], math.hypot(d[0], d[1]))):
            oracle("operator", "`altitude from A to B` is not the elevation angle", impl=P[t + "_alt"])
        if not close(norm_angle(P[t + "_rh"] + P[t + "_rh2"]), 0.0):
            oracle("operator", "`relative heading of A from B` is not the negation of `relative heading of B from A`", impl=[P[t + "_rh"], P[t + "_rh2"]])
        if not close(P[t + "_rh"], norm_angle(P["op"]["heading"] - ego_i["heading"])):
            oracle("operator", "`relative heading` is not the difference of headings", impl=P[t + "_rh"])
        los = sub(job["op"]["pos"], it["b"])
        if not close(norm_angle(P[t + "_ah"] - (P["op"]["heading"] - norm_angle(math.atan2(los[1], los[0]) - math.pi / 2))), 0.0):
            oracle("operator", "`apparent heading of P from B` is not P's heading relative to the line of sight", impl=P[t + "_ah"])
        if not vclose(P[t + "_relpos"]["v"], d, 50):
            oracle("operator", "`relative position of B from A` is not B - A", impl=P[t + "_relpos"]["v"])
        c.hist("scalar:" + it["afrom"])
        return True
    if k == "box":
        s = P[it["tag"] + "_side"]
        if not qclose(m[0:4], ego_i["q"]):
            corr("orientation of ego", ego_i["q"], m[0:4])
        if not vclose(m[4:7], s["pos"], 50):
            corr(f"`{SIDES[it['side']]} of ego`", s["pos"], m[4:7])
        if not all(vclose(a, b, 50) for a, b in zip(chunk3(m[7:31]), ego_i["corners"])):
            corr("corners of ego", ego_i["corners"], chunk3(m[7:31]))
        if not qclose(s["q"], ego_i["q"]):
            oracle("inherit", f"`{SIDES[it['side']]} of ego` does not inherit ego's orientation", impl=s["q"], documented=ego_i["q"])
        # oracle: the named point from the corners alone
        words = SIDES[it["side"]].split()
        sel = [cc for cc, sg in zip(ego_i["corners"], [(1, 1, 1), (-1, 1, 1), (-1, -1, 1), (1, -1, 1), (1, 1, -1), (-1, 1, -1), (-1, -1, -1), (1, -1, -1)])
               if all({"front": sg[1] > 0, "back": sg[1] < 0, "left": sg[0] < 0, "right": sg[0] > 0, "top": sg[2] > 0, "bottom": sg[2] < 0}[w] for w in words)]
        want = [sum(p[j] for p in sel) / len(sel) for j in range(3)]
        if not vclose(s["pos"], want, 50):
            oracle("frame", f"`{SIDES[it['side']]} of ego` is not the midpoint of that side/edge/corner of the bounding box", impl=s["pos"], documented=want)
        c.hist("box:" + str(len(words)) + "-word")
        return ego_nontrivial(job)
    fd = job.get("fd")
    IDQ = [0.0, 0.0, 0.0, 1.0]
    tilted = lambda e: bool(e[1] or e[2])
    if k == "ffield":
        o = O[str(it["vid"])]
        tq = q_euler(it["F"])
        if it["rel"] == "hrel":
            tq = q_mul(tq, q_euler(it["H"]))
        elif it["rel"] == "frel":
            tq = q_mul(q_euler(it["H"]), tq)
        if not qclose(m[0:4], tq):
            corr("value of the field expression at the object's position (harness reference)", tq, m[0:4])
        if not qclose(m[4:8], o["q"]):
            corr("`facing <field>`: parent * (parent^-1 * F[position])", o["q"], m[4:8])
        if not qclose(m[8:12], o["q"]):
            corr("parent * fromEuler(local angles chosen by `facing <field>`)", o["q"], m[8:12])
        if not qclose(o["q"], tq):
            oracle("facing-field", "`facing <vector field>` does not yield the field's value at the object's position as the global orientation",
                   impl=o["q"], documented=tq, field_value=it["F"], parentOrientation=o["pq"])
        ed = euler_defect(o)
        if ed:
            oracle("euler", "yaw/pitch/roll stored by `facing <field>` are not the intrinsic ZXY angles of the local rotation: " + ed["what"],
                   impl=ed["impl"], documented=ed["documented"], ypr=o["ypr"])
        if it["how"] != "at":
            docq = P["op"]["q"] if "op" in it["how"] else ego_i["q"]
            if not qclose(o["pq"], docq):
                oracle("inherit", f"`{it['how']}` does not give X's orientation as parentOrientation", impl=o["pq"], documented=docq)
        elif not qclose(o["pq"], q_euler(it["par"])):
            oracle("inherit", "explicit `with parentOrientation` not kept", impl=o["pq"], documented=q_euler(it["par"]))
        c.hist(f"ffield:{fd['kind']}:{it['rel']}:{'at' if it['how'] == 'at' else 'inherited'}")
        return not qclose(o["pq"], IDQ) and (tilted(it["F"]) or abs(o["pq"][0]) + abs(o["pq"][1]) > 1e-6)
    if k == "along":
        o = O[str(it["vid"])]
        for name, impl, mm in (("offset along <field> (specifier)", o["pos"], m[0:3]), ("ego offset along <field> by V", P[it["tag"] + "_ego"]["v"], m[0:3]),
                               ("X offset along <field> by V", P[it["tag"] + "_vec"]["v"], m[3:6])):
            if not vclose(mm, impl, 50):
                corr(name, impl, mm)
        for name, x, F, impl in (("specifier", ego_i["pos"], it["F1"], o["pos"]), ("operator", it["x"], it["F2"], P[it["tag"] + "_vec"]["v"])):
            haxes = [q_rot(q_euler(F), e) for e in ([1, 0, 0], [0, 1, 0], [0, 0, 1])]
            loc = [dot(ax, sub(impl, x)) for ax in haxes]
            if not vclose(loc, it["v"], 50):
                oracle("frame", f"`offset along <field> by V` ({name}) is not V in the frame centred at X and oriented along the field's value at X",
                       impl=loc, documented=it["v"])
        if not qclose(o["pq"], ego_i["q"]):
            oracle("inherit", "`offset along <field>` does not give ego's orientation as parentOrientation", impl=o["pq"], documented=ego_i["q"])
        c.hist("along:" + fd["kind"])
        return tilted(it["F1"]) or tilted(it["F2"])
    if k == "follow":
        o, fp, ref = O[str(it["vid"])], P[it["tag"]], it["ref"]
        scale = 50 + abs(it["D"])
        for name, x in (("following (specifier)", o), ("follow (operator)", fp)):
            if not vclose(m[0:3], x["pos"], scale):
                corr(f"position of `{name}`", x["pos"], m[0:3])
            if not qclose(m[3:7], x["pq"]):
                corr(f"parentOrientation of `{name}`", x["pq"], m[3:7])
            if not vclose(x["pos"], ref["final"], scale):
                oracle("following", f"`{name}` F from X for D is not the forward-Euler path of max(4, ceil(D/5)) equal steps along the field",
                       impl=x["pos"], documented=ref["final"], steps=ref["n"], step=ref["step"])
            if not qclose(x["pq"], q_euler(ref["Ffinal"])):
                oracle("following", f"`{name}` does not give the field's value at the end point as parentOrientation", impl=x["pq"], documented=q_euler(ref["Ffinal"]))
            if norm(sub(x["pos"], it["x"])) > abs(it["D"]) * (1 + 1e-9) + 1e-9:
                oracle("following", f"`{name}` F from X for D ends further than |D| from X", impl=x["pos"], D=it["D"])
        c.hist(f"follow:{fd['kind']}:{'zero' if it['D'] == 0 else 'neg' if it['D'] < 0 else 'min-steps' if it['D'] <= 20 else 'more-steps'}")
        return it["D"] != 0
    if k == "onobj":
        o = O[str(it["vid"])]
        if not qclose(m[0:4], ego_i["q"]):
            corr("orientation of ego", ego_i["q"], m[0:4])
        axes, naxes = axes_from_corners(ego_i["corners"]), axes_from_corners(o["corners"])
        d, a = it["face"], it["face"] // 2
        up = outward(axes, d)
        gap = gap_from_corners(up, ego_i["corners"], o["corners"])
        if not close(m[4], gap, 50):
            corr("gap between the corner sets along the normal of X's face", gap, m[4])
        loc = [dot(ax, sub(o["pos"], ego_i["pos"])) for ax in axes]
        if not vclose(m[5:8], loc, 50):
            corr("centre of the new object in X's frame", loc, m[5:8])
        if not vclose(m[11:14], up):
            corr("outward normal of X's face", up, m[11:14])
        if not vclose(m[8:11], [0, 0, 0]) or not vclose(naxes[2], up):
            oracle("on", "`on <Object>`: the new object's up axis is not the normal of a face of X", impl=naxes[2], documented=up)
        if up[2] < 0.5 - 1e-9:
            oracle("on", "`on <Object>`: the face used is not part of X's top surface (normal with z component >= 0.5)", impl=up)
        base = it["base"] if it["base"] is not None else [0.0, 0.0, -it["dims"][2] / 2]
        if not vclose(o["base"], base):
            oracle("on", "baseOffset is not the documented default (0,0,-height/2) / the given one", impl=o["base"], documented=base)
        bp = [o["pos"][j] + sum(base[i] * naxes[i][j] for i in range(3)) for j in range(3)]
        h = dot(up, sub(bp, ego_i["pos"])) - job["ego"]["dims"][a] / 2
        if not close(h, it["ct"] / 2, 50):
            oracle("on", f"`on <Object>`: the base point of the new object is {h!r} above X's face, documented contactTolerance/2 = {it['ct'] / 2!r}",
                   got=h, documented=it["ct"] / 2)
        if it["base"] is None and not close(gap, it["ct"] / 2, 50):
            oracle("gap", f"`on <Object>` leaves a gap of {gap!r} between the bounding boxes along the normal of X's face, documented {it['ct'] / 2!r}",
                   gap=gap, documented=it["ct"] / 2)
        bl = [dot(ax, sub(bp, ego_i["pos"])) for ax in axes]
        if any(abs(bl[j]) > job["ego"]["dims"][j] / 2 + 1e-6 for j in range(3) if j != a):
            oracle("on", "`on <Object>`: the base point is not over X's face", impl=bl)
        c.hist("on:object:" + ("default-base" if it["base"] is None else "base"))
        return ego_nontrivial(job)
    if k == "onpt":
        o = O[str(it["vid"])]
        base = it["base"] if it["base"] is not None else [0.0, 0.0, -it["dims"][2] / 2]
        fq = q_euler(it["F"])
        off = q_rot(fq, sub([0.0, 0.0, it["ct"] / 2], base)) if it["mode"] < 2 else [0.0, 0.0, 0.0]
        want = [a + b for a, b in zip(it["pt"], off)]
        if not vclose(m[0:3], o["pos"], 50):
            corr(f"position of `{it['how']}`", o["pos"], m[0:3])
        if not qclose(m[3:7], o["pq"]):
            corr(f"parentOrientation of `{it['how']}`", o["pq"], m[3:7])
        c.hist(f"on:{it['how']}:" + ("default-base" if it["base"] is None else "base"))
        if it["pto"] is not it["pt"] and vclose(o["pos"], want, 50) and qclose(o["pq"], fq):
            # exactly explained by: the orientation (and the rotation of the contact offset) were taken from the
            # region's orientation at ANOTHER point of the region than the one the object was put on
            oracle("on-resampled", f"`{it['how']}`: the object is placed at one sampled point of the region but gets the parentOrientation "
                   "(and contact-offset rotation) of the region's orientation at a different, independently sampled point",
                   impl=o["pq"], documented=q_euler(field_eval(fd, it["pt"])), placed_on=it["pt"], orientation_from=it["pto"],
                   orientation_from_other_point=True)
            return True
        if not vclose(o["pos"], want, 50):
            oracle("on", f"`{it['how']}`: position is not the surface point plus the contact offset ((0,0,contactTolerance/2) - baseOffset) in the surface's orientation",
                   impl=o["pos"], documented=want)
        if not qclose(o["pq"], fq):
            oracle("inherit", f"`{it['how']}` does not give the region's orientation at the point as parentOrientation", impl=o["pq"], documented=fq)
        if it["base"] is None and it["mode"] < 2:
            nrm = q_rot(fq, [0.0, 0.0, 1.0])
            low = min(dot(nrm, sub(cc, it["pt"])) for cc in o["corners"])
            if not close(low, it["ct"] / 2, 50):
                oracle("gap", f"`{it['how']}`: the bounding box is {low!r} above the surface point along the surface normal, documented {it['ct'] / 2!r}",
                       gap=low, documented=it["ct"] / 2)
        return it["mode"] == 0 or tilted(it["F"])
    raise ValueError(k)


def euler_defect(o):
    """defining equations of the intrinsic ZXY Euler angles (C07_euler_matrix) on an object's stored yaw/pitch/roll
    against its stored quaternions: returns a description of the first one violated, or None"""
    y, p, r = o["ypr"]
    loc = q_mul(q_conj(o["pq"]), o["q"])
    f, x, z = q_rot(loc, [0.0, 1.0, 0.0]), q_rot(loc, [1.0, 0.0, 0.0]), q_rot(loc, [0.0, 0.0, 1.0])
    want = [-math.sin(y) * math.cos(p), math.cos(y) * math.cos(p), math.sin(p)]
    if not vclose(f, want):
        return dict(what="forward axis of parent^-1 * orientation is not (-sin yaw cos pitch, cos yaw cos pitch, sin pitch)", impl=f, documented=want)
    if not close(x[2], -math.cos(p) * math.sin(r)) or not close(z[2], math.cos(p) * math.cos(r)):
        return dict(what="z components of the right/up axes are not (-cos pitch sin roll, cos pitch cos roll)", impl=[x[2], z[2]],
                    documented=[-math.cos(p) * math.sin(r), math.cos(p) * math.cos(r)])
    return None


def ego_nontrivial(job):
    e = job["ego"]
    return any(e["par"][1:]) or any(e["loc"][1:])


def strip(job):
    return dict(name=job["name"], src=job["src"], seed=job["seed"], ego=job["ego"], op=job["op"], H=job["H"], fd=job.get("fd"), items=job["items"])


# ----------------------------------------------------------------------------- main
def main():
    c = Check(PID, "proof")
    c.cov["rule"] = ("Scenic programs from a seeded generator: an ego Object and an OrientedPoint with positions 4..40 m away from the "
                     "origin on every axis, non-global parentOrientation and arbitrary local yaw/pitch/roll, random box sizes, one python-defined "
                     "vector field (constant heading / Euler tuple / Orientation, Euler angles affine in the position, 4-cell polygonal); then "
                     "placements (six directional specifiers x {Object, OrientedPoint, vector} x {no by, scalar, vector, degenerate distribution} x "
                     "{aligned, rotated}, beyond x {scalar, vector} x {from default/ego/OrientedPoint/vector}, offset by/along, facing family, "
                     "facing <field> [relative to H] under explicit or inherited parentOrientation, offset along <field>, following/follow, "
                     "on <Object>/<vector>/<point set [oriented by the field]>, in <oriented point set>) and operator values; every numeric "
                     "argument takes boundary values (0, 0.0, -0.0, +-1e-12, negative, +-1e4) with probability 0.15-0.35. A case is one "
                     "placement/operator group of one generated scene; it is non-trivial when the frames involved are tilted out of the XY "
                     "plane (pitch or roll of parent, local angles or field value non-zero), so that frame mistakes are visible; distinct by "
                     "hash of (program, item)")
    import time
    T = [time.time()]

    def lap(what):
        T.append(time.time())
        c.cov.setdefault("phase_wall_s", {})[what] = round(T[-1] - T[-2], 1)

    common.ensure_parser()
    lap("parser")
    if not c.proofs():
        c.finish()
    lap("proofs")
    exe = common.build_ocaml(PID)
    lap("extraction")
    quick = c.tier == "quick"
    nprog = int(os.environ.get("VERIF_C07_NPROG", 110 if quick else 2500))
    rng = c.rng
    jobs = []
    corpus_dir = os.path.join(common.VERIF, "corpus", PID)
    if os.path.isdir(corpus_dir):
        for f in sorted(os.listdir(corpus_dir)):
            if f.endswith(".json"):
                jobs.append(json.load(open(os.path.join(corpus_dir, f))))
    jobs += [gen_program(rng, i, 20) for i in range(nprog)]
    if c.replay:
        body = json.load(open(c.replay))
        jobs = [body["case"]["job"]] if "job" in body.get("case", {}) else jobs[:4]
    nw = min(8, common.NCPU)
    chunks = [ch for ch in (jobs[i::nw] for i in range(nw)) if ch]
    results = {}
    with cf.ThreadPoolExecutor(nw) as ex:
        for r in ex.map(lambda ch: common.run_impl("impl_c07.py", dict(programs=[dict(name=j["name"], src=j["src"], seed=j["seed"]) for j in ch]), timeout=7000), chunks):
            for x in r["results"]:
                results[x["name"]] = x
    lap("implementation")
    lines, index = [], []
    for job in jobs:
        obs = results.get(job["name"])
        if obs is None or "error" in obs:
            c.violation("harness", "the implementation rejected or crashed on a generated program",
                        dict(job=strip(job), error=(obs or {}).get("error"), trace=(obs or {}).get("trace")))
            c.hist("program-error")
            continue
        c.hist("programs")
        c.cov["traces_validated_against_impl"] += 1
        for it in job["items"]:
            try:
                kind, a = model_line(job, it, obs)
            except KeyError as e:
                c.violation("harness", "observation missing for an item", dict(job=strip(job), item=it, missing=str(e)))
                continue
            if kind is None:
                c.hist("skipped:cell-boundary")
                continue
            lines.append(str(kind) + " " + " ".join(qs(x) for x in a))
            index.append((job, it, obs))
    out = [None] * len(lines)
    parts = [list(range(i, len(lines), nw)) for i in range(nw)]
    with cf.ThreadPoolExecutor(nw) as ex:
        for idxs, res in zip(parts, ex.map(lambda idxs: common.run_driver(exe, [lines[i] for i in idxs]) if idxs else [], parts)):
            for i, r in zip(idxs, res):
                out[i] = r
    lap("model")
    for (job, it, obs), line in zip(index, out):
        if line.startswith("FAIL"):
            c.violation("harness", "model driver failed", dict(job=strip(job), item=it, line=line), no_input=True)
            continue
        m = [parse_q(t) for t in line.split()]
        try:
            nontrivial = evaluate(c, job, it, obs, m)
        except KeyError as e:
            c.violation("harness", "observation missing for an item", dict(job=strip(job), item=it, missing=str(e)))
            continue
        c.count((job["src"], it), nontrivial=bool(nontrivial))
        c.cov["disagreements_checked"] += 1
        if it["kind"] in ("dir", "beyond"):
            c.sample(dict(item=it, ego=job["ego"], model_position=m[4:7] if it["kind"] == "dir" else m[0:3],
                          impl_position=obs["objects"][str(it["vid"])]["pos"]), limit=4)
    c.cov["programs"] = len(jobs)
    if os.environ.get("VERIF_C07_DEBUG"):
        import collections
        for (kd, wh), n in collections.Counter((v[0], v[1][:140]) for v in c.violations).most_common():
            print("DEBUG", n, kd, wh)
    c.cov["trusted_base"] += ["axiom: ClassicalDedekindReals.sig_forall_dec", "axiom: FunctionalExtensionality.functional_extensionality_dep",
                              "(the three axioms of Coq's classical Dedekind reals, as printed by Print Assumptions for every C07 theorem)"]
    c.assumptions += [
        "exact arithmetic: binary64 rounding is not modelled; model (on the exact rational value of every input float) and implementation are compared at 1e-9 relative/absolute",
        "sin/cos/atan2/hypot values are recorded (python math on the same floats the implementation used) and enter the model as half-angle (cos,sin) pairs; theorems constrain them only by c^2+s^2=1",
        "scipy Rotation (quaternion product, ZXY Euler conversion, apply) is modelled and differentially tested, not verified",
        "extraction via ExtrOcamlBasic only; OCaml compiler; 25-line driver",
        "model = hand-written Gallina (coq/C07) tied to the code by this differential run only",
    ]
    c.finish()


if __name__ == "__main__":
    main()
