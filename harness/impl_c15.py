"""Runs in a FRESH /venv python process per (program, seed, variant): Scenic from $VERIF_REPO.
The orchestrator varies PYTHONHASHSEED and VERIF_VARIANT between processes; this script additionally
moves object addresses (random allocation pattern before importing Scenic) and replaces
time.perf_counter by a per-process pseudo-random clock so that the WeightedAcceptanceChecker orders
requirements differently.  Output: a canonical dump that must be bit-identical across variants."""
import hashlib
import json
import os
import random
import sys
import time
import warnings

warnings.filterwarnings("ignore")
VARIANT = int(os.environ.get("VERIF_VARIANT", "0"))

# ---- move ids: allocate (and keep) a variant-dependent pattern of objects before anything else
_keep = []
_r = random.Random(VARIANT * 7919 + 1)
if VARIANT:
    for _ in range(_r.randint(1000, 60000)):
        k = _r.randint(0, 3)
        _keep.append([None] * _r.randint(1, 40) if k == 0 else (object() if k == 1 else (bytearray(_r.randint(1, 300)) if k == 2 else {i: i for i in range(_r.randint(0, 9))})))
    del _keep[::_r.randint(2, 5)]

# ---- timing jitter: a clock that advances by pseudo-random, heavy-tailed steps
_real_pc = time.perf_counter
_clk = [1000.0]
_jr = random.Random(VARIANT * 104729 + 5)


def _fake_pc():
    _clk[0] += _jr.choice([1e-7, 1e-6, 1e-5, 1e-4, 1e-3, 1e-2]) * (0.5 + _jr.random())
    return _clk[0]


if VARIANT:
    time.perf_counter = _fake_pc

import numpy

import scenic
from scenic.core.distributions import RejectionException, Samplable, needsSampling
from scenic.core.simulators import DummySimulator
from scenic.core.vectors import Orientation, Vector

# ---- log of the user-visible random stream: every random.* call Scenic makes (function, arguments)
LOG = []
_ENABLED = [False]


def _wrap(name):
    orig = getattr(random, name)

    def w(*a, **kw):
        v = orig(*a, **kw)
        if _ENABLED[0]:
            LOG.append(name + "(" + ",".join(canon_arg(x) for x in a) + (";" + ",".join(f"{k}={canon_arg(x)}" for k, x in sorted(kw.items())) if kw else "") + ")")
        return v
    setattr(random, name, w)


def canon_arg(x):
    if isinstance(x, float):
        return x.hex()
    if isinstance(x, (int, str, bool)) or x is None:
        return repr(x)
    if isinstance(x, (list, tuple)):
        return "[" + ",".join(canon_arg(y) for y in x) + "]"
    return "<" + type(x).__name__ + ">"


for _n in ("random", "uniform", "gauss", "choices", "randint", "randrange", "choice", "triangular", "shuffle",
           "normalvariate", "betavariate", "sample"):
    _wrap(_n)


def canon(v, depth=0):
    if depth > 6:
        return "<deep>"
    if isinstance(v, bool) or v is None or isinstance(v, (int, str)):
        return v
    if isinstance(v, float):
        return v.hex()
    if isinstance(v, bytes):
        return "bytes:" + v.hex()
    if isinstance(v, Vector):
        return ["vec"] + [float(c).hex() for c in v]
    if isinstance(v, Orientation):
        return ["ori"] + [float(c).hex() for c in v.q]
    if isinstance(v, (tuple, list)):
        return [canon(x, depth + 1) for x in v]
    if isinstance(v, (set, frozenset)):
        return sorted(json.dumps(canon(x, depth + 1), sort_keys=True) for x in v)
    if isinstance(v, dict):
        return {str(k) if not hasattr(k, "properties") else "<obj>": canon(x, depth + 1) for k, x in v.items()}
    if isinstance(v, numpy.generic):
        return canon(v.item(), depth + 1)
    if isinstance(v, numpy.ndarray):
        return canon(v.tolist(), depth + 1)
    return "<" + type(v).__name__ + ">"


def scene_canon(scene):
    objs = []
    for o in scene.objects:
        props = {}
        for p in sorted(o.properties):
            try:
                props[p] = canon(getattr(o, p))
            except Exception as e:
                props[p] = "<err " + type(e).__name__ + ">"
        objs.append(props)
    return dict(params={k: canon(v) for k, v in sorted(scene.params.items()) if not k.startswith("_")}, objects=objs)


def rng_fingerprint():
    h = hashlib.sha256(repr(random.getstate()).encode())
    st = numpy.random.get_state()
    h.update(st[1].tobytes() + repr(st[2:]).encode())
    return h.hexdigest()[:16]


def named_ranges(deps, names):
    """Identify the program's named random values in the dependency tuple by their unique bounds."""
    out = []
    for d in deps:
        lo, hi = getattr(d, "low", None), getattr(d, "high", None)
        if isinstance(lo, (int, float)) and isinstance(hi, (int, float)):
            key = f"{float(lo)!r}:{float(hi)!r}"
            if key in names:
                out.append(names[key])
    return out


def main():
    job = json.load(sys.stdin)
    res = dict(name=job["name"], variant=VARIANT, hashseed=os.environ.get("PYTHONHASHSEED"))
    random.seed(job["seed"])
    numpy.random.seed(job["seed"] % (2 ** 32))
    _ENABLED[0] = True
    sc = scenic.scenarioFromString(job["src"], mode2D=job.get("mode2D", False))
    res["compile_log"] = list(LOG)
    names = job.get("names", {})
    res["deps_named"] = named_ranges(sc.dependencies, names)
    res["n_deps"] = len(sc.dependencies)
    mode = job.get("mode", "sequential")
    nsc = job.get("nscenes", 1)
    scenes = []
    kept = []
    try:
        if mode == "batch":
            mark = len(LOG)
            ss, its = sc.generateBatch(nsc, maxIterations=job.get("maxIterations", 2000) * nsc, verbosity=0)
            scenes = [dict(scene=scene_canon(s)) for s in ss]
            res["batch_iterations"] = its
            res["batch_log_sha"] = hashlib.sha256("\n".join(LOG[mark:]).encode()).hexdigest()[:16]
        else:
            for k in range(nsc):
                if mode == "fresh-checker" and k:
                    from scenic.core.sample_checking import WeightedAcceptanceChecker
                    sc.setSampleChecker(WeightedAcceptanceChecker(bufferSize=100))
                mark = len(LOG)
                scene, its = sc.generate(maxIterations=job.get("maxIterations", 2000), verbosity=int(os.environ.get("VERIF_VERBOSE", "0")))
                entry = dict(scene=scene_canon(scene), iterations=its, rng_after=rng_fingerprint(),
                             log=LOG[mark:] if k == 0 and job.get("full_log") else None,
                             log_len=len(LOG) - mark,
                             log_sha=hashlib.sha256("\n".join(LOG[mark:]).encode()).hexdigest()[:16])
                scenes.append(entry)
                kept.append(scene)
            if job.get("simulate") and kept:
                # a dynamic run of the first scene, after all scenes were generated
                mark = len(LOG)
                sim = DummySimulator().simulate(kept[0], maxSteps=job.get("steps", 4), maxIterations=1, verbosity=0)
                if sim is None:
                    res["sim"] = None
                else:
                    r = sim.result
                    res["sim"] = dict(trajectory=canon(r.trajectory),
                                      actions=canon([[canon(a) for a in step.values()] for step in r.actions]),
                                      termination=str(r.terminationType), reason=r.terminationReason, records=canon(r.records),
                                      log_sha=hashlib.sha256("\n".join(LOG[mark:]).encode()).hexdigest()[:16], rng_after=rng_fingerprint())
    except RejectionException as e:
        res["rejection"] = str(e)[:100]
    res["scenes"] = scenes
    # what the checker did differently here (diagnostic only; NOT compared)
    try:
        ch = sc.checker
        res["checker_order"] = [type(r).__name__[:4] for r in ch.sortedRequirements()][:12]
    except Exception:
        pass
    print(json.dumps(res))


if __name__ == "__main__":
    main()
