"""HOST process: a FRESH /venv python interpreter per (PYTHONHASHSEED, VERIF_VARIANT, shard of cases); Scenic
from $VERIF_REPO is imported ONCE.  The host moves object addresses (variant-dependent allocation pattern
before importing Scenic).  Every (program, seed, sub-variant) of its shard then runs one after the other in the
host (same hash seed; whatever the host compiled and sampled before is part of the history): each run picks its own
pseudo-random clock (time.perf_counter replaced, so that the WeightedAcceptanceChecker orders requirements
differently), its own extra allocation pattern, the way scenes are requested (one by one / generateBatch /
fresh checker / BasicChecker / reversed order / a checker that consumes global randomness) and how much of
the global RNG the requirement helper burn() consumes.  Output per run: a canonical dump that must be
bit-identical across hosts and sub-variants."""
import hashlib
import json
import os
import random
import sys
import time
import warnings

warnings.filterwarnings("ignore")
VARIANT = int(os.environ.get("VERIF_VARIANT", "0"))

# ---- move ids: allocate (and keep) a variant-dependent pattern of objects before anything else
_keep = []
_r = random.Random(VARIANT * 7919 + 1)
if VARIANT:
    for _ in range(_r.randint(1000, 30000)):
        k = _r.randint(0, 3)
        _keep.append([None] * _r.randint(1, 40) if k == 0 else (object() if k == 1 else (bytearray(_r.randint(1, 300)) if k == 2 else {i: i for i in range(_r.randint(0, 9))})))
    del _keep[::_r.randint(2, 5)]

# ---- timing jitter: a clock that advances by pseudo-random, heavy-tailed steps
_real_pc = time.perf_counter
_clk = [1000.0]
_jr = [None]           # set per child; None = the real clock


def _fake_pc():
    jr = _jr[0]
    if jr is None:
        return _real_pc()
    _clk[0] += jr.choice([1e-7, 1e-6, 1e-5, 1e-4, 1e-3, 1e-2]) * (0.5 + jr.random())
    return _clk[0]


time.perf_counter = _fake_pc

import numpy

import scenic
from scenic.core.distributions import RejectionException, Samplable, needsSampling
from scenic.core.simulators import DummySimulator
from scenic.core.vectors import Orientation, Vector

# ---- log of the user-visible random stream: every random.* call Scenic makes (function, arguments)
LOG = []
_ENABLED = [False]


def _wrap(name):
    orig = getattr(random, name)

    def w(*a, **kw):
        v = orig(*a, **kw)
        if _ENABLED[0]:
            LOG.append(name + "(" + ",".join(canon_arg(x) for x in a) + (";" + ",".join(f"{k}={canon_arg(x)}" for k, x in sorted(kw.items())) if kw else "") + ")")
        return v
    setattr(random, name, w)


def canon_arg(x):
    if isinstance(x, float):
        return x.hex()
    if isinstance(x, (int, str, bool)) or x is None:
        return repr(x)
    if isinstance(x, (list, tuple)):
        return "[" + ",".join(canon_arg(y) for y in x) + "]"
    return "<" + type(x).__name__ + ">"


for _n in ("random", "uniform", "gauss", "choices", "randint", "randrange", "choice", "triangular", "shuffle",
           "normalvariate", "betavariate", "sample"):
    _wrap(_n)


def canon(v, depth=0):
    if depth > 6:
        return "<deep>"
    if isinstance(v, bool) or v is None or isinstance(v, (int, str)):
        return v
    if isinstance(v, float):
        return v.hex()
    if isinstance(v, bytes):
        return "bytes:" + v.hex()
    if isinstance(v, Vector):
        return ["vec"] + [float(c).hex() for c in v]
    if isinstance(v, Orientation):
        return ["ori"] + [float(c).hex() for c in v.q]
    if isinstance(v, (tuple, list)):
        return [canon(x, depth + 1) for x in v]
    if isinstance(v, (set, frozenset)):
        return sorted(json.dumps(canon(x, depth + 1), sort_keys=True) for x in v)
    if isinstance(v, dict):
        return {str(k) if not hasattr(k, "properties") else "<obj>": canon(x, depth + 1) for k, x in v.items()}
    if isinstance(v, numpy.generic):
        return canon(v.item(), depth + 1)
    if isinstance(v, numpy.ndarray):
        return canon(v.tolist(), depth + 1)
    return "<" + type(v).__name__ + ">"


def scene_canon(scene):
    objs = []
    for o in scene.objects:
        props = {}
        for p in sorted(o.properties):
            try:
                props[p] = canon(getattr(o, p))
            except Exception as e:
                props[p] = "<err " + type(e).__name__ + ">"
        objs.append(props)
    return dict(params={k: canon(v) for k, v in sorted(scene.params.items()) if not k.startswith("_")}, objects=objs)


def rng_fingerprint():
    h = hashlib.sha256(repr(random.getstate()).encode())
    st = numpy.random.get_state()
    h.update(st[1].tobytes() + repr(st[2:]).encode())
    return h.hexdigest()[:16]


def named_ranges(deps, names):
    """Identify the program's named random values in the dependency tuple by their unique bounds."""
    out = []
    for d in deps:
        lo, hi = getattr(d, "low", None), getattr(d, "high", None)
        if isinstance(lo, (int, float)) and isinstance(hi, (int, float)):
            key = f"{float(lo)!r}:{float(hi)!r}"
            if key in names:
                out.append(names[key])
    return out


def user_prop_orders(sc, uprops):
    """For every object of the compiled scenario: the user-defined properties in the order specifier resolution
    evaluated them (= insertion order of the property dict = order of the object's sampling dependencies)."""
    out = []
    for o in sc.objects:
        ps = o._propertiesSet
        out.append([k for k in vars(o) if k in ps and k in uprops])
    return out


def make_checker(mode, noisy):
    from scenic.core.sample_checking import BasicChecker, SampleChecker, WeightedAcceptanceChecker
    _inst = random._inst

    class ReverseChecker(SampleChecker):
        """every active requirement (optional ones included), last one first"""

        def checkRequirementsInner(self, sample):
            for req in reversed(self.requirements):
                if req.active and req.falsifiedBy(sample):
                    return req.violationMsg
            return None

    class NoisyChecker(WeightedAcceptanceChecker):
        """a checker whose heuristics consume the global generators (the property: this must not show)"""

        def checkRequirementsInner(self, sample):
            for _ in range(noisy):
                _inst.random()
            numpy.random.random(noisy)
            r = super().checkRequirementsInner(sample)
            _inst.getrandbits(64 * noisy)
            numpy.random.standard_normal(noisy)
            return r

    if mode == "basic":
        return BasicChecker(True)
    if mode == "reverse":
        return ReverseChecker()
    if noisy:
        return NoisyChecker(bufferSize=100)
    return None


def np_fp():
    st = numpy.random.get_state()
    return (st[1].tobytes(), st[2:])


def run_case(job, sub):
    """Compile + generate + simulate once (inside a forked child)."""
    mode = sub.get("mode", "sequential")
    t0 = _real_pc()
    res = dict(name=job["name"], variant=VARIANT, hashseed=os.environ.get("PYTHONHASHSEED"), sub=sub.get("id"))
    random.seed(job["seed"])
    numpy.random.seed(job["seed"] % (2 ** 32))
    _ENABLED[0] = True
    sc = scenic.scenarioFromString(job["src"], mode2D=job.get("mode2D", False))
    res["compile_log"] = list(LOG)
    res["compile_rng"] = rng_fingerprint()
    names = job.get("names", {})
    res["deps_named"] = named_ranges(sc.dependencies, names)
    res["n_deps"] = len(sc.dependencies)
    res["prop_orders"] = user_prop_orders(sc, set(job.get("uprops", [])))
    ck = make_checker(mode, sub.get("noisy", 0))
    if ck is not None:
        sc.setSampleChecker(ck)
    # diagnostic (NOT compared): how often a requirement check consumed a global generator, and on a rejected candidate
    consumed = dict(checks=0, consuming=0, consuming_rejected=0)
    ch0 = sc.checker
    inner = ch0.checkRequirements

    def counting(sample):
        a = (random.getstate(), np_fp())
        r = inner(sample)
        b = (random.getstate(), np_fp())
        consumed["checks"] += 1
        if a != b:
            consumed["consuming"] += 1
            if r is not None:
                consumed["consuming_rejected"] += 1
        return r
    ch0.checkRequirements = counting
    nsc = job.get("nscenes", 1)
    scenes = []
    kept = []
    try:
        if mode == "batch":
            mark = len(LOG)
            ss, its = sc.generateBatch(nsc, maxIterations=job.get("maxIterations", 2000) * nsc, verbosity=0)
            scenes = [dict(scene=scene_canon(s)) for s in ss]
            res["batch_iterations"] = its
            res["batch_rng_after"] = rng_fingerprint()
            res["batch_log_sha"] = hashlib.sha256("\n".join(LOG[mark:]).encode()).hexdigest()[:16]
        else:
            for k in range(nsc):
                if mode == "fresh-checker" and k:
                    from scenic.core.sample_checking import WeightedAcceptanceChecker
                    sc.setSampleChecker(WeightedAcceptanceChecker(bufferSize=100))
                mark = len(LOG)
                scene, its = sc.generate(maxIterations=job.get("maxIterations", 2000), verbosity=int(os.environ.get("VERIF_VERBOSE", "0")))
                entry = dict(scene=scene_canon(scene), iterations=its, rng_after=rng_fingerprint(),
                             log=LOG[mark:] if k == 0 and sub.get("full_log") else None,
                             log_len=len(LOG) - mark,
                             log_sha=hashlib.sha256("\n".join(LOG[mark:]).encode()).hexdigest()[:16])
                scenes.append(entry)
                kept.append(scene)
            if job.get("simulate") and kept:
                # a dynamic run of the first scene, after all scenes were generated
                mark = len(LOG)
                sim = DummySimulator().simulate(kept[0], maxSteps=job.get("steps", 4), maxIterations=1, verbosity=0)
                if sim is None:
                    res["sim"] = None
                else:
                    r = sim.result
                    res["sim"] = dict(trajectory=canon(r.trajectory),
                                      actions=canon([[canon(a) for a in step.values()] for step in r.actions]),
                                      termination=str(r.terminationType), reason=r.terminationReason, records=canon(r.records),
                                      log_sha=hashlib.sha256("\n".join(LOG[mark:]).encode()).hexdigest()[:16], rng_after=rng_fingerprint())
    except RejectionException as e:
        res["rejection"] = str(e)[:100]
    res["scenes"] = scenes
    res["consumed"] = consumed
    res["t"] = _real_pc() - t0
    # what the checker did differently here (diagnostic only; NOT compared)
    try:
        ch = sc.checker
        if hasattr(ch, "sortedRequirements"):
            res["checker_order"] = [type(r).__name__[:4] for r in ch.sortedRequirements()][:12]
        else:
            res["checker_order"] = [type(ch).__name__]
    except Exception:
        pass
    return res


class _Timeout(BaseException):
    pass


def one_run(job, sub):
    """One (program, seed, sub-variant) inside this host.  Runs are sequential in the same interpreter: forking a
    child per run was measured to be 10-50x slower here (copy-on-write page faults cost ~1 ms each on this VM), and
    re-running in a process that has already compiled and sampled other programs is itself a history the property
    quantifies over ("every time", "all numbers of previously generated scenes")."""
    import signal
    import traceback

    def on_alarm(signum, frame):
        raise _Timeout()
    signal.signal(signal.SIGALRM, on_alarm)
    signal.alarm(int(sub.get("timeout", 300)))
    keep = []
    try:
        os.environ["VERIF_C15_BURN"] = str(sub.get("burn", 1))
        os.environ["VERIF_C15_SUB"] = str(sub.get("id", 0))
        if sub.get("alloc"):
            ar = random.Random(sub.get("alloc", 0) * 7919 + 3)
            for _ in range(ar.randint(100, 4000)):       # move the addresses of everything allocated from here on
                keep.append(bytearray(ar.randint(1, 400)) if ar.random() < 0.5 else [None] * ar.randint(1, 30))
            del keep[::ar.randint(2, 5)]
        _jr[0] = random.Random(sub["jitter"] * 104729 + 5) if sub.get("jitter") else None
        _clk[0] = 1000.0
        del LOG[:]
        _ENABLED[0] = False
        return run_case(job, sub)
    except _Timeout:
        return dict(crash="timeout in " + job["name"])
    except BaseException as e:          # noqa: report, keep the host alive
        return dict(crash=(type(e).__name__ + ": " + str(e) + "\n" + traceback.format_exc())[-1500:])
    finally:
        signal.alarm(0)
        _ENABLED[0] = False
        _jr[0] = None
        del keep[:]


def main():
    payload = json.load(sys.stdin)
    out = []
    for job in payload["tasks"]:
        out.append([one_run(job, sub) for sub in job["subs"]])
    print(json.dumps(dict(results=out)))


if __name__ == "__main__":
    main()
