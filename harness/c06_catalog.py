"""C06: the catalogue of specifier instances (real Scenic syntax) and of user classes, shared by the
orchestrator (harness/c06.py) and the implementation driver (harness/impl_c06.py).

Each instance: id, Scenic syntax, the title of the section of docs/reference/specifiers.rst that
documents it, and which documented conditions hold for its argument ("oriented": the region has a
preferred orientation).  Argument kinds: vector literal, Point (pt), OrientedPoint (op), Object (ob),
region without (regN) / with (regO) preferred orientation, vector field (vf), heading, orientation."""

PRELUDE = r'''
import c06_rt as rt
workspace = Workspace(RectangularRegion((0,0,0), 0, 100, 100))
vf = VectorField("vf", lambda pos: 0.3)
regN = RectangularRegion((30,30,0), 0, 4, 4)
regO = PolygonalRegion([(10,10),(14,10),(14,14),(10,14)], orientation=vf)
boxR = BoxRegion(position=(40,40,0), dimensions=(4,4,4))
ego = new Object at (0,0,0)
pt = new Point at (5,5,0)
op = new OrientedPoint at (6,6,0), facing 0.5
ob = new Object at (20,20,0), facing 0.7

class Base:
    foo: rt.note('Base.foo', 1)
    bar: rt.note('Base.bar', self.foo + 1)
    tags[additive]: 'base'
    dyn[dynamic]: 0

class Derived(Base):
    foo: rt.note('Derived.foo', self.width * 2)
    baz: rt.note('Derived.baz', self.bar + self.foo)
    tags[additive]: 'derived'
    fin[final]: rt.note('Derived.fin', self.foo + 1)

class Deeper(Derived):
    bar: rt.note('Deeper.bar', 5)
    qux: rt.note('Deeper.qux', self.position.x + self.baz)
    width: 3

class Pinned:
    position[final]: (1, 1, 0)
    quux: rt.note('Pinned.quux', self.yaw)

class Broken:
    zap: self.nothing + 1

# round 3: falsy values as defaults, defaults that read built-in properties (tracers: the value they see must be the
# final one), additive defaults over a non-additive one, overridden defaults across a hierarchy, a default position
class Tr:
    p0: rt.note('Tr.p0', 0)
    pn: rt.note('Tr.pn', None)
    ps: rt.note('Tr.ps', '')
    pf: rt.note('Tr.pf', False)
    pt: rt.note('Tr.pt', 5)
    sum0: rt.note('Tr.sum0', (self.p0, self.pn, self.ps, self.pf, self.pt))
    acc[additive]: rt.note('Tr.acc', self.p0)
    mix: rt.note('Tr.mix', self.pt)
    tr_position: rt.note('Tr.tr_position', self.position)
    tr_yaw: rt.note('Tr.tr_yaw', self.yaw)
    tr_width: rt.note('Tr.tr_width', self.width)

class TrMid(Tr):
    p0: rt.note('TrMid.p0', self.width * 0)
    pt: rt.note('TrMid.pt', 0)
    acc[additive]: rt.note('TrMid.acc', self.pn)
    mix[additive]: rt.note('TrMid.mix', 1)
    width: rt.note('TrMid.width', 2)
    tr_parentOrientation: rt.note('TrMid.tr_parentOrientation', self.parentOrientation)

class TrLeaf(TrMid):
    pn: rt.note('TrLeaf.pn', None)
    acc[additive]: rt.note('TrLeaf.acc', 'leaf')
    yaw: rt.note('TrLeaf.yaw', self.p0 * 1.0)
    position: rt.note('TrLeaf.position', (60 + self.width, 60, 0))
'''

SEC_WITH = "with *property* *value*"
SEC_AT = "at *vector*"
SEC_IN = "in *region*"
SEC_CONT = "contained in *region*"
SEC_ON = "on (*region* | *Object* | *vector*)"
SEC_OFFBY = "offset by *vector*"
SEC_OFFAL = "offset along *direction* by *vector*"
SEC_BEYOND = "beyond *vector* by (*vector* | *scalar*) [from (*vector* | *OrientedPoint*)]"
SEC_VIS = "visible [from (*Point* | *OrientedPoint*)]"
SEC_NVIS = "not visible [from (*Point* | *OrientedPoint*)]"
SEC_LR_V = "(left | right) of (*vector*) [by *scalar*]"
SEC_LR_OP = "(left | right) of *OrientedPoint* [by *scalar*]"
SEC_LR_OB = "(left | right) of *Object* [by *scalar*]"
SEC_AB_V = "(ahead of | behind) *vector* [by *scalar*]"
SEC_AB_OP = "(ahead of | behind) *OrientedPoint* [by *scalar*]"
SEC_AB_OB = "(ahead of | behind) *Object* [by *scalar*]"
SEC_UD_V = "(above | below) *vector* [by *scalar*]"
SEC_UD_OP = "(above | below) *OrientedPoint* [by *scalar*]"
SEC_UD_OB = "(above | below) *Object* [by *scalar*]"
SEC_FOLLOW = "following *vectorField* [from *vector*] for *scalar*"
SEC_FACING_O = "facing *orientation*"
SEC_FACING_F = "facing *vectorField*"
SEC_FACING_T = "facing (toward | away from) *vector*"
SEC_FACING_DT = "facing directly (toward | away from) *vector*"
SEC_APP = "apparently facing *heading* [from *vector*]"


def _mk():
    I = []

    def add(id, syntax, sec, oriented=False, given=None, core=False):
        I.append(dict(id=id, syntax=syntax, sec=sec, oriented=oriented, given=given, core=core))

    add("with_foo", "with foo rt.lazy('with_foo', 7)", SEC_WITH, given="foo", core=True)
    add("with_yaw", "with yaw 0.1", SEC_WITH, given="yaw", core=True)
    add("with_pori", "with parentOrientation 0.2", SEC_WITH, given="parentOrientation", core=True)
    add("with_pos", "with position (9,9,0)", SEC_WITH, given="position", core=True)
    add("with_width", "with width rt.lazy('with_width', 3)", SEC_WITH, given="width")
    add("with_rci", "with regionContainedIn regN", SEC_WITH, given="regionContainedIn", core=True)
    add("with_bar", "with bar rt.lazy('with_bar', 2)", SEC_WITH, given="bar")
    add("with_fin", "with fin 3", SEC_WITH, given="fin")
    add("with_baz", "with baz rt.lazy('with_baz', 4)", SEC_WITH, given="baz")
    add("with_pitch", "with pitch 0.1", SEC_WITH, given="pitch")
    # heading is derived (final) in 3D mode; in 2D mode OrientedPoint._prepareSpecifiers rewrites it to `facing 0.3`
    add("with_heading", "with heading 0.3", SEC_WITH, given="heading", core=True)
    # round 3: falsy values given explicitly (logged when evaluated), lazily logged arguments of built-in specifiers
    add("with_p0", "with p0 rt.lazy('with_p0', 0)", SEC_WITH, given="p0")
    add("with_pn", "with pn rt.lazy('with_pn', None)", SEC_WITH, given="pn")
    add("with_ps", "with ps rt.lazy('with_ps', '')", SEC_WITH, given="ps")
    add("with_pf", "with pf rt.lazy('with_pf', False)", SEC_WITH, given="pf")
    add("with_pt", "with pt rt.lazy('with_pt', 0)", SEC_WITH, given="pt")
    add("with_yaw0", "with yaw rt.lazy('with_yaw0', 0)", SEC_WITH, given="yaw")
    add("with_roll", "with roll 0.13", SEC_WITH, given="roll")
    add("with_pos_over", "with position rt.lazy('with_pos_over', (20.3, 20.2, 5))", SEC_WITH, given="position")
    add("at_over", "at rt.lazy('at_over', (20.2, 20.1, 5))", SEC_AT)
    add("at_vec", "at (1,2,0)", SEC_AT, core=True)
    add("at_pt", "at pt", SEC_AT)
    add("at_ob", "at ob", SEC_AT)
    add("in_regN", "in regN", SEC_IN, core=True)
    add("in_regO", "in regO", SEC_IN, oriented=True, core=True)
    add("cont_regN", "contained in regN", SEC_CONT)
    add("cont_regO", "contained in regO", SEC_CONT, oriented=True, core=True)
    add("on_regN", "on regN", SEC_ON, core=True)
    add("on_regO", "on regO", SEC_ON, oriented=True, core=True)
    add("on_ob", "on ob", SEC_ON, oriented=True, core=True)   # an Object's onSurface carries an orientation
    add("on_box", "on boxR", SEC_ON)
    add("on_vec", "on (3,3,0)", SEC_ON)
    add("offset_by", "offset by (1,1,0)", SEC_OFFBY, core=True)
    add("offset_along_h", "offset along 0.3 by (1,1,0)", SEC_OFFAL)
    add("offset_along_f", "offset along vf by (1,1,0)", SEC_OFFAL)
    add("beyond_s", "beyond pt by 2", SEC_BEYOND, core=True)
    add("beyond_v", "beyond pt by (1,2,0)", SEC_BEYOND)
    add("beyond_from_op", "beyond pt by 2 from op", SEC_BEYOND)
    add("beyond_from_v", "beyond (4,4,0) by 2 from (0,1,0)", SEC_BEYOND)
    add("visible", "visible", SEC_VIS)
    add("visible_pt", "visible from pt", SEC_VIS, core=True)
    add("visible_op", "visible from op", SEC_VIS)
    add("notvisible", "not visible", SEC_NVIS)
    add("notvisible_pt", "not visible from pt", SEC_NVIS, core=True)
    for word, sv, sop, sob in [("left of", SEC_LR_V, SEC_LR_OP, SEC_LR_OB), ("right of", SEC_LR_V, SEC_LR_OP, SEC_LR_OB),
                               ("ahead of", SEC_AB_V, SEC_AB_OP, SEC_AB_OB), ("behind", SEC_AB_V, SEC_AB_OP, SEC_AB_OB),
                               ("above", SEC_UD_V, SEC_UD_OP, SEC_UD_OB), ("below", SEC_UD_V, SEC_UD_OP, SEC_UD_OB)]:
        w = word.replace(" ", "_")
        core = word in ("left of", "ahead of", "above")
        add(f"{w}_vec", f"{word} (4,4,0)", sv, core=core)
        add(f"{w}_pt_by", f"{word} pt by 2", sv)
        add(f"{w}_op", f"{word} op", sop, core=(word == "left of"))
        add(f"{w}_op_by", f"{word} op by 2", sop)
        add(f"{w}_ob", f"{word} ob", sob, core=(word in ("ahead of",)))
        add(f"{w}_ob_by", f"{word} ob by 2", sob)
    add("following", "following vf for 2", SEC_FOLLOW, core=True)
    add("following_from", "following vf from pt for 2", SEC_FOLLOW)
    add("facing_h", "facing 0.4", SEC_FACING_O, core=True)
    add("facing_o", "facing (0.1, 0.2, 0.3)", SEC_FACING_O)
    add("facing_l0", "facing rt.lazy('facing_l0', 0)", SEC_FACING_O)
    add("facing_f", "facing vf", SEC_FACING_F, core=True)
    add("facing_toward", "facing toward pt", SEC_FACING_T, core=True)
    add("facing_away", "facing away from pt", SEC_FACING_T)
    add("facing_dtoward", "facing directly toward pt", SEC_FACING_DT, core=True)
    add("facing_daway", "facing directly away from pt", SEC_FACING_DT)
    add("app_facing", "apparently facing 0.3", SEC_APP, core=True)
    add("app_facing_from", "apparently facing 0.3 from pt", SEC_APP)
    return I


INSTANCES = _mk()
# observation through public syntax only: these instances pass a logging DelayedArgument (rt.lazy) as their value, and the
# user classes' default expressions call rt.note(<class>.<property>, value) -- both log when the specifier is *evaluated*
PUBLIC_INSTS = ["with_foo", "with_width", "with_bar", "with_baz", "with_p0", "with_pn", "with_ps", "with_pf", "with_pt",
                "with_yaw0", "with_pos_over", "at_over", "facing_l0"]
PUBLIC_DEFAULTS = {"Base": ["foo", "bar"], "Derived": ["foo", "baz", "fin"], "Deeper": ["bar", "qux"], "Pinned": ["quux"],
                   "Tr": ["p0", "pn", "ps", "pf", "pt", "sum0", "acc", "mix", "tr_position", "tr_yaw", "tr_width"],
                   "TrMid": ["p0", "pt", "acc", "mix", "width", "tr_parentOrientation"],
                   "TrLeaf": ["pn", "acc", "yaw", "position"]}
# an additive default evaluates the expressions of *all* classes of the MRO that define the property (one slot of the log)
ADDITIVE = {"Tr": ["acc"], "TrMid": ["acc", "mix"], "TrLeaf": ["acc"]}
# tag of a logging value / default expression -> (property, fingerprint of the literal value it yields)
VALUE = {"with_foo": ("foo", "7.0"), "with_bar": ("bar", "2.0"), "with_baz": ("baz", "4.0"), "with_width": ("width", "3.0"),
         "with_p0": ("p0", "0.0"), "with_pn": ("pn", "None"), "with_ps": ("ps", "''"), "with_pf": ("pf", "False"),
         "with_pt": ("pt", "0.0"), "with_yaw0": ("yaw", "0.0"), "Base.foo": ("foo", "1.0"), "Deeper.bar": ("bar", "5.0"),
         "Tr.p0": ("p0", "0.0"), "Tr.pn": ("pn", "None"), "Tr.ps": ("ps", "''"), "Tr.pf": ("pf", "False"), "Tr.pt": ("pt", "5.0"),
         "TrMid.p0": ("p0", "0.0"), "TrMid.pt": ("pt", "0.0"), "TrMid.width": ("width", "2.0"), "TrLeaf.pn": ("pn", "None")}
# `with P v` instances used to probe what a specifier does to an already specified property P (harness/c06.py probe_groups)
# position: in 3D a point above `ob` (so `on ob` visibly projects it); in 2D mode the projection keeps x and y and everything is
# flat, so a modification would not change the value: there the probe uses a point that is NOT over the surface (the modifying
# evaluation then fails, which is observable)
PROBE_WITH = {"position": ("with_pos_over", "with_pos"), "parentOrientation": "with_pori", "yaw": "with_yaw", "pitch": "with_pitch",
              "roll": "with_roll", "regionContainedIn": "with_rci"}
CLASSES = ["Object", "Base", "Derived", "Deeper", "Pinned", "Broken", "Tr", "TrMid", "TrLeaf"]
ALL_SECTIONS = sorted({i["sec"] for i in INSTANCES})


def program(instances=INSTANCES):
    L = [PRELUDE, "globals()['new'] = rt.capture"]
    for k, inst in enumerate(instances):
        L.append(f"def i_{k}():\n    return new Object {inst['syntax']}")
        L.append(f"rt.INST[{inst['id']!r}] = i_{k}")
    for c in CLASSES:
        L.append(f"rt.CLASSES[{c!r}] = {c}")
    L.append("rt.main()")
    return "\n".join(L) + "\n"
