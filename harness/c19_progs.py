"""C19: small dynamic programs (behaviours with step-dependent preconditions, do choose / do shuffle
with rational weights, run-time draws, run-time soft requirements) as a spec AST, their Scenic
source, the model driver line, and the *specified* exact distribution over action logs computed
from the AST by the property text (independent of Scenic and of the Coq model)."""
import math
from fractions import Fraction

W = [1, 1, 2, 3, Fraction(1, 2), Fraction(1, 4), Fraction(3, 2)]
W0 = W + [0, 0]          # weights of dict-form choose/shuffle and of run-time Options: zero allowed


def wtxt(w):
    w = Fraction(w)
    return str(w.numerator) if w.denominator == 1 else repr(float(w))


def q(w):
    w = Fraction(w)
    return f"{w.numerator}/{w.denominator}"


def bnd(b):
    """endpoint of a run-time DiscreteRange: an int (constant) or [c, kt, kx] = c + kt*currentTime + kx*x
    (x = the last value drawn in the same body); all rational"""
    if isinstance(b, (list, tuple)):
        return tuple(Fraction(v) for v in b)
    return (Fraction(b), Fraction(0), Fraction(0))


def numtxt(v):
    v = Fraction(v)
    t = str(v.numerator) if v.denominator == 1 else repr(float(v))
    return f"({t})" if t.startswith("-") else t


def bnd_src(b, now):
    c, kt, kx = bnd(b)
    parts = []
    if kx:
        parts.append("x" if kx == 1 else f"{numtxt(kx)} * x")
    if kt:
        parts.append(now if kt == 1 else f"{numtxt(kt)} * {now}")
    if c or not parts:
        parts.append(numtxt(c))
    return parts[0] if len(parts) == 1 else "(" + " + ".join(parts) + ")"


def bnd_val(b, t, x):
    c, kt, kx = bnd(b)
    return c + kt * t + kx * x


def guard_src(g):
    t = "simulation().currentTime"
    return {"T": None, "F": "False", "GE": f"{t} >= {g[1] if len(g) > 1 else 0}",
            "LT": f"{t} < {g[1] if len(g) > 1 else 0}", "EQ": f"{t} == {g[1] if len(g) > 1 else 0}",
            "NE": f"{t} != {g[1] if len(g) > 1 else 0}"}[g[0]]


def guard_ok(g, t):
    k = g[0]
    if k == "T":
        return True
    if k == "F":
        return False
    return {"GE": t >= g[1], "LT": t < g[1], "EQ": t == g[1], "NE": t != g[1]}[k]


def source(prog):
    """form 'behavior': every invocable is a behaviour of the ego (actions observed);
    form 'compose': every invocable is a modular scenario with a compose block (sub-scenarios invoked by
    do / do choose / do shuffle from the compose block of Main); `take a` becomes a log call + `wait`."""
    comp = prog.get("form", "behavior") == "compose"
    N = "S" if comp else "B"
    ind = "        " if comp else "    "
    now = "simulation().currentTime"
    L = ["import verif_c19_helpers as H"] if comp else []

    def take(expr):
        if comp:
            return [f"{ind}H.log({now}, {expr})", f"{ind}wait"]
        return [f"{ind}take {expr}"]
    for i, b in enumerate(prog["behaviors"]):
        main = comp and i == prog["main"]
        L.append(f"scenario {'Main' if main else N + str(i)}():" if comp else f"behavior B{i}():")
        gs = guard_src(b["pre"])
        if gs:
            L.append(f"    precondition: {gs}")
        if comp:
            L.append("    compose:")
        if not b["body"]:
            L.append(f"{ind}pass")
        for st in b["body"]:
            k = st[0]
            if k == "take":
                L += take(st[1])
            elif k == "draw":
                L.append(f"{ind}x = DiscreteRange({bnd_src(st[1], now)}, {bnd_src(st[2], now)})")
                L += take(f"{st[3]} + x")
            elif k == "wrange":
                n = len(st[2])
                L.append(f"{ind}x = DiscreteRange({st[1]}, {st[1] + n - 1}, weights=({', '.join(wtxt(w) for w in st[2])},))")
                L += take(f"{st[3]} + x")
            elif k == "wdraw":
                L.append(f"{ind}x = Options({{" + ", ".join(f"{j}: {wtxt(w)}" for j, w in enumerate(st[1])) + "})")
                L += take(f"{st[2]} + x")
            elif k == "req":
                p = Fraction(st[1])
                L.append((f"{ind}require" if p >= 1 else f"{ind}require[{wtxt(p)}]") + f" x > {st[2]}")
            elif k == "do":
                L.append(f"{ind}do {N}{st[1]}()")
            elif k in ("choose", "shuffle"):
                if st[2]:
                    L.append(f"{ind}do {k} {{" + ", ".join(f"{N}{b_}(): {wtxt(w)}" for b_, w in st[1]) + "}")
                else:
                    L.append(f"{ind}do {k} " + ", ".join(f"{N}{b_}()" for b_, _ in st[1]))
    if not comp:
        L.append(f"ego = new Object with behavior B{prog['main']}()")
    return "\n".join(L) + "\n"


def step_limit(prog):
    """(spec evaluator only; the model has its own step_limit in coq/C19/Choose.v)  Statements run while currentTime < step_limit.  Behaviours are not resumed once currentTime reaches
    maxSteps; compose blocks are stepped BEFORE the simulator's time-limit test (Simulation._run), so the code
    of a compose block still runs (up to its next `wait`) at currentTime == maxSteps."""
    return prog["maxSteps"] + (1 if prog.get("form", "behavior") == "compose" else 0)


def driver_line(prog):
    t = ["RUN", prog.get("form", "behavior"), str(prog["maxSteps"]), str(len(prog["behaviors"]))]
    for b in prog["behaviors"]:
        t += [str(x) for x in b["pre"]]
        t.append(str(len(b["body"])))
        for st in b["body"]:
            k = st[0]
            if k == "take":
                t += ["TAKE", str(st[1])]
            elif k == "draw":
                t += ["DRAW"] + [q(v) for v in bnd(st[1])] + [q(v) for v in bnd(st[2])] + [str(st[3])]
            elif k == "wrange":
                t += ["WRANGE", str(st[1]), str(len(st[2]))] + [q(w) for w in st[2]] + [str(st[3])]
            elif k == "wdraw":
                t += ["WDRAW", str(len(st[1]))] + [q(w) for w in st[1]] + [str(st[2])]
            elif k == "req":
                t += ["REQ", q(st[1]), str(st[2])]
            elif k == "do":
                t += ["DO", str(st[1])]
            else:
                t += [k.upper(), str(len(st[1]))]
                for b_, w in st[1]:
                    t += [str(b_), q(w)]
    t.append(str(prog["main"]))
    return " ".join(t)


# ------------------------------------------------------------------ specification
def spec_distribution(prog, stats=None):
    """{outcome: probability}; outcome 'REJ' or 't:a,...'.  Continuation-passing over the AST.
    Conventions where the property text is silent: a single eligible item is run whatever its weight; two or
    more eligible items whose weights are all zero admit no weight-proportional pick: rejection (so does a
    run-time Options whose weights are all zero).  stats: optional dict counting the kinds of picks met."""
    B = prog["behaviors"]
    stats = {} if stats is None else stats

    def stat(k):
        stats[k] = stats.get(k, 0) + 1
    maxs = step_limit(prog)
    out = {}

    def emit(key, p):
        out[key] = out.get(key, Fraction(0)) + p

    def finish(state, p):
        t, x, log = state
        emit(",".join(f"{s}:{a}" for s, a in log) or "-", p)

    def pick(items, t, p, k):
        """items [(pos, beh, w)]; continue with the picked item, weight-proportional among enabled"""
        en = [it for it in items if guard_ok(B[it[1]]["pre"], t)]
        if not en:
            stat("pick:none-eligible")
            emit("REJ", p)
            return
        if len(en) == 1:
            stat("pick:one-eligible")
            return k(en[0], p)
        stat("pick:several-eligible")
        ws = [Fraction(it[2]) for it in en]
        if len(en) < len(items):
            stat("pick:some-ineligible")
            first_ok = min(i for i, it in enumerate(items) if it in en)
            last_ok = max(i for i, it in enumerate(items) if it in en)
            if any(it not in en for it in items[first_ok + 1:last_ok]) or first_ok > 0:
                stat("pick:ineligible-before-eligible")
                if len(set(ws)) > 1:
                    stat("pick:ineligible-before-eligible,unequal-weights")
        if any(w == 0 for w in ws):
            stat("pick:zero-weight-eligible")
            zi = min(i for i, w in enumerate(ws) if w == 0)
            if any(w > 0 for w in ws[zi + 1:]):
                stat("pick:zero-weight-before-positive")
        tot = sum(ws)
        if tot == 0:
            stat("pick:all-eligible-weights-zero")
            emit("REJ", p)
            return
        for it in en:
            if it[2]:
                k(it, p * Fraction(it[2]) / tot)

    def run(stmts, state, p, k):
        if not stmts:
            return k(state, p)
        t, x, log = state
        if t >= maxs:
            return finish(state, p)
        st, rest = stmts[0], stmts[1:]
        kind = st[0]
        cont = lambda s2, p2: run(rest, s2, p2, k)
        if kind == "take":
            return cont((t + 1, x, log + [(t, st[1])]), p)
        if kind == "draw":
            # uniform over the integers k with low <= k <= high (endpoints: any rationals, evaluated now)
            lo_v, hi_v = bnd_val(st[1], t, x), bnd_val(st[2], t, x)
            lo, hi = math.ceil(lo_v), math.floor(hi_v)
            if lo_v.denominator != 1 or hi_v.denominator != 1:
                stat("draw:fractional-endpoint")
            if bnd(st[1])[1:] != (0, 0) or bnd(st[2])[1:] != (0, 0):
                stat("draw:state-dependent-endpoint")
            if hi < lo:
                stat("draw:empty")
                return emit("REJ", p)
            n = hi - lo + 1
            for v in range(lo, hi + 1):
                cont((t + 1, v, log + [(t, st[3] + v)]), p / n)
            return
        if kind == "wrange":
            # weighted range: value low + i with probability w_i / sum of the weights
            tot = sum(Fraction(w) for w in st[2])
            stat("wrange:low-nonzero" if st[1] != 0 else "wrange:low-zero")
            for i, w in enumerate(st[2]):
                if w:
                    v = st[1] + i
                    cont((t + 1, v, log + [(t, st[3] + v)]), p * Fraction(w) / tot)
            return
        if kind == "wdraw":
            tot = sum(Fraction(w) for w in st[1])
            if any(w == 0 for w in st[1]):
                stat("wdraw:zero-weight")
            if tot == 0:
                return emit("REJ", p)
            for v, w in enumerate(st[1]):
                if w:
                    cont((t + 1, v, log + [(t, st[2] + v)]), p * Fraction(w) / tot)
            return
        if kind == "req":
            pr = min(Fraction(st[1]), Fraction(1))
            if x > st[2]:
                return cont(state, p)
            if pr < 1:
                cont(state, p * (1 - pr))
            return emit("REJ", p * pr)
        if kind == "do":
            if not guard_ok(B[st[1]]["pre"], t):
                return emit("REJ", p)
            return run(B[st[1]]["body"], state, p, cont)
        items = [(i, b_, w) for i, (b_, w) in enumerate(st[1])]
        if kind == "choose":
            return pick(items, t, p, lambda it, p2: run(B[it[1]]["body"], state, p2, cont))

        def shuffle(items, state, p):
            if not items:
                return cont(state, p)
            if state[0] >= maxs:
                return finish(state, p)
            pick(items, state[0], p,
                 lambda it, p2: run(B[it[1]]["body"], state, p2,
                                    lambda s2, p3: shuffle([j for j in items if j[0] != it[0]], s2, p3)))
        return shuffle(items, state, p)

    run(B[prog["main"]]["body"], (0, 0, []), Fraction(1), finish)
    return out


# ------------------------------------------------------------------ generator
H_ = Fraction(1, 2)
Q_ = Fraction(1, 4)


def gen_draw(rng, base, allow_x=False):
    """a run-time DiscreteRange draw; half of them with non-integral and/or state-dependent endpoints"""
    r = rng.random()
    if r < 0.4:
        lo = rng.randint(0, 1)
        return ["draw", lo, lo + rng.randint(0, 2), base]
    kinds = ["const", "const", "time", "time", "mixed"] + (["x", "x", "x"] if allow_x else [])
    kind = rng.choice(kinds)
    c = rng.choice([H_, -H_, Q_, 3 * H_, Fraction(0), Fraction(1), 3 * Q_])
    w = rng.choice([H_, Fraction(1), 3 * H_, Fraction(2), 9 * Q_, Q_, 7 * Q_])
    if kind == "const":
        return ["draw", [c, 0, 0], [c + w, 0, 0], base]
    if kind == "time":
        kt = rng.choice([Fraction(1), Fraction(1), H_])
        return ["draw", [c, kt, 0], [c + w, kt, 0], base]
    if kind == "mixed":       # integer low endpoint, fractional time-dependent high endpoint (or the reverse)
        if rng.random() < 0.5:
            return ["draw", rng.randint(0, 1), [c + 1, H_, 0], base]
        return ["draw", [c - 1, H_, 0], rng.randint(1, 3), base]
    kx = rng.choice([Fraction(1), H_, Fraction(-1)])
    return ["draw", [c - 1, 0, kx], [c - 1 + w, 0, kx], base]


def gen_wrange(rng, base):
    n = rng.randint(2, 4)
    ws = [rng.choice(W0) for _ in range(n)]
    if all(w == 0 for w in ws):
        ws[rng.randrange(n)] = 1
    return ["wrange", rng.choice([-2, -1, 0, 1, 2, 3, 5]), ws, base]


def gen_program(rng, form=None):
    form = form or rng.choice(["behavior", "compose"])
    nleaf = rng.randint(2, 4)
    behs = []
    for i in range(nleaf):
        g = rng.choice([["T"], ["T"], ["T"], ["GE", rng.randint(1, 3)], ["GE", rng.randint(1, 2)], ["LT", rng.randint(1, 3)],
                        ["EQ", rng.randint(0, 2)], ["NE", rng.randint(0, 2)], ["NE", 0], ["F"]])
        body = []
        for _ in range(rng.randint(1, 2)):
            r = rng.random()
            if r < 0.6:
                body.append(["take", 10 * (i + 1) + len(body)])
            elif r < 0.8:
                d = gen_draw(rng, 100 * (i + 1))
                body.append(d)
                if rng.random() < 0.4:
                    body.append(["req", rng.choice([Fraction(1), Fraction(1, 2), Fraction(1, 4)]),
                                 d[1] if isinstance(d[1], int) else rng.randint(0, 1)])
                if rng.random() < 0.3:        # endpoints computed from the value just drawn
                    body.append(gen_draw(rng, 100 * (i + 1) + 20, allow_x=True))
            elif r < 0.9:
                body.append(["wdraw", [rng.choice(W0) for _ in range(rng.randint(2, 3))], 100 * (i + 1) + 50])
            else:
                body.append(gen_wrange(rng, 100 * (i + 1) + 70))
        behs.append(dict(pre=g, body=body))

    def options(pool, lo=2):
        n = rng.randint(lo, min(4, max(lo, len(pool))))
        picks = [rng.choice(pool) for _ in range(n)]
        weighted = rng.random() < 0.6
        return [[b, rng.choice(W0) if weighted else 1] for b in picks], weighted

    def block(pool, depth):
        body = []
        for _ in range(rng.randint(1, 3) if depth else rng.randint(2, 4)):
            r = rng.random()
            if r < 0.35:
                o, wd = options(pool)
                body.append(["choose", o, wd])
            elif r < 0.65:
                o, wd = options(pool, 2 if rng.random() < 0.5 else 3)
                body.append(["shuffle", o, wd])
            elif r < 0.72:
                tl = [b for b in pool if behs[b]["pre"] == ["T"]]
                if tl:
                    body.append(["do", rng.choice(tl)])
            elif r < 0.85:
                body.append(["take", rng.randint(1, 9)])
            elif r < 0.9:
                body.append(gen_wrange(rng, 2000))
            else:
                body.append(gen_draw(rng, 1000) if rng.random() < 0.5 else ["draw", 0, rng.randint(1, 2), 1000])
                if rng.random() < 0.5:
                    body.append(["req", rng.choice([Fraction(1), Fraction(1, 2), Fraction(3, 4)]), 0])
        if not body:
            body.append(["take", 7])
        return body
    pool = list(range(nleaf))
    if rng.random() < 0.5:       # a middle layer: behaviours that themselves choose
        for _ in range(rng.randint(1, 2)):
            g = rng.choice([["T"], ["T"], ["GE", 1], ["LT", 3]])
            behs.append(dict(pre=g, body=block(list(range(nleaf)), 1)))
        pool = list(range(len(behs)))
    behs.append(dict(pre=["T"], body=block(pool, 0)))
    return dict(behaviors=behs, main=len(behs) - 1, maxSteps=rng.randint(3, 7), form=form)


def to_json(prog):
    def enc(x):
        if isinstance(x, Fraction):
            return {"__q__": [x.numerator, x.denominator]}
        if isinstance(x, list):
            return [enc(y) for y in x]
        if isinstance(x, dict):
            return {k: enc(v) for k, v in x.items()}
        return x
    return enc(prog)


def from_json(j):
    def dec(x):
        if isinstance(x, dict):
            if "__q__" in x:
                return Fraction(*x["__q__"])
            return {k: dec(v) for k, v in x.items()}
        if isinstance(x, list):
            return [dec(y) for y in x]
        return x
    return dec(j)
