(* End to end: `do B for n steps` with a sub-behaviour that keeps acting contributes exactly n actions. *)
From Coq Require Import List Arith Bool QArith Lia.
From Scenic Require Import C12.Dyn C12.Spec C12.DynProofs.
Import ListNotations.
Local Open Scope nat_scope.

Section DoFor.
Variables (P : program) (w : world) (b a : nat) (o : owner) (m : mode) (n t0 : nat).
Variables (ss : list stmt) (k0 : kont).
Hypothesis Hb : nth_error (p_behaviors P) b = Some {| b_pre := []; b_inv := []; b_body := [SWhile (CConst true) [STake a]] |}.
Hypothesis Ho : inv_of P o = [].
Hypothesis Hm : match m with MScen _ => False | _ => True end.

Definition lim := inject_Z (Z.of_nat n).
Definition hdl : list (cond * list stmt * option kont) := [(CSince t0 lim, [SAbort], None)].
(* the suspended sub-behaviour after each of its actions *)
Definition kb : kont := [FCheck (OBeh b); FSeq []; FWhile (CConst true) [STake a]; FSeq []; FSub b o; FSeq []].
Definition kstmt (fresh : bool) (bk : option kont) : kont :=
  FTry fresh o [SDoRaw b] bk hdl :: FSeq [SCheck] :: FSeq ss :: k0.

Lemma inv_b : inv_of P (OBeh b) = [].
Proof. unfold inv_of. rewrite Hb. reflexivity. Qed.
Lemma pre_b : pre_of P (OBeh b) = [].
Proof. unfold pre_of. rewrite Hb. reflexivity. Qed.

(* entering the statement at time t0 with n > 0: first action of B, statement suspended *)
Lemma do_for_first : forall f ib subs, 0 < n ->
  run (12 + f) P w t0 m ib o subs (FSeq (SDoFor b lim :: ss) :: k0) =
  (OYield (YActs [a]) (kstmt false (Some kb)), [], subs).
Proof.
  intros f ib subs Hn.
  cbn [Nat.add]. rewrite do_for_enters.
  rewrite run_S. unfold run_body.
  cbn [negb andb pick_handler].
  assert (E : eval w t0 (CSince t0 lim) = false).
  { destruct (eval w t0 (CSince t0 lim)) eqn:E; auto. apply csince_steps in E; auto. lia. }
  fold lim. rewrite E. cbn [orb option_map selected_kont].
  (* the body block: [SDoRaw b] *)
  rewrite run_S. unfold run_body at 1. destruct m; try contradiction.
  all: rewrite Hb; unfold guards_at_start; rewrite pre_b, inv_b; cbn [all_true forallb negb];
       cbn [b_body]; repeat (rewrite run_S; unfold run_body at 1; cbn [eval]); reflexivity.
Qed.

(* resuming at time t with t0 < t < t0 + n: next action of B *)
Lemma do_for_next : forall f ib subs t, t0 <= t -> t < t0 + n ->
  run (12 + f) P w t m ib o subs (kstmt false (Some kb)) = (OYield (YActs [a]) (kstmt false (Some kb)), [], subs).
Proof.
  intros f ib subs t L1 L2. unfold kstmt, hdl.
  assert (E : eval w t (CSince t0 lim) = false).
  { destruct (eval w t (CSince t0 lim)) eqn:E; auto. apply csince_steps in E; auto. lia. }
  cbn [Nat.add].
  erewrite try_body_resumes; [reflexivity| rewrite Ho; reflexivity | exact E |].
  unfold kb. rewrite run_S. unfold run_body at 1. rewrite inv_b. cbn [all_true forallb].
  repeat (rewrite run_S; unfold run_body at 1; cbn [eval]). reflexivity.
Qed.

(* resuming at time t0 + n: the statement ends without resuming B; what follows runs *)
Lemma do_for_ends : forall f ib subs bk fresh,
  run (S (S (S f))) P w (t0 + n) m ib o subs (kstmt fresh bk) = run f P w (t0 + n) m ib o subs (FSeq ss :: k0).
Proof.
  intros f ib subs bk fresh. unfold kstmt, hdl.
  rewrite try_abort_fires.
  - destruct m; try contradiction; rewrite run_S; unfold run_body at 1; rewrite Ho; cbn [all_true forallb];
      rewrite run_S; unfold run_body at 1; reflexivity.
  - intros _. rewrite Ho. reflexivity.
  - apply csince_steps; lia.
Qed.

(* n = 0: the statement ends at once, B is not even started *)
Lemma do_for_zero : forall f ib subs, n = 0 ->
  run (S (S (S (S f)))) P w t0 m ib o subs (FSeq (SDoFor b lim :: ss) :: k0) = run f P w t0 m ib o subs (FSeq ss :: k0).
Proof.
  intros f ib subs Hn. rewrite do_for_enters. fold hdl. fold (kstmt true None).
  replace t0 with (t0 + n) at 1 3 by lia. apply do_for_ends.
Qed.

(* the agent's generator resumed in [steps] consecutive time steps from time t: the actions it yields *)
Fixpoint drive (fuel steps t : nat) (ib : bool) (subs : list sstate) (k : kont) : option (list (list nat) * kont) :=
  match steps with
  | 0 => Some ([], k)
  | S j => match run fuel P w t m ib o subs k with
           | (OYield (YActs acts) k', _, _) =>
               option_map (fun r => (acts :: fst r, snd r)) (drive fuel j (S t) ib subs k')
           | _ => None
           end
  end.

Lemma drive_next : forall f ib subs j t, t0 <= t -> t + j <= t0 + n ->
  drive (12 + f) j t ib subs (kstmt false (Some kb)) = Some (repeat [a] j, kstmt false (Some kb)).
Proof.
  induction j as [|j IH]; intros t L1 L2; [reflexivity|].
  cbn [drive]. rewrite do_for_next by lia. rewrite IH by lia. reflexivity.
Qed.

Lemma drive_first : forall f ib subs steps, 0 < steps -> steps <= n ->
  drive (12 + f) steps t0 ib subs (FSeq (SDoFor b lim :: ss) :: k0) = Some (repeat [a] steps, kstmt false (Some kb)).
Proof.
  intros f ib subs steps H1 H2. destruct steps as [|j]; [lia|].
  cbn [drive]. rewrite do_for_first by lia. rewrite drive_next by lia. reflexivity.
Qed.

(* `do B for n steps`: exactly n resumptions yield B's action, the statement staying suspended in between;
   the next resumption (do_for_ends) executes what follows the statement without resuming B *)
Lemma do_for_exactly_n : forall f ib subs, 0 < n ->
  drive (12 + f) n t0 ib subs (FSeq (SDoFor b lim :: ss) :: k0) = Some (repeat [a] n, kstmt false (Some kb)).
Proof. intros. apply drive_first; lia. Qed.
End DoFor.

(* the three facts together (statement of coq/Properties/C12.v: C12_do_for_exactly_n_actions) *)
Lemma do_for_end_to_end : forall P w b a o m n t0 ss k0,
  nth_error (p_behaviors P) b = Some {| b_pre := []; b_inv := []; b_body := [SWhile (CConst true) [STake a]] |} ->
  inv_of P o = [] -> match m with MScen _ => False | _ => True end ->
  forall f ib subs,
  (0 < n -> drive P w o m (12 + f) n t0 ib subs (FSeq (SDoFor b (lim n) :: ss) :: k0) =
            Some (repeat [a] n, kstmt b o n t0 ss k0 false (Some (kb b a o)))) /\
  (forall bk fresh, run (S (S (S f))) P w (t0 + n) m ib o subs (kstmt b o n t0 ss k0 fresh bk) =
                    run f P w (t0 + n) m ib o subs (FSeq ss :: k0)) /\
  (n = 0 -> run (S (S (S (S f)))) P w t0 m ib o subs (FSeq (SDoFor b (lim n) :: ss) :: k0) =
            run f P w t0 m ib o subs (FSeq ss :: k0)).
Proof.
  intros P w b a o m n t0 ss k0 Hb Ho Hm f ib subs. split; [|split].
  - exact (do_for_exactly_n P w b a o m n t0 ss k0 Hb Ho Hm f ib subs).
  - intros bk fresh. exact (do_for_ends P w b o m n t0 ss k0 Ho Hm f ib subs bk fresh).
  - exact (do_for_zero P w b o m n t0 ss k0 Ho Hm f ib subs).
Qed.
