(* DynCore: an executable model of Scenic's dynamic-simulation core (shared by C12, C13, C14).

   DEFINITIONS ONLY (no proofs).  What is mirrored, with the Python anchor of every piece:

     sim_step     = the body of the `while True` loop of Simulation._run      (core/simulators.py)
     init_sim     = Simulation.__init__ up to the call of _run                 (core/simulators.py)
     scen_body    = DynamicScenario._step / _stop                              (core/dynamics/scenarios.py)
     mon_body     = DynamicScenario._runMonitors                               (core/dynamics/scenarios.py)
     run_body     = one resumption (`send(None)`) of the generator of a behavior, monitor or
                    compose block, up to its next `yield` or its end:
                      take/wait/terminate/do ... as emitted by syntax/compiler.py
                      (generateInvocation: `yield X; checkInvariants`, makeDoLike: `yield from
                      _invokeSubBehavior(...); checkInvariants`),
                      Invocable._invokeSubBehavior (do ... for/until = a try-interrupt whose only
                      handler aborts), Behavior._invokeInner, DynamicScenario._invokeInner,
                      runTryInterrupt / InterruptBlock                         (core/dynamics/invocables.py)

   Python generators are defunctionalised: a suspended generator is a stack of frames [kont]
   (innermost first).  A try-interrupt statement owns one suspended continuation per block (body and
   handlers), stored in its [FTry] frame.  Loops that never yield are cut by [fuel]; running out of
   fuel is the distinguished outcome [OStuck], which theorems exclude by hypothesis.

   Conditions read a truth table indexed by (condition id, time step): the correspondence harness
   prints a DynCore program as Scenic source whose conditions look the same table up.

   Programs log *marks*: [SMark n] is a call of the logging function in the Scenic source; the
   event it produces is tagged with the invocable that executes it (mode).  The simulator interface
   (executeActions, step, getProperties) and record / terminate-when expressions log the other events. *)
From Coq Require Import List Arith Bool QArith.
From Scenic Require C11.LTL.      (* rv_ltl's monitor: verdicts of temporal requirements (qualified names only) *)
Import ListNotations.
Local Open Scope nat_scope.

(* ------------------------------------------------------------------------------------------ syntax *)

Inductive cond :=
| CConst (b : bool)
| CTab (id : nat)                    (* table lookup at the current time step *)
| CSince (start : nat) (lim : Q).    (* run-time only: currentTime - start >= lim  (do/wait ... for) *)

(* who owns the code being executed: decides whose invariants `checkInvariants` evaluates *)
Inductive owner := OBeh (b : nat) | OMon (m : nat) | OScen (s : nat).

Inductive stmt :=
| SMark (n : nat)                                    (* call of the logging function *)
| STake (a : nat) | SWait
| SDo (b : nat) | SDoFor (b : nat) (lim : Q) | SDoUntil (b : nat) (c : cond)
| SWaitFor (lim : Q) | SWaitUntil (c : cond)
| SDoScen (ss : list nat) | SDoScenFor (ss : list nat) (lim : Q) | SDoScenUntil (ss : list nat) (c : cond)
| STry (body : list stmt) (hs : list (cond * list stmt))      (* handlers in SOURCE order *)
| SAbort | SBreak | SContinue | SReturn
| SWhile (c : cond) (body : list stmt) | SIf (c : cond) (th el : list stmt)
| STerminate | STerminateSim | SRequire (c : cond)
(* internal forms produced by the compilation scheme, never written by users *)
| SCheck                             (* checkInvariants of the current owner *)
| SYieldRaw                          (* `yield ()` of the scheduler of wait for/until: no invariant check *)
| SDoRaw (b : nat)                   (* Behavior._invokeInner *)
| SDoScenRaw (ss : list nat)         (* DynamicScenario._invokeInner *)
| SStopSubs.                         (* handler of `do S for/until`: `sub._stop(...)` for every running sub-scenario *)

Inductive frame :=
| FSeq (ss : list stmt)                              (* rest of a block *)
| FWhile (c : cond) (body : list stmt)               (* a loop whose body is running *)
| FCheck (o : owner)                                 (* resume point after a yield: checkInvariants(o) *)
| FSub (callee : nat) (caller : owner)               (* function boundary of a running sub-behaviour *)
| FScen (first : bool)                               (* inside the loop of DynamicScenario._invokeInner *)
| FTry (fresh : bool) (o : owner) (body : list stmt) (bk : option (list frame))
       (hs : list (cond * list stmt * option (list frame))).   (* PRIORITY order (reversed source) *)
Definition kont := list frame.

Inductive gstate := GRun (k : kont) | GDone.         (* a generator: suspended, or exhausted *)

(* a running scenario instance: class id, _elapsedTime, compose iterator, monitors,
   _requirementMonitors (requirement id, valuations the monitor has been updated with), _subScenarios *)
Inductive sstate := SState (sid : nat) (elapsed : nat) (k : option kont)
                           (mons : list (nat * gstate)) (reqs : list (nat * LTL.trace)) (subs : list sstate).

Record behavior := { b_pre : list cond; b_inv : list cond; b_body : list stmt }.
Record scenario := { s_pre : list cond; s_inv : list cond; s_limit : option Q;   (* terminate after, in steps *)
                     s_termwhen : list cond; s_monitors : list nat;
                     s_reqs : list nat;           (* `require <temporal formula>` of the setup block: ids into p_reqs *)
                     s_compose : option (list stmt);
                     (* `record e as r<id>` / `terminate simulation when c` stated by the setup block of a SUB-scenario
                        (DynamicScenario._addDynamicRequirement); those of the top-level scenario are p_records / p_termsim *)
                     s_records : list nat; s_termsim : list (nat * cond) }.
Record program := { p_behaviors : list behavior; p_monitors : list (list stmt);
                    p_scenarios : list scenario;               (* index 0 = top-level scenario *)
                    p_objects : list (option nat);             (* object i -> its behavior, if any *)
                    p_rec_init : list nat; p_records : list nat; p_rec_final : list nat;
                    p_termsim : list cond;
                    (* temporal requirements: formula over atoms 0..n-1 (one per atomic proposition, numbered
                       in the order PropositionNode.atomics() lists them) and the condition each atom evaluates *)
                    p_reqs : list (LTL.formula * list cond) }.
Record world := { w_tab : list (list bool) }.

(* ------------------------------------------------------------------------------------------ events *)

Inductive event :=
| EScenario (sid n : nat)            (* mark logged by the compose block of scenario sid *)
| ETermWhen (sid idx : nat)          (* evaluation of the idx-th `terminate when` of scenario sid *)
| EReq (sid rid atom : nat)          (* monitor update of requirement rid of scenario sid: evaluation of its atom *)
| ERecord (rid : nat)                (* evaluation of a record expression *)
| EMonitor (mid n : nat)
| ETermCheck (idx : nat)             (* evaluation of the idx-th `terminate simulation when` *)
| EBehavior (agent n : nat)
| EActions (acts : list (nat * list nat))      (* executeActions: (agent, actions) in dict order *)
| ESimStep (t : nat) | EClock (t : nat) | EUpdate (obj : nat).

Inductive mode := MBeh (agent : nat) | MMon (mid : nat) | MScen (sid : nat).
Definition mark (m : mode) (n : nat) : event :=
  match m with MBeh a => EBehavior a n | MMon i => EMonitor i n | MScen s => EScenario s n end.

Inductive concl := KFinished | KAbort | KReturn | KBreak | KContinue | KNone.   (* BlockConclusion; KNone = a non-flag value *)
Inductive yielded := YActs (acts : list nat) | YNone | YEndScenario | YEndSim.
Inductive outcome :=
| OYield (y : yielded) (k : kont)
| ODone                              (* the generator function returned (StopIteration) *)
| OBlock (c : concl)                 (* an interrupt-block function returned c *)
| OReject                            (* RejectSimulationException *)
| OViolation (pre : bool) (o : owner)        (* PreconditionViolation / InvariantViolation *)
| OError                             (* TypeError / assertion: outside the fragment *)
| OStuck.

(* ------------------------------------------------------------------------------------------ helpers *)

Definition tab_get (w : world) (id t : nat) : bool := nth t (nth id (w_tab w) []) false.

Definition eval (w : world) (t : nat) (c : cond) : bool :=
  match c with
  | CConst b => b
  | CTab id => tab_get w id t
  | CSince start lim => Qle_bool lim (inject_Z (Z.of_nat (t - start)))
  end.

Definition all_true (w : world) (t : nat) (cs : list cond) : bool := forallb (eval w t) cs.

Definition inv_of (P : program) (o : owner) : list cond :=
  match o with
  | OBeh b => match nth_error (p_behaviors P) b with Some x => b_inv x | None => [] end
  | OScen s => match nth_error (p_scenarios P) s with Some x => s_inv x | None => [] end
  | OMon _ => []
  end.
Definition pre_of (P : program) (o : owner) : list cond :=
  match o with
  | OBeh b => match nth_error (p_behaviors P) b with Some x => b_pre x | None => [] end
  | OScen s => match nth_error (p_scenarios P) s with Some x => s_pre x | None => [] end
  | OMon _ => []
  end.

(* Invocable._checkAllPreconditions: preconditions, then invariants *)
Definition guards_at_start (P : program) (w : world) (t : nat) (o : owner) : option bool :=
  if negb (all_true w t (pre_of P o)) then Some true
  else if negb (all_true w t (inv_of P o)) then Some false else None.

(* python `break` / `continue`: innermost enclosing loop of the same function *)
Fixpoint unwind_loop (k : kont) : option (cond * list stmt * kont) :=
  match k with
  | FSeq _ :: k' => unwind_loop k'
  | FWhile c body :: k' => Some (c, body, k')
  | _ => None
  end.
(* python `return`: drop the frames of the current function; Some = the FSub boundary is kept on top *)
Fixpoint unwind_fun (k : kont) : option kont :=
  match k with
  | [] => None
  | FSub b o :: k' => Some (FSub b o :: k')
  | _ :: k' => unwind_fun k'
  end.

(* runTryInterrupt's choice: first block in priority order that is enabled or running, else the body *)
Fixpoint pick_handler (w : world) (t : nat) (hs : list (cond * list stmt * option kont)) : option nat :=
  match hs with
  | [] => None
  | (c, _, hk) :: r =>
      if eval w t c || (match hk with Some _ => true | None => false end) then Some 0
      else option_map S (pick_handler w t r)
  end.
Fixpoint set_handler (hs : list (cond * list stmt * option kont)) (i : nat) (v : option kont) :=
  match hs, i with
  | [], _ => []
  | (c, b, _) :: r, 0 => (c, b, v) :: r
  | h :: r, S j => h :: set_handler r j v
  end.

(* InterruptBlock.step: the continuation to resume — the suspended one, or a fresh call of the block *)
Definition selected_kont (body : list stmt) (bk : option kont) (hs : list (cond * list stmt * option kont))
                         (sel : option nat) : kont :=
  match sel with
  | None => match bk with Some x => x | None => [FSeq body] end
  | Some i => match nth_error hs i with
              | Some (_, hb, Some x) => x
              | Some (_, hb, None) => [FSeq hb]
              | None => []
              end
  end.

(* the compiler's ordering: conditions/handlers are passed to runTryInterrupt reversed *)
Definition compile_handlers (hs : list (cond * list stmt)) : list (cond * list stmt * option kont) :=
  map (fun h => (fst h, snd h, @None kont)) (rev hs).

(* The compiler's bookkeeping of loop-control statements inside interrupt blocks (syntax/compiler.py):
   visit_Break / visit_Continue turn a `break` / `continue` that is in an interrupt block and outside any loop of
   that block into `return BREAK` / `return CONTINUE` and record it in usedBreak / usedContinue;
   visit_TryInterrupt resets both flags when it starts (and does not restore them when it ends: a nested
   statement wipes what the enclosing one had recorded so far) and, after the call of runTryInterrupt, emits
   `if result is BREAK: break` only if usedBreak is set and `if result is CONTINUE: continue` only if
   usedContinue is set (the `return` check is emitted unconditionally).  [fl_stmt s inloop st] is the flag state
   (usedBreak, usedContinue) after visiting s inside an interrupt block. *)
Fixpoint fl_stmt (s : stmt) (inloop : bool) (st : bool * bool) : bool * bool :=
  match s with
  | SBreak => if inloop then st else (true, snd st)
  | SContinue => if inloop then st else (fst st, true)
  | SWhile _ body => fold_left (fun a x => fl_stmt x true a) body st
  | SIf _ a b => fold_left (fun a x => fl_stmt x inloop a) b (fold_left (fun a x => fl_stmt x inloop a) a st)
  | STry body hs =>
      fold_left (fun a h => fold_left (fun a x => fl_stmt x false a) (snd h) a) hs
                (fold_left (fun a x => fl_stmt x false a) body (false, false))
  | _ => st
  end.
(* the checks emitted after the statement `try: body interrupt when ...: hs` *)
Definition try_flags (body : list stmt) (hs : list (cond * list stmt)) : bool * bool :=
  fl_stmt (STry body hs) false (false, false).
(* a BREAK / CONTINUE conclusion whose check was not emitted is not acted upon: control falls through to the
   statement after the try-interrupt, exactly as for `abort`.  [rw_stmt] makes that explicit on the blocks
   (only loop-control statements of the block itself: not inside its loops or nested statements). *)
Fixpoint rw_stmt (ub uc : bool) (s : stmt) : stmt :=
  match s with
  | SBreak => if ub then SBreak else SAbort
  | SContinue => if uc then SContinue else SAbort
  | SIf c a b => SIf c (map (rw_stmt ub uc) a) (map (rw_stmt ub uc) b)
  | x => x
  end.
Definition compile_try (body : list stmt) (hs : list (cond * list stmt)) : list stmt * list (cond * list stmt) :=
  let '(ub, uc) := try_flags body hs in
  (map (rw_stmt ub uc) body, map (fun h => (fst h, map (rw_stmt ub uc) (snd h))) hs).

Definition wait_forever : list stmt := [SWhile (CConst true) [SYieldRaw]].

(* MonitorRequirement.lastValue: TRUE before the first update, then the verdict after the last update *)
Definition req_last (P : program) (r : nat * LTL.trace) : LTL.B4 :=
  match nth_error (p_reqs P) (fst r), snd r with
  | Some (f, _), _ :: _ => LTL.verdict f (snd r)
  | _, _ => LTL.BT
  end.
Definition req_ok (P : program) (r : nat * LTL.trace) : bool := negb (LTL.is_falsy (req_last P r)).
(* DynamicScenario._stop (not quiet): the running sub-scenarios are stopped first, then the scenario's own
   requirement monitors are consulted; a falsy last verdict anywhere raises RejectSimulationException *)
Fixpoint stop_ok (P : program) (st : sstate) : bool :=
  let '(SState _ _ _ _ reqs subs) := st in
  forallb (req_ok P) reqs &&
  (fix go (l : list sstate) : bool := match l with [] => true | s :: r => stop_ok P s && go r end) subs.
Definition stops_ok (P : program) (l : list sstate) : bool := forallb (stop_ok P) l.

(* result of stepping a scenario instance *)
Inductive sres :=
| SCont (st : sstate)                (* _step returned None *)
| SStopped                           (* _step returned a reason after _stop *)
| SEndSim (st : sstate)              (* _step returned an _EndSimulationAction (the instance, stopped: its parent's
                                        _invokeInner yields at once and keeps it in _subScenarios) *)
| SBad (o : outcome).                (* rejection / violation / error / stuck *)

Definition rres := (outcome * list event * list sstate)%type.
Definition emit (e : list event) (r : rres) : rres :=
  let '(o, e', s) := r in (o, e ++ e', s).

(* ------------------------------------------------------------------------------------------ interpreter *)
Section Body.
Variable P : program.
Variable w : world.
Variable t : nat.
(* open recursion: the interpreters below are one layer; [run]/[step_scen]/[run_mons] tie the knot on fuel *)
Variable rec : mode -> bool -> owner -> list sstate -> kont -> rres.
Variable recscen : sstate -> sres * list event.
Variable recmon : sstate -> (option sstate * bool * bool * option outcome) * list event.
(* quirk switch: does `terminate` executed by a monitor of a SUB-scenario reach the parent as a
   termination reason (current implementation: yes, the whole simulation ends; documented and
   repaired behaviour: no, only that sub-scenario stops)?  The harness probes which one the tree has. *)
Variable qsub : bool.

(* DynamicScenario._invokeInner, the `for sub in self._subScenarios` loop *)
Fixpoint step_subs (subs : list sstate) : (list sstate * option sres) * list event :=
  match subs with
  | [] => ([], None, [])
  | s :: r =>
      let '(res, e1) := recscen s in
      match res with
      | SCont s' => let '(l, bad, e2) := step_subs r in (s' :: l, bad, e1 ++ e2)
      | SStopped => let '(l, bad, e2) := step_subs r in (l, bad, e1 ++ e2)
      | SEndSim st' => (st' :: r, Some (SEndSim st'), e1)     (* `yield terminationReason` inside the loop: the list is not
                                                                 updated; the sub-scenarios not yet stepped are still running *)
      | other => (r, Some other, e1)
      end
  end.

(* DynamicScenario._prepare + _start of a sub-scenario (guards, then setup: monitors are started) *)
Definition start_scen (sid : nat) : sstate + outcome :=
  match nth_error (p_scenarios P) sid with
  | None => inr OError
  | Some sc =>
      match guards_at_start P w t (OScen sid) with
      | Some pre => inr (OViolation pre (OScen sid))
      | None =>
          inl (SState sid 0
                 (match s_compose sc with
                  | Some b => Some [FSeq b]
                  | None => match s_pre sc, s_inv sc with   (* guards only: a no-op compose block is generated *)
                            | [], [] => None
                            | _, _ => Some [FSeq [SWhile (CConst true) [SWait]]]
                            end
                  end)
                 (map (fun m => (m, match nth_error (p_monitors P) m with
                                    | Some b => GRun [FSeq b] | None => GDone end)) (s_monitors sc))
                 (map (fun r => (r, @nil LTL.valuation)) (s_reqs sc))
                 [])
      end
  end.
Fixpoint start_scens (ids : list nat) : list sstate + outcome :=
  match ids with
  | [] => inl []
  | i :: r => match start_scen i with
              | inr o => inr o
              | inl s => match start_scens r with inr o => inr o | inl l => inl (s :: l) end
              end
  end.

Definition run_body (m : mode) (ib : bool) (o : owner) (subs : list sstate) (k : kont) : rres :=
  match k with
  | [] => (ODone, [], subs)
  | FSeq [] :: k' => rec m ib o subs k'
  | FWhile c body :: k' =>
      if eval w t c then rec m ib o subs (FSeq body :: FWhile c body :: k') else rec m ib o subs k'
  | FCheck o' :: k' =>
      if all_true w t (inv_of P o') then rec m ib o' subs k' else (OViolation false o', [], subs)
  | FSub _ caller :: k' => rec m ib caller subs k'          (* sub-behaviour returned; it is stopped *)
  | FScen first :: k' =>
      match m with
      | MScen _ =>
          let '(subs', bad, e) := step_subs subs in
          match bad with
          | Some (SEndSim _) => (OYield YEndSim (FScen false :: k'), e, subs')
          | Some (SBad x) => (x, e, subs')
          | Some _ => (OError, e, subs')
          | None =>
              match subs' with
              | [] => emit e (rec m ib o [] k')
              | _ => (OYield YNone (FScen false :: k'), e, subs')
              end
          end
      | _ => (OError, [], subs)
      end
  | FTry fresh o' body bk hs :: k' =>
      if negb fresh && negb (all_true w t (inv_of P o')) then (OViolation false o', [], subs) else
      let sel := pick_handler w t hs in
      let bkont := selected_kont body bk hs sel in
      let '(out, e, subs1) := rec m true o' subs bkont in
      (* statement over: every other block is abandoned; in a compose block the sub-scenarios
         still running under the statement are stopped (handler of do ... for/until) *)
      let subs_end := match m with MScen _ => [] | _ => subs1 end in
      match out with
      | OYield y kb' =>
          (OYield y (match sel with
                     | None => FTry false o' body (Some kb') hs
                     | Some i => FTry false o' body bk (set_handler hs i (Some kb'))
                     end :: k'), e, subs1)
      | ODone | OBlock KFinished =>
          match sel with
          | Some i => emit e (rec m ib o' subs1 (FTry true o' body bk (set_handler hs i None) :: k'))
          | None => emit e (rec m ib o' subs_end k')
          end
      | OBlock KAbort | OBlock KNone => emit e (rec m ib o' subs_end k')
      | OBlock KBreak =>
          match unwind_loop k' with
          | Some (_, _, k'') => emit e (rec m ib o' subs_end k'')
          | None => if ib then (OBlock KBreak, e, subs_end) else (OError, e, subs_end)
          end
      | OBlock KContinue =>
          match unwind_loop k' with
          | Some (c, b, k'') => emit e (rec m ib o' subs_end (FWhile c b :: k''))
          | None => if ib then (OBlock KContinue, e, subs_end) else (OError, e, subs_end)
          end
      | OBlock KReturn =>          (* `return r.return_value`: a plain return of the enclosing function *)
          match unwind_fun k' with
          | Some k'' => emit e (rec m ib o' subs_end k'')
          | None => if ib then (OBlock KNone, e, subs_end) else (ODone, e, subs_end)
          end
      | other => (other, e, subs1)
      end
  | FSeq (s :: ss) :: k0 =>
      let kk := FSeq ss :: k0 in
      match s with
      | SMark n => emit [mark m n] (rec m ib o subs kk)
      | STake a => (OYield (YActs [a]) (FCheck o :: kk), [], subs)
      | SWait => (OYield (YActs []) (FCheck o :: kk), [], subs)
      | SYieldRaw => (OYield (YActs []) kk, [], subs)
      | STerminate => (OYield YEndScenario (FCheck o :: kk), [], subs)
      | STerminateSim => (OYield YEndSim (FCheck o :: kk), [], subs)
      | SRequire c => if eval w t c then rec m ib o subs kk else (OReject, [], subs)
      | SCheck => if all_true w t (inv_of P o) then rec m ib o subs kk else (OViolation false o, [], subs)
      | SIf c a b => rec m ib o subs (FSeq (if eval w t c then a else b) :: kk)
      | SWhile c body => rec m ib o subs (FWhile c body :: kk)
      | SBreak =>
          match unwind_loop kk with
          | Some (_, _, k'') => rec m ib o subs k''
          | None => if ib then (OBlock KBreak, [], subs) else (OError, [], subs)
          end
      | SContinue =>
          match unwind_loop kk with
          | Some (c, b, k'') => rec m ib o subs (FWhile c b :: k'')
          | None => if ib then (OBlock KContinue, [], subs) else (OError, [], subs)
          end
      | SReturn =>
          match unwind_fun kk with
          | Some k'' => rec m ib o subs k''
          | None => if ib then (OBlock KReturn, [], subs) else (ODone, [], subs)
          end
      | SAbort => if ib then (OBlock KAbort, [], subs) else (OError, [], subs)
      (* do: `yield from _invokeSubBehavior(...)` then checkInvariants of the caller *)
      | SDo b => rec m ib o subs (FSeq [SDoRaw b; SCheck] :: kk)
      | SDoFor b lim =>
          rec m ib o subs (FTry true o [SDoRaw b] None [(CSince t lim, [SAbort], None)] :: FSeq [SCheck] :: kk)
      | SDoUntil b c =>
          rec m ib o subs (FTry true o [SDoRaw b] None [(c, [SAbort], None)] :: FSeq [SCheck] :: kk)
      | SWaitFor lim =>
          rec m ib o subs (FTry true o wait_forever None [(CSince t lim, [SAbort], None)] :: FSeq [SCheck] :: kk)
      | SWaitUntil c =>
          rec m ib o subs (FTry true o wait_forever None [(c, [SAbort], None)] :: FSeq [SCheck] :: kk)
      | SDoScen ss' => rec m ib o subs (FSeq [SDoScenRaw ss'; SCheck] :: kk)
      | SDoScenFor ss' lim =>
          rec m ib o subs (FTry true o [SDoScenRaw ss'] None [(CSince t lim, [SStopSubs; SAbort], None)] :: FSeq [SCheck] :: kk)
      | SDoScenUntil ss' c =>
          rec m ib o subs (FTry true o [SDoScenRaw ss'] None [(c, [SStopSubs; SAbort], None)] :: FSeq [SCheck] :: kk)
      (* the handler of do-scenario-for/until stops the running sub-scenarios: their requirements are checked *)
      | SStopSubs => if stops_ok P subs then rec m ib o [] kk else (OReject, [], subs)
      | STry body hs =>
          rec m ib o subs (FTry true o (fst (compile_try body hs)) None (compile_handlers (snd (compile_try body hs))) :: kk)
      | SDoRaw b =>
          match m with
          | MScen _ => (OError, [], subs)
          | _ =>
              match nth_error (p_behaviors P) b with
              | None => (OError, [], subs)
              | Some bh =>
                  match guards_at_start P w t (OBeh b) with        (* sub._start(agent) *)
                  | Some pre => (OViolation pre (OBeh b), [], subs)
                  | None => rec m ib (OBeh b) subs (FSeq (b_body bh) :: FSub b o :: kk)
                  end
              end
          end
      | SDoScenRaw ids =>
          match m with
          | MScen _ =>
              match start_scens ids with
              | inr x => (x, [], subs)
              | inl l => rec m ib o l (FScen true :: kk)
              end
          | _ => (OError, [], subs)
          end
      end
  end.

(* `terminate when` conditions, in order; each evaluation is logged *)
Fixpoint check_termwhen (sid idx : nat) (cs : list cond) : bool * list event :=
  match cs with
  | [] => (false, [])
  | c :: r => if eval w t c then (true, [ETermWhen sid idx])
              else let '(b, e) := check_termwhen sid (S idx) r in (b, ETermWhen sid idx :: e)
  end.

(* step 1a: every requirement monitor of the scenario is updated with the current valuation (each atomic
   proposition is evaluated: logged); a verdict FALSE raises RejectSimulationException at once (the
   remaining monitors are not updated) *)
Definition req_events (sid rid n : nat) : list event := map (EReq sid rid) (seq 0 n).
Fixpoint update_reqs (sid : nat) (rs : list (nat * LTL.trace)) : (list (nat * LTL.trace) * bool) * list event :=
  match rs with
  | [] => ([], false, [])
  | (rid, h) :: rest =>
      match nth_error (p_reqs P) rid with
      | None => let '(l, b, e) := update_reqs sid rest in ((rid, h) :: l, b, e)
      | Some (f, cs) =>
          let h' := h ++ [map (eval w t) cs] in
          let e := req_events sid rid (length cs) in
          if LTL.is_BF (LTL.verdict f h') then ((rid, h') :: rest, true, e)
          else let '(l, b, e2) := update_reqs sid rest in ((rid, h') :: l, b, e ++ e2)
      end
  end.

(* step 1e: DynamicScenario._stop of a scenario in state st *)
Definition stopped_with (r : sres) (st : sstate) (e : list event) : sres * list event :=
  if stop_ok P st then (r, e) else (SBad OReject, e).
Definition stopped := stopped_with SStopped.

(* the part of DynamicScenario._step after the compose block: finished compose block? termination
   conditions?  (a scenario with guards but no compose block gets a generated no-op compose block) *)
Definition has_compose (sc : scenario) : bool :=
  match s_compose sc, s_pre sc, s_inv sc with
  | Some _, _, _ => true
  | None, _ :: _, _ => true
  | None, [], _ :: _ => true
  | None, [], [] => false
  end.
Definition scen_fin (sc : scenario) (sid el : nat) (mons : list (nat * gstate)) (reqs : list (nat * LTL.trace))
                    (k' : option kont) (subs' : list sstate) (e : list event) : sres * list event :=
  if (match k' with None => has_compose sc | Some _ => false end) then stopped (SState sid el k' mons reqs subs') e
  else let '(b, e2) := check_termwhen sid 0 (s_termwhen sc) in
       if b then stopped (SState sid el k' mons reqs subs') (e ++ e2)
       else (SCont (SState sid (S el) k' mons reqs subs'), e ++ e2).

Definition limit_reached (sc : scenario) (el : nat) : bool :=
  match s_limit sc with Some L => Qle_bool L (inject_Z (Z.of_nat el)) | None => false end.

(* DynamicScenario._step, in the documented order: (a) temporal requirements, (b) time limit,
   (d) compose block, then finished compose block / `terminate when` *)
Definition scen_body (st : sstate) : sres * list event :=
  let '(SState sid el k mons reqs subs) := st in
  match nth_error (p_scenarios P) sid with
  | None => (SBad OError, [])
  | Some sc =>
      let '(reqs', rej, er) := update_reqs sid reqs in
      if rej then (SBad OReject, er)
      else if limit_reached sc el then stopped (SState sid el k mons reqs' subs) er     (* reached time limit *)
      else
        match k with
        | None => scen_fin sc sid el mons reqs' None subs er
        | Some kc =>
            let '(out, e, subs') := rec (MScen sid) false (OScen sid) subs kc in
            match out with
            | OYield YEndScenario k' => stopped (SState sid el (Some k') mons reqs' subs') (er ++ e)
            | OYield YEndSim k' => stopped_with (SEndSim (SState sid el (Some k') mons reqs' subs')) (SState sid el (Some k') mons reqs' subs') (er ++ e)
            | OYield _ k' => scen_fin sc sid el mons reqs' (Some k') subs' (er ++ e)
            | ODone => scen_fin sc sid el mons reqs' None subs' (er ++ e)
            | OBlock _ => (SBad OError, er ++ e)
            | bad => (SBad bad, er ++ e)
            end
        end
  end.

(* one monitor for one step: Behavior._step *)
Definition step_monitor (mid : nat) (g : gstate) : (gstate * bool * bool * option outcome) * list event :=
  match g with
  | GDone => (GDone, false, false, None, [])
  | GRun k =>
      let '(out, e, _) := rec (MMon mid) false (OMon mid) [] k in
      match out with
      | OYield YEndSim k' => (GRun k', true, false, None, e)
      | OYield YEndScenario k' => (GRun k', false, true, None, e)
      | OYield _ k' => (GRun k', false, false, None, e)
      | ODone => (GDone, false, false, None, e)
      | OBlock _ => (GDone, false, false, Some OError, e)
      | bad => (GDone, false, false, Some bad, e)
      end
  end.
Fixpoint step_monitors (ms : list (nat * gstate)) : (list (nat * gstate) * bool * bool * option outcome) * list event :=
  match ms with
  | [] => ([], false, false, None, [])
  | (mid, g) :: r =>
      let '(g', es, ec, bad, e1) := step_monitor mid g in
      match bad with
      | Some x => ([], false, false, Some x, e1)
      | None => let '(l, es2, ec2, bad2, e2) := step_monitors r in
                ((mid, g') :: l, es || es2, ec || ec2, bad2, e1 ++ e2)
      end
  end.
(* the `for sub in self._subScenarios: sub._runMonitors()` loop.  A sub-scenario whose monitor
   executed `terminate` is stopped, and its reason is handed to the parent as a termination reason. *)
Fixpoint mons_of_subs (subs : list sstate) : (list sstate * bool * option outcome) * list event :=
  match subs with
  | [] => ([], false, None, [])
  | s :: r =>
      let '(s', endsim1, endscen1, bad, e1) := recmon s in
      let reason := endsim1 || (qsub && endscen1) in
      match bad with
      | Some x => ([], false, Some x, e1)
      | None => let '(l, reason2, bad2, e2) := mons_of_subs r in
                (match s' with Some x => x :: l | None => l end, reason || reason2, bad2, e1 ++ e2)
      end
  end.
(* DynamicScenario._runMonitors: (state unless stopped, a `terminate simulation` (or, under qsub, a
   sub-scenario's reason) was seen, a monitor of this very scenario executed `terminate`, failure);
   the value returned by the Python method is not None iff one of the two booleans holds *)
Definition mon_body (st : sstate) : (option sstate * bool * bool * option outcome) * list event :=
  let '(SState sid el k mons reqs subs) := st in
  let '(mons', endsim, endscen, bad, e1) := step_monitors mons in
  match bad with
  | Some x => (None, false, false, Some x, e1)
  | None =>
      let '(subs', subreason, bad2, e2) := mons_of_subs subs in
      match bad2 with
      | Some x => (None, false, false, Some x, e1 ++ e2)
      | None =>
          (* a monitor of this scenario executed `terminate`: self._stop(...), which checks the requirements *)
          if endscen && negb (stop_ok P (SState sid el k mons' reqs subs'))
          then (None, false, false, Some OReject, e1 ++ e2)
          else (if endscen then None else Some (SState sid el k mons' reqs subs'),
                endsim || subreason, endscen, None, e1 ++ e2)
      end
  end.
End Body.

Fixpoint run (fuel : nat) (P : program) (w : world) (t : nat)
             (m : mode) (ib : bool) (o : owner) (subs : list sstate) (k : kont) {struct fuel} : rres :=
  match fuel with
  | 0 => (OStuck, [], subs)
  | S f => run_body P w t (run f P w t) (step_scen f P w t) m ib o subs k
  end
with step_scen (fuel : nat) (P : program) (w : world) (t : nat) (st : sstate) {struct fuel} : sres * list event :=
  match fuel with
  | 0 => (SBad OStuck, [])
  | S f => scen_body P w t (run f P w t) st
  end.
Fixpoint run_mons (qsub : bool) (fuel : nat) (P : program) (w : world) (t : nat) (st : sstate) {struct fuel}
  : (option sstate * bool * bool * option outcome) * list event :=
  match fuel with
  | 0 => (None, false, false, Some OStuck, [])
  | S f => mon_body P (run fuel P w t) (run_mons qsub f P w t) qsub st
  end.

(* ------------------------------------------------------------------------------------------ simulation *)

Inductive term_type := TScenarioComplete | TMonitor | TSimCond | TTimeLimit | TBehavior.
Inductive rkind := RDone (ty : term_type) | RRejected | RViolation (pre : bool) | RStuck | RError
                 | RSceneRejected.     (* Scenario.generate discarded the scene (requirement FALSE on the initial valuation) *)

(* Simulation: currentTime, top-level scenario (None once stopped), agents with their root
   behaviour and generator, len(trajectory), actionSequence (newest first) *)
Record sim := { time : nat; top : option sstate; agents : list (nat * nat * gstate);
                traj : nat; actlog : list (list (nat * list nat)) }.

Inductive step_result := Next (s : sim) | Stop (k : rkind) (s : sim).

Definition kind_of_outcome (o : outcome) : rkind :=
  match o with
  | OReject => RRejected
  | OViolation pre _ => RViolation pre
  | OStuck => RStuck
  | _ => RError
  end.

Fixpoint check_termsim (w : world) (t idx : nat) (cs : list cond) : bool * list event :=
  match cs with
  | [] => (false, [])
  | c :: r => if eval w t c then (true, [ETermCheck idx])
              else let '(b, e) := check_termsim w t (S idx) r in (b, ETermCheck idx :: e)
  end.

Fixpoint find_agent (a : nat) (ags : list (nat * nat * gstate)) : option (nat * gstate) :=
  match ags with
  | [] => None
  | (a', b, g) :: r => if Nat.eqb a a' then Some (b, g) else find_agent a r
  end.
Fixpoint set_agent (a : nat) (g : gstate) (ags : list (nat * nat * gstate)) :=
  match ags with
  | [] => []
  | (a', b, g') :: r => if Nat.eqb a a' then (a', b, g) :: r else (a', b, g') :: set_agent a g r
  end.

(* result of the behaviour phase: all agents ran / the simulation ends *)
Inductive bres := BAll (ags : list (nat * nat * gstate)) (acts : list (nat * list nat)) | BStop (k : rkind).

(* `for agent in schedule: actions = agent.behavior._step() ...` *)
Fixpoint beh_phase (fuel : nat) (P : program) (w : world) (t : nat) (sched : list nat)
                   (ags : list (nat * nat * gstate)) (acc : list (nat * list nat)) : bres * list event :=
  match sched with
  | [] => (BAll ags (rev acc), [])
  | a :: r =>
      match find_agent a ags with
      | None => (BStop RError, [])
      | Some (b, GDone) => beh_phase fuel P w t r ags ((a, []) :: acc)          (* exhausted generator: () *)
      | Some (b, GRun k) =>
          let '(out, e, _) := run fuel P w t (MBeh a) false (OBeh b) [] k in
          match out with
          | OYield (YActs acts) k' =>
              let '(res, e2) := beh_phase fuel P w t r (set_agent a (GRun k') ags) ((a, acts) :: acc) in (res, e ++ e2)
          | OYield YNone _ => (BStop RError, e)
          | OYield _ _ => (BStop (RDone TBehavior), e)          (* terminate [simulation] *)
          | ODone =>
              let '(res, e2) := beh_phase fuel P w t r (set_agent a GDone ags) ((a, []) :: acc) in (res, e ++ e2)
          | OBlock _ => (BStop RError, e)
          | bad => (BStop (kind_of_outcome bad), e)
          end
      end
  end.

(* The per-step traversals of the tree of sub-scenarios (DynamicScenario._evaluateRecordedExprsAt,
   _checkSimulationTerminationConditions: own statements first, then `for sub in self._subScenarios`, recursively).
   The lists only hold RUNNING instances: a sub-scenario that stopped was dropped by [step_subs] / [SStopSubs] /
   [mons_of_subs], so a stopped scenario contributes no record and no condition. *)
Fixpoint tree_records (P : program) (st : sstate) : list event :=
  let '(SState sid _ _ _ _ subs) := st in
  (match nth_error (p_scenarios P) sid with Some sc => map ERecord (s_records sc) | None => [] end) ++
  (fix go (l : list sstate) : list event := match l with [] => [] | x :: r => tree_records P x ++ go r end) subs.
Definition subs_records (P : program) (l : list sstate) : list event := flat_map (tree_records P) l.
Fixpoint tree_termsim (P : program) (st : sstate) : list (nat * cond) :=
  let '(SState sid _ _ _ _ subs) := st in
  (match nth_error (p_scenarios P) sid with Some sc => s_termsim sc | None => [] end) ++
  (fix go (l : list sstate) : list (nat * cond) := match l with [] => [] | x :: r => tree_termsim P x ++ go r end) subs.
Definition subs_termsim (P : program) (l : list sstate) : list (nat * cond) := flat_map (tree_termsim P) l.
Definition subs_of (st : sstate) : list sstate := let '(SState _ _ _ _ _ subs) := st in subs.
Fixpoint check_termsim_l (w : world) (t : nat) (cs : list (nat * cond)) : bool * list event :=
  match cs with
  | [] => (false, [])
  | (i, c) :: r => if eval w t c then (true, [ETermCheck i])
                   else let '(b, e) := check_termsim_l w t r in (b, ETermCheck i :: e)
  end.
(* _checkSimulationTerminationConditions of the top-level scenario: its own conditions, then the running tree *)
Definition check_all_termsim (P : program) (w : world) (t : nat) (subs : list sstate) : bool * list event :=
  let '(b, e) := check_termsim w t 0 (p_termsim P) in
  if b then (true, e) else let '(b2, e2) := check_termsim_l w t (subs_termsim P subs) in (b2, e ++ e2).

Definition nobjects (P : program) : nat := length (p_objects P).
Definition update_events (P : program) : list event := map EUpdate (seq 0 (nobjects P)).

(* the phases of one iteration of Simulation._run's loop *)
Definition phase_scen (fuel : nat) (P : program) (w : world) (s : sim) : sres * list event :=
  match top s with
  | Some st => step_scen fuel P w (time s) st
  | None => (SBad OError, [])
  end.
Definition phase_record (P : program) (s : sim) : list event :=
  (if Nat.eqb (time s) 0 then map ERecord (p_rec_init P) else []) ++ map ERecord (p_records P).
(* the `_subScenarios` of the top-level scenario when it stopped in this step (its `_stop` stops them but leaves the
   list as it is, and recordCurrentState still runs in that last step): the list before the step when the time limit
   was reached or there is no compose block, else the list the compose block left *)
Definition residual_subs (fuel : nat) (P : program) (w : world) (s : sim) : list sstate :=
  match top s with
  | Some (SState sid el k mons reqs subs) =>
      match nth_error (p_scenarios P) sid with
      | None => []
      | Some sc =>
          if limit_reached sc el then subs
          else match k with
               | None => subs
               | Some kc => snd (run fuel P w (time s) (MScen sid) false (OScen sid) subs kc)
               end
      end
  | None => []
  end.
(* recordCurrentState: the top-level scenario's records, then those of its sub-scenario tree *)
Definition phase_record_all (fuel : nat) (P : program) (w : world) (s : sim) (sr : sres) : list event :=
  phase_record P s ++
  subs_records P (match sr with SCont st => subs_of st | SBad _ => [] | _ => residual_subs (Nat.pred fuel) P w s end).

(* `if maxSteps and self.currentTime >= maxSteps` *)
Definition step_limit_hit (maxSteps : option nat) (t : nat) : bool :=
  match maxSteps with Some (S m) => Nat.leb (S m) t | _ => false end.

Definition phase_mon (qsub : bool) (fuel : nat) (P : program) (w : world) (t : nat) (top1 : option sstate)
  : (option sstate * bool * bool * option outcome) * list event :=
  match top1 with
  | Some st => run_mons qsub fuel P w t st
  | None => ((None, false, false, None), [])      (* a stopped scenario has no monitors left *)
  end.

Definition sim_step (qsub : bool) (fuel : nat) (P : program) (w : world) (maxSteps : option nat)
                    (sched : nat -> list nat) (s : sim) : step_result * list event :=
  let t := time s in
  (* 1. dynamicScenario._step() *)
  let '(sr, e1) := phase_scen fuel P w s in
  match sr with
  | SBad x => (Stop (kind_of_outcome x) s, e1)
  | _ =>
      let reason1 := match sr with SCont _ => false | _ => true end in
      let top1 := match sr with SCont st => Some st | _ => None end in
      (* 2. recordCurrentState() *)
      let e2 := phase_record_all fuel P w s sr in
      let s2 := {| time := t; top := top1; agents := agents s; traj := S (traj s); actlog := actlog s |} in
      (* 3. dynamicScenario._runMonitors() (a stopped scenario has no monitors left) *)
      let '(mr, e3) := phase_mon qsub fuel P w t top1 in
      let '(top3, mendsim, mendscen, mbad) := mr in
      let mreason := mendsim || mendscen in
      match mbad with
      | Some x => (Stop (kind_of_outcome x) s2, e1 ++ e2 ++ e3)
      | None =>
          let s3 := {| time := t; top := top3; agents := agents s; traj := S (traj s); actlog := actlog s |} in
          (* 4. termination checks *)
          if mreason then (Stop (RDone TMonitor) s3, e1 ++ e2 ++ e3)
          else if reason1 then (Stop (RDone TScenarioComplete) s3, e1 ++ e2 ++ e3)
          else
            let '(tc, e4) := check_all_termsim P w t (match top1 with Some st => subs_of st | None => [] end) in
            if tc then (Stop (RDone TSimCond) s3, e1 ++ e2 ++ e3 ++ e4)
            else if step_limit_hit maxSteps t
            then (Stop (RDone TTimeLimit) s3, e1 ++ e2 ++ e3 ++ e4)
            else
              (* 5. behaviours in schedule order *)
              let '(br, e5) := beh_phase fuel P w t (sched t) (agents s) [] in
              match br with
              | BStop k => (Stop k s3, e1 ++ e2 ++ e3 ++ e4 ++ e5)
              | BAll ags acts =>
                  (* 6-9. executeActions, step, currentTime += 1, updateObjects *)
                  (Next {| time := S t; top := top3; agents := ags; traj := S (traj s);
                           actlog := acts :: actlog s |},
                   e1 ++ e2 ++ e3 ++ e4 ++ e5 ++
                   [EActions acts; ESimStep t; EClock (S t)] ++ update_events P)
              end
      end
  end.

Record result := { r_kind : rkind; r_time : nat; r_traj : nat; r_actions : list (list (nat * list nat)) }.

Definition result_of (k : rkind) (s : sim) : result :=
  {| r_kind := k; r_time := time s; r_traj := traj s; r_actions := rev (actlog s) |}.

(* after _run has returned: every scenario still running is stopped ("simulation terminated"), which
   consults its requirement monitors (documented step 10) *)
Definition final_kind (P : program) (k : rkind) (s : sim) : rkind :=
  match k, top s with
  | RDone _, Some st => if stop_ok P st then k else RRejected
  | _, _ => k
  end.

(* the loop itself; [n] bounds the number of iterations (exhaustion = RStuck) *)
Fixpoint sim_loop (qsub : bool) (n : nat) (fuel : nat) (P : program) (w : world) (maxSteps : option nat)
                  (sched : nat -> list nat) (s : sim) : result * list event :=
  match n with
  | 0 => (result_of RStuck s, [])
  | S n' =>
      let '(r, e) := sim_step qsub fuel P w maxSteps sched s in
      match r with
      | Stop k s' => (result_of (final_kind P k s') s', e)
      | Next s' => let '(res, e') := sim_loop qsub n' fuel P w maxSteps sched s' in (res, e ++ e')
      end
  end.

(* Simulation.__init__ before _run: top-level scenario started (behaviours assigned: guards checked at
   time 0 in object order; monitors started), then updateObjects *)
Fixpoint start_agents (P : program) (w : world) (i : nat) (objs : list (option nat))
  : list (nat * nat * gstate) + outcome :=
  match objs with
  | [] => inl []
  | None :: r => start_agents P w (S i) r
  | Some b :: r =>
      match nth_error (p_behaviors P) b with
      | None => inr OError
      | Some bh =>
          match guards_at_start P w 0 (OBeh b) with
          | Some pre => inr (OViolation pre (OBeh b))
          | None => match start_agents P w (S i) r with
                    | inr x => inr x
                    | inl l => inl ((i, b, GRun [FSeq (b_body bh)]) :: l)
                    end
          end
      end
  end.

Definition init_sim (P : program) (w : world) : (sim + rkind) * list event :=
  match start_scen P w 0 0 with
  | inr x => (inr (kind_of_outcome x), [])
  | inl st =>
      match start_agents P w 0 (p_objects P) with
      | inr x => (inr (kind_of_outcome x), [])
      | inl ags => (inl {| time := 0; top := Some st; agents := ags; traj := 0; actlog := [] |},
                    update_events P)
      end
  end.

Definition final_events (P : program) : list event := map ERecord (p_rec_final P).

(* Scenario.generate (CompiledRequirement.falsifiedByInner): a fresh monitor of every requirement of the
   top-level scenario is updated once with the initial valuation; verdict FALSE discards the scene *)
Definition scene_ok (P : program) (w : world) : bool :=
  match nth_error (p_scenarios P) 0 with
  | None => true
  | Some sc => forallb (fun rid => match nth_error (p_reqs P) rid with
                                   | Some (f, cs) => negb (LTL.is_BF (LTL.verdict f [map (eval w 0) cs]))
                                   | None => true end) (s_reqs sc)
  end.

(* Simulator.simulate for one simulation: result and complete event log *)
Definition simulate (qsub : bool) (n fuel : nat) (P : program) (w : world) (maxSteps : option nat)
                    (sched : nat -> list nat) : result * list event :=
  if negb (scene_ok P w) then ({| r_kind := RSceneRejected; r_time := 0; r_traj := 0; r_actions := [] |}, []) else
  let '(i, e0) := init_sim P w in
  match i with
  | inr k => ({| r_kind := k; r_time := 0; r_traj := 0; r_actions := [] |}, e0)
  | inl s =>
      let '(res, e) := sim_loop qsub n fuel P w maxSteps sched s in
      (res, e0 ++ e ++ match r_kind res with RDone _ => final_events P | _ => [] end)
  end.

Definition agent_ids (P : program) : list nat :=
  (fix go (i : nat) (objs : list (option nat)) : list nat :=
     match objs with
     | [] => []
     | None :: r => go (S i) r
     | Some _ :: r => i :: go (S i) r
     end) 0 (p_objects P).
