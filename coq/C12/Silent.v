(* C12 — a scenario that has stopped contributes no events, conditions or records.

   In DynCore the `_subScenarios` of a scenario instance is the list [subs] of its RUNNING sub-scenario instances; the
   per-step traversals (recordCurrentState -> _evaluateRecordedExprsAt, _checkSimulationTerminationConditions) range
   over that tree (Dyn.subs_records / subs_termsim).  The lemmas below say where an instance leaves the list: in the
   very step its `_step` reports that it stopped (step_subs), when the handler of `do S for/until` stops it
   (SStopSubs), and that a parent whose last sub-scenario finished goes on with the EMPTY list -- not only when it
   executes another `do`. *)
From Coq Require Import List Arith Bool QArith Lia.
From Scenic Require Import C12.Dyn C12.DynProofs.
Import ListNotations.
Local Open Scope nat_scope.

(* the instances that continue, in order *)
Definition continued (recscen : sstate -> sres * list event) (subs : list sstate) : list sstate :=
  flat_map (fun s => match fst (recscen s) with SCont s' => [s'] | _ => [] end) subs.

Lemma step_subs_keeps_only_running : forall recscen subs l e,
  step_subs recscen subs = (l, None, e) -> l = continued recscen subs.
Proof.
  induction subs as [|s r IH]; intros l e H; simpl in H.
  - inversion H. reflexivity.
  - unfold continued. simpl. destruct (recscen s) as [res e1]. simpl.
    destruct res as [s'| | |x]; try discriminate.
    + destruct (step_subs recscen r) as [[l2 bad] e2] eqn:E. inversion H; subst. rewrite (IH l2 e2 eq_refl). reflexivity.
    + destruct (step_subs recscen r) as [[l2 bad] e2] eqn:E. inversion H; subst. rewrite (IH l e2 eq_refl). reflexivity.
Qed.

Lemma stopped_not_continued : forall recscen s e, recscen s = (SStopped, e) -> continued recscen [s] = [].
Proof. intros. unfold continued. simpl. rewrite H. reflexivity. Qed.

(* DynamicScenario._invokeInner: when every sub-scenario of the `do` has stopped, the statement ends in that very step
   and the invoking compose block goes on with NO sub-scenario -- whatever follows (wait, wait for, wait until, ...) *)
Lemma do_finished_continues_with_empty_list : forall f P w t sid ib o subs first k' e,
  step_subs (step_scen f P w t) subs = ([], None, e) ->
  run (S f) P w t (MScen sid) ib o subs (FScen first :: k') = emit e (run f P w t (MScen sid) ib o [] k').
Proof. intros. rewrite run_S. simpl. rewrite H. reflexivity. Qed.

(* ... and it still has none after the `wait` that follows (the compose block yields with the empty list) *)
Lemma wait_after_do_keeps_empty_list : forall f P w t sid ib o ss k0,
  run (S f) P w t (MScen sid) ib o [] (FSeq (SWait :: ss) :: k0) = (OYield (YActs []) (FCheck o :: FSeq ss :: k0), [], []).
Proof. intros. rewrite run_S. reflexivity. Qed.

(* the handler of `do S for/until`: the running sub-scenarios are stopped and the list is emptied *)
Lemma stop_subs_empties_list : forall f P w t m ib o subs ss k0,
  stops_ok P subs = true ->
  run (S f) P w t m ib o subs (FSeq (SStopSubs :: ss) :: k0) = run f P w t m ib o [] (FSeq ss :: k0).
Proof. intros. rewrite run_S. simpl. rewrite H. reflexivity. Qed.

(* the traversals only see the instances of the list *)
Lemma subs_records_nil : forall P, subs_records P [] = [].
Proof. reflexivity. Qed.
Lemma subs_termsim_nil : forall P, subs_termsim P [] = [].
Proof. reflexivity. Qed.

Lemma check_termsim_l_nil : forall w t, check_termsim_l w t [] = (false, []).
Proof. reflexivity. Qed.

(* one iteration of the main loop: once the top-level scenario has no running sub-scenario left after its step, the
   records evaluated in this step are exactly the top-level scenario's and the simulation-termination conditions
   checked are exactly the top-level scenario's, with the same verdict *)
Lemma stopped_scenario_silent : forall fuel P w s st',
  subs_of st' = [] ->
  phase_record_all fuel P w s (SCont st') = phase_record P s /\
  check_all_termsim P w (time s) (subs_of st') = check_termsim w (time s) 0 (p_termsim P).
Proof.
  intros fuel P w s st' H. unfold phase_record_all, check_all_termsim. rewrite H. simpl. rewrite app_nil_r. split; auto.
  destruct (check_termsim w (time s) 0 (p_termsim P)) as [b e]. destruct b; auto. rewrite app_nil_r. reflexivity.
Qed.

(* conversely the record events of the sub-scenario tree are those of the classes of the instances in it, and a
   condition can only end the simulation if an instance in the tree states it *)
Fixpoint tree_sids (st : sstate) : list nat :=
  let '(SState sid _ _ _ _ subs) := st in
  sid :: (fix go (l : list sstate) : list nat := match l with [] => [] | x :: r => tree_sids x ++ go r end) subs.
Definition class_records (P : program) (sid : nat) : list event :=
  match nth_error (p_scenarios P) sid with Some sc => map ERecord (s_records sc) | None => [] end.
Definition class_termsim (P : program) (sid : nat) : list (nat * cond) :=
  match nth_error (p_scenarios P) sid with Some sc => s_termsim sc | None => [] end.

Lemma tree_records_by_instance : forall P st, tree_records P st = flat_map (class_records P) (tree_sids st).
Proof.
  intros P. fix IH 1. intros [sid el k mons reqs subs]. simpl. unfold class_records at 1. f_equal.
  induction subs as [|x r IHr]; simpl; auto. rewrite flat_map_app, IH, IHr. reflexivity.
Qed.
Lemma tree_termsim_by_instance : forall P st, tree_termsim P st = flat_map (class_termsim P) (tree_sids st).
Proof.
  intros P. fix IH 1. intros [sid el k mons reqs subs]. simpl. unfold class_termsim at 1. f_equal.
  induction subs as [|x r IHr]; simpl; auto. rewrite flat_map_app, IH, IHr. reflexivity.
Qed.
