(* C12 specification: the step procedure of docs/reference/dynamic_scenarios.rst as a shape over
   the event log (definitions only). *)
From Coq Require Import List Arith.
From Scenic Require Import C12.Dyn.
Import ListNotations.

(* classes of events, in the documented order of one time step *)
Definition is_scen_ev (e : event) : Prop := match e with EScenario _ _ | ETermWhen _ _ | EReq _ _ _ => True | _ => False end.   (* 1 *)
Definition is_rec_ev (e : event) : Prop := match e with ERecord _ => True | _ => False end.                      (* 2 *)
Definition is_mon_ev (e : event) : Prop := match e with EMonitor _ _ => True | _ => False end.                   (* 3 *)
Definition is_term_ev (e : event) : Prop := match e with ETermCheck _ => True | _ => False end.                  (* 4 *)
Definition is_beh_ev (a : nat) (e : event) : Prop := match e with EBehavior a' _ => a' = a | _ => False end.     (* 5 *)

(* one segment of behaviour events per scheduled agent, in schedule order *)
Definition segs_ok (sched : list nat) (segs : list (list event)) : Prop :=
  Forall2 (fun a seg => Forall (is_beh_ev a) seg) sched segs.

(* a complete time step t under schedule sigma:
   Scenario* . Record* . Monitor* . TermCheck* . Behavior_sigma(1)* ... Behavior_sigma(k)* .
   Actions(sigma) . SimStep t . Clock (t+1) . Update(every object) *)
Definition complete_step_shape (nobj : nat) (sigma : list nat) (t : nat) (evs : list event) : Prop :=
  exists es er em et segs acts,
    evs = es ++ er ++ em ++ et ++ concat segs ++
          [EActions acts; ESimStep t; EClock (S t)] ++ map EUpdate (seq 0 nobj) /\
    Forall is_scen_ev es /\ Forall is_rec_ev er /\ Forall is_mon_ev em /\ Forall is_term_ev et /\
    segs_ok sigma segs /\ map fst acts = sigma.

(* the last, incomplete step: a prefix of the same shape, and nothing of the simulator interface *)
Definition final_step_shape (sigma : list nat) (evs : list event) : Prop :=
  exists es er em et segs,
    evs = es ++ er ++ em ++ et ++ concat segs /\
    Forall is_scen_ev es /\ Forall is_rec_ev er /\ Forall is_mon_ev em /\ Forall is_term_ev et /\
    segs_ok (firstn (length segs) sigma) segs /\ length segs <= length sigma.

(* the whole log of the main loop started in state s *)
Definition loop_log_shape (nobj : nat) (sched : nat -> list nat) (t0 tend : nat) (evs : list event) : Prop :=
  exists steps last,
    evs = concat steps ++ last /\ t0 + length steps = tend /\
    (forall i ev, nth_error steps i = Some ev -> complete_step_shape nobj (sched (t0 + i)) (t0 + i) ev) /\
    final_step_shape (sched tend) last.

Definition is_done (k : rkind) : Prop := match k with RDone _ => True | _ => False end.
