(* Extraction of DynCore to OCaml (volume path of the C12/C13 correspondence checks).
   Directives: ExtrOcamlBasic only; nat, Z, positive, Q stay the extracted inductive types. *)
From Coq Require Import List Arith QArith.
From Coq Require Extraction.
From Coq Require Import ExtrOcamlBasic.
From Scenic Require Import C12.Dyn.
Extraction Language OCaml.
Extraction "model.ml" simulate agent_ids.
