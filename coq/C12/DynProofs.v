(* Lemmas about DynCore (coq/C12/Dyn.v).  Part 1: which events each phase can emit. *)
From Coq Require Import List Arith Bool QArith Lia Permutation.
From Scenic Require C11.LTL.
From Scenic Require Import C12.Dyn C12.Spec.
Import ListNotations.
Local Open Scope nat_scope.

Definition ev_class (m : mode) (e : event) : Prop :=
  match m with MBeh a => is_beh_ev a e | MMon _ => is_mon_ev e | MScen _ => is_scen_ev e end.

Definition revents (r : rres) : list event := snd (fst r).

Lemma mark_class : forall m n, ev_class m (mark m n).
Proof. destruct m; simpl; auto. Qed.

Lemma revents_emit : forall e r, revents (emit e r) = e ++ revents r.
Proof. intros e [[o e'] s]; reflexivity. Qed.

Lemma emit_nil : forall r, emit [] r = r.
Proof. intros [[o e'] s]; reflexivity. Qed.

Section Classes.
Variables (P : program) (w : world) (t : nat).
Variable rec : mode -> bool -> owner -> list sstate -> kont -> rres.
Variable recscen : sstate -> sres * list event.
Hypothesis rec_ok : forall m ib o subs k, Forall (ev_class m) (revents (rec m ib o subs k)).
Hypothesis recscen_ok : forall st, Forall is_scen_ev (snd (recscen st)).

Lemma step_subs_class : forall subs, Forall is_scen_ev (snd (step_subs recscen subs)).
Proof.
  induction subs as [|s r IH]; simpl; auto.
  pose proof (recscen_ok s) as H. destruct (recscen s) as [res e1]; simpl in H.
  destruct (step_subs recscen r) as [[l bad] e2]; simpl in IH.
  destruct res; simpl; auto using Forall_app; apply Forall_app; auto.
Qed.

Lemma check_termwhen_class : forall cs sid idx, Forall is_scen_ev (snd (check_termwhen w t sid idx cs)).
Proof.
  induction cs as [|c r IH]; intros; simpl; auto.
  destruct (eval w t c); simpl; [repeat constructor|].
  specialize (IH sid (S idx)). destruct (check_termwhen w t sid (S idx) r); simpl in *. constructor; simpl; auto.
Qed.

Ltac fin := repeat first [ apply Forall_nil | rewrite revents_emit | apply Forall_app; split | apply rec_ok
                         | (apply Forall_cons; [apply mark_class|]) | assumption ].

Lemma run_body_class : forall m ib o subs k,
  Forall (ev_class m) (revents (run_body P w t rec recscen m ib o subs k)).
Proof.
  intros m ib o subs k. unfold run_body.
  destruct k as [|f k']; [apply Forall_nil|].
  destruct f as [ss|c body|o'|b caller|first|fresh o' body bk hs].
  - (* FSeq *) destruct ss as [|s ss]; [apply rec_ok|].
    destruct s; simpl;
      repeat match goal with
             | |- context [if ?c then _ else _] => destruct c
             | |- context [match unwind_loop ?k with _ => _ end] => destruct (unwind_loop k) as [[[? ?] ?]|]
             | |- context [match unwind_fun ?k with _ => _ end] => destruct (unwind_fun k)
             | |- context [match nth_error ?l ?n with _ => _ end] => destruct (nth_error l n)
             | |- context [match guards_at_start ?a ?b ?c ?d with _ => _ end] => destruct (guards_at_start a b c d)
             | |- context [match start_scens ?a ?b ?c ?d with _ => _ end] => destruct (start_scens a b c d)
             | |- context [match m with _ => _ end] => destruct m
             end;
      try (rewrite revents_emit; apply Forall_app; split; [repeat constructor; apply mark_class|]);
      try apply rec_ok; try apply Forall_nil.
  - destruct (eval w t c); apply rec_ok.
  - destruct (all_true w t (inv_of P o')); [apply rec_ok | apply Forall_nil].
  - apply rec_ok.
  - destruct m; try apply Forall_nil.
    pose proof (step_subs_class subs) as H.
    destruct (step_subs recscen subs) as [[subs' bad] e]; simpl in H.
    destruct bad as [[ | | |x]|]; try (unfold revents; simpl; assumption).
    destruct subs'; [|unfold revents; simpl; assumption].
    rewrite revents_emit. apply Forall_app; split; [assumption|apply rec_ok].
  - destruct (negb fresh && negb (all_true w t (inv_of P o'))); [apply Forall_nil|].
    match goal with |- context [rec m true o' subs ?kb] => pose proof (rec_ok m true o' subs kb) as H;
      destruct (rec m true o' subs kb) as [[out e] subs1] end.
    unfold revents in H; simpl in H.
    destruct out as [y kb'| |c| |pre oo| |];
      try (unfold revents; simpl; assumption).
    + destruct (pick_handler w t hs); rewrite revents_emit; apply Forall_app; split; try assumption; apply rec_ok.
    + destruct c;
        repeat match goal with
               | |- context [match unwind_loop ?k with _ => _ end] => destruct (unwind_loop k) as [[[? ?] ?]|]
               | |- context [match unwind_fun ?k with _ => _ end] => destruct (unwind_fun k)
               | |- context [match pick_handler ?a ?b ?c with _ => _ end] => destruct (pick_handler a b c)
               | |- context [if ib then _ else _] => destruct ib
               end; try (unfold revents; simpl; assumption);
        rewrite revents_emit; apply Forall_app; split; try assumption; apply rec_ok.
Qed.

Lemma req_events_class : forall sid rid n, Forall is_scen_ev (req_events sid rid n).
Proof. intros. apply Forall_forall. intros x Hx. unfold req_events in Hx. apply in_map_iff in Hx. destruct Hx as [? [<- _]]. exact I. Qed.

Lemma update_reqs_class : forall sid rs, Forall is_scen_ev (snd (update_reqs P w t sid rs)).
Proof.
  induction rs as [|[rid h] r IH]; simpl; auto.
  destruct (nth_error (p_reqs P) rid) as [[f cs]|].
  - match goal with |- context [if ?c then _ else _] => destruct c end; simpl; [apply req_events_class|].
    destruct (update_reqs P w t sid r) as [[l b] e2]. simpl in *. apply Forall_app; split; auto. apply req_events_class.
  - destruct (update_reqs P w t sid r) as [[l b] e2]; simpl in *; auto.
Qed.

Lemma stopped_with_class : forall r st e, Forall is_scen_ev e -> Forall is_scen_ev (snd (stopped_with P r st e)).
Proof. intros. unfold stopped_with. destruct (stop_ok P st); simpl; auto. Qed.

Lemma scen_fin_class : forall sc sid el mons reqs k' subs' e, Forall is_scen_ev e ->
  Forall is_scen_ev (snd (scen_fin P w t sc sid el mons reqs k' subs' e)).
Proof.
  intros. unfold scen_fin, stopped.
  match goal with |- context [if ?c then _ else _] => destruct c end; [apply stopped_with_class; auto|].
  pose proof (check_termwhen_class (s_termwhen sc) sid 0) as H1.
  destruct (check_termwhen w t sid 0 (s_termwhen sc)) as [b e2]; simpl in H1.
  destruct b; [apply stopped_with_class|simpl]; apply Forall_app; auto.
Qed.

Lemma scen_body_class : forall st, Forall is_scen_ev (snd (scen_body P w t rec st)).
Proof.
  intros [sid el k mons reqs subs]. unfold scen_body, stopped.
  destruct (nth_error (p_scenarios P) sid) as [sc|]; [|apply Forall_nil].
  pose proof (update_reqs_class sid reqs) as HR.
  destruct (update_reqs P w t sid reqs) as [[reqs' rej] er]; simpl in HR.
  destruct rej; [exact HR|].
  destruct (limit_reached sc el); [apply stopped_with_class; auto|].
  destruct k as [kc|]; [|apply scen_fin_class; auto].
  pose proof (rec_ok (MScen sid) false (OScen sid) subs kc) as H.
  destruct (rec (MScen sid) false (OScen sid) subs kc) as [[out e] subs']. unfold revents in H; simpl in H.
  assert (HA : Forall is_scen_ev (er ++ e)) by (apply Forall_app; auto).
  destruct out as [y kb'| |c| |pre oo| |]; simpl; auto using scen_fin_class.
  destruct y; simpl; auto using scen_fin_class, stopped_with_class.
Qed.
End Classes.

Lemma run_class : forall fuel P w t,
  (forall m ib o subs k, Forall (ev_class m) (revents (run fuel P w t m ib o subs k))) /\
  (forall st, Forall is_scen_ev (snd (step_scen fuel P w t st))).
Proof.
  induction fuel as [|f IH]; intros; split; intros; simpl; try apply Forall_nil.
  - destruct (IH P w t) as [A B]. apply run_body_class; auto.
  - destruct (IH P w t) as [A B]. apply scen_body_class; auto.
Qed.

(* ---------------------------------------------------------------- monitors phase *)
Section MonClasses.
Variable rec : mode -> bool -> owner -> list sstate -> kont -> rres.
Variable recmon : sstate -> (option sstate * bool * bool * option outcome) * list event.
Variable qsub : bool.
Hypothesis rec_ok : forall m ib o subs k, Forall (ev_class m) (revents (rec m ib o subs k)).
Hypothesis recmon_ok : forall st, Forall is_mon_ev (snd (recmon st)).

Lemma step_monitor_class : forall mid g, Forall is_mon_ev (snd (step_monitor rec mid g)).
Proof.
  intros mid [k|]; simpl; auto.
  pose proof (rec_ok (MMon mid) false (OMon mid) [] k) as H.
  destruct (rec (MMon mid) false (OMon mid) [] k) as [[out e] s]. unfold revents in H; simpl in H.
  destruct out as [y kb'| |c| |pre oo| |]; simpl; auto. destruct y; simpl; auto.
Qed.

Lemma step_monitors_class : forall ms, Forall is_mon_ev (snd (step_monitors rec ms)).
Proof.
  induction ms as [|[mid g] r IH]; simpl; auto.
  pose proof (step_monitor_class mid g) as H.
  destruct (step_monitor rec mid g) as [[[[g' es] ec] bad] e1]; simpl in H.
  destruct bad; simpl; auto.
  destruct (step_monitors rec r) as [[[[l es2] ec2] bad2] e2]; simpl in *. apply Forall_app; auto.
Qed.

Lemma mons_of_subs_class : forall subs, Forall is_mon_ev (snd (mons_of_subs recmon qsub subs)).
Proof.
  induction subs as [|s r IH]; simpl; auto.
  pose proof (recmon_ok s) as H.
  destruct (recmon s) as [[[[s' a] b] bad] e1]; simpl in H.
  destruct bad; simpl; auto.
  destruct (mons_of_subs recmon qsub r) as [[[l r2] bad2] e2]; simpl in *. apply Forall_app; auto.
Qed.

Lemma mon_body_class : forall P st, Forall is_mon_ev (snd (mon_body P rec recmon qsub st)).
Proof.
  intros P [sid el k mons reqs subs]. unfold mon_body.
  pose proof (step_monitors_class mons) as H.
  destruct (step_monitors rec mons) as [[[[mons' es] ec] bad] e1]; simpl in H.
  destruct bad; simpl; auto.
  pose proof (mons_of_subs_class subs) as H2.
  destruct (mons_of_subs recmon qsub subs) as [[[l r2] bad2] e2]; simpl in H2.
  destruct bad2; simpl; [apply Forall_app; auto|].
  match goal with |- context [if ?c then _ else _] => destruct c end; simpl; apply Forall_app; auto.
Qed.
End MonClasses.

Lemma run_mons_class : forall qsub fuel P w t st, Forall is_mon_ev (snd (run_mons qsub fuel P w t st)).
Proof.
  induction fuel as [|f IH]; intros; simpl; auto.
  apply mon_body_class; auto. intros. apply (proj1 (run_class (S f) P w t)).
Qed.

Lemma check_termsim_class : forall w t cs idx, Forall is_term_ev (snd (check_termsim w t idx cs)).
Proof.
  induction cs as [|c r IH]; intros; simpl; auto.
  destruct (eval w t c); simpl; [repeat constructor|].
  specialize (IH (S idx)). destruct (check_termsim w t (S idx) r); simpl in *. constructor; simpl; auto.
Qed.

(* ---------------------------------------------------------------- behaviours phase *)
Lemma beh_phase_shape : forall fuel P w t sched ags acc br e,
  beh_phase fuel P w t sched ags acc = (br, e) ->
  exists segs, e = concat segs /\
    match br with
    | BAll _ acts => segs_ok sched segs /\ map fst acts = rev (map fst acc) ++ sched
    | BStop k => segs_ok (firstn (length segs) sched) segs /\ length segs <= length sched /\
                 (forall ty, k = RDone ty -> ty = TBehavior)
    end.
Proof.
  induction sched as [|a r IH]; intros ags acc br e H; simpl in H.
  - inversion H; subst. exists []. simpl. split; auto. split; [constructor|]. rewrite map_rev, app_nil_r. reflexivity.
  - destruct (find_agent a ags) as [[b g]|].
    2:{ inversion H; subst. exists []. simpl. repeat split; auto; try constructor; try lia. discriminate. }
    destruct g as [k|].
    2:{ apply IH in H. destruct H as [segs [He Hs]]. exists ([] :: segs). split; [simpl; auto|].
        destruct br.
        - destruct Hs as [Hs Hm]. split; [constructor; auto|]. rewrite Hm. simpl. rewrite <- app_assoc. reflexivity.
        - destruct Hs as [Hs [Hl Hk]]. simpl. repeat split; auto; try lia. constructor; auto. }
    pose proof (proj1 (run_class fuel P w t) (MBeh a) false (OBeh b) [] k) as Hc.
    destruct (run fuel P w t (MBeh a) false (OBeh b) [] k) as [[out e1] s1]. unfold revents in Hc; simpl in Hc.
    assert (STOP : forall kk, (forall ty, kk = RDone ty -> ty = TBehavior) -> (BStop kk, e1) = (br, e) ->
      exists segs, e = concat segs /\ match br with
        | BAll _ acts => segs_ok (a :: r) segs /\ map fst acts = rev (map fst acc) ++ a :: r
        | BStop k0 => segs_ok (firstn (length segs) (a :: r)) segs /\ length segs <= length (a :: r) /\
                      (forall ty, k0 = RDone ty -> ty = TBehavior) end).
    { intros kk Hk E. exists [e1]. inversion E; subst. simpl. rewrite app_nil_r. repeat split; auto; try lia; repeat constructor; auto. }
    assert (GO : forall g' acts', (let '(res, e2) := beh_phase fuel P w t r (set_agent a g' ags) ((a, acts') :: acc) in (res, e1 ++ e2)) = (br, e) ->
      exists segs, e = concat segs /\ match br with
        | BAll _ acts => segs_ok (a :: r) segs /\ map fst acts = rev (map fst acc) ++ a :: r
        | BStop k0 => segs_ok (firstn (length segs) (a :: r)) segs /\ length segs <= length (a :: r) /\
                      (forall ty, k0 = RDone ty -> ty = TBehavior) end).
    { intros g' acts' E.
      destruct (beh_phase fuel P w t r (set_agent a g' ags) ((a, acts') :: acc)) as [res e2] eqn:Hb.
      inversion E; subst. apply IH in Hb. destruct Hb as [segs [He Hs]]. exists (e1 :: segs). split; [simpl; congruence|].
      destruct br.
      - destruct Hs as [Hs Hm]. split; [constructor; auto|]. rewrite Hm. simpl. rewrite <- app_assoc. reflexivity.
      - destruct Hs as [Hs [Hl Hk]]. simpl. repeat split; auto; try lia. constructor; auto. }
    destruct out as [y kb'| |c| |pre oo| |];
      try (eapply STOP; [|exact H]; intros ty E; inversion E; fail).
    + destruct y; try (eapply GO; eassumption);
        (eapply STOP; [|exact H]; intros ty E; inversion E; auto).
    + eapply GO; eassumption.
Qed.

(* ---------------------------------------------------------------- one iteration of the main loop *)
Lemma fss_intro : forall sigma es er em et segs,
  Forall is_scen_ev es -> Forall is_rec_ev er -> Forall is_mon_ev em -> Forall is_term_ev et ->
  segs_ok (firstn (length segs) sigma) segs -> length segs <= length sigma ->
  final_step_shape sigma (es ++ er ++ em ++ et ++ concat segs).
Proof. intros. exists es, er, em, et, segs. repeat split; auto. Qed.

Lemma phase_record_class : forall P s, Forall is_rec_ev (phase_record P s).
Proof.
  intros. unfold phase_record. apply Forall_app; split.
  - destruct (time s =? 0); [|constructor]. apply Forall_forall. intros x Hx. apply in_map_iff in Hx. destruct Hx as [? [<- _]]. exact I.
  - apply Forall_forall. intros x Hx. apply in_map_iff in Hx. destruct Hx as [? [<- _]]. exact I.
Qed.

Lemma tree_records_class : forall P st, Forall is_rec_ev (tree_records P st).
Proof.
  intros P. fix IH 1. intros [sid el k mons reqs subs]. simpl. apply Forall_app; split.
  - destruct (nth_error (p_scenarios P) sid); [|constructor].
    apply Forall_forall. intros x Hx. apply in_map_iff in Hx. destruct Hx as [? [<- _]]. exact I.
  - induction subs as [|x r IHr]; [constructor|]. apply Forall_app; split; [apply IH|exact IHr].
Qed.
Lemma subs_records_class : forall P l, Forall is_rec_ev (subs_records P l).
Proof.
  intros. unfold subs_records. induction l; simpl; [constructor|]. apply Forall_app; split; auto. apply tree_records_class.
Qed.
Lemma phase_record_all_class : forall fuel P w s sr, Forall is_rec_ev (phase_record_all fuel P w s sr).
Proof. intros. unfold phase_record_all. apply Forall_app; split; [apply phase_record_class|apply subs_records_class]. Qed.
Lemma check_termsim_l_class : forall w t cs, Forall is_term_ev (snd (check_termsim_l w t cs)).
Proof.
  induction cs as [|[i c] r IH]; intros; simpl; auto.
  destruct (eval w t c); simpl; [repeat constructor|].
  destruct (check_termsim_l w t r); simpl in *. constructor; simpl; auto.
Qed.
Lemma check_all_termsim_class : forall P w t subs, Forall is_term_ev (snd (check_all_termsim P w t subs)).
Proof.
  intros. unfold check_all_termsim.
  pose proof (check_termsim_class w t (p_termsim P) 0) as C. destruct (check_termsim w t 0 (p_termsim P)) as [b e]; simpl in C.
  destruct b; simpl; auto.
  pose proof (check_termsim_l_class w t (subs_termsim P subs)) as C2. destruct (check_termsim_l w t (subs_termsim P subs)) as [b2 e2]; simpl in *.
  apply Forall_app; split; auto.
Qed.

Lemma phase_scen_class : forall fuel P w s, Forall is_scen_ev (snd (phase_scen fuel P w s)).
Proof. intros. unfold phase_scen. destruct (top s); [apply (proj2 (run_class fuel P w (time s)))|constructor]. Qed.

Lemma phase_mon_class : forall qsub fuel P w t top1, Forall is_mon_ev (snd (phase_mon qsub fuel P w t top1)).
Proof. intros. unfold phase_mon. destruct top1; [apply run_mons_class|constructor]. Qed.

Definition limit_ok (mx : option nat) (t : nat) : Prop :=
  match mx with Some (S m) => t <= S m | _ => True end.

Lemma sim_step_shape : forall qsub fuel P w mx sched s r evs,
  sim_step qsub fuel P w mx sched s = (r, evs) ->
  match r with
  | Next s' => complete_step_shape (nobjects P) (sched (time s)) (time s) evs /\
               time s' = S (time s) /\ traj s' = S (traj s) /\ (exists acts, actlog s' = acts :: actlog s) /\
               (forall m, mx = Some (S m) -> time s < S m)
  | Stop k s' => final_step_shape (sched (time s)) evs /\ time s' = time s /\
                 (forall ty, k = RDone ty -> traj s' = S (traj s) /\ actlog s' = actlog s /\
                     (ty = TTimeLimit -> exists m, mx = Some (S m) /\ S m <= time s))
  end.
Proof.
  intros qsub fuel P w mx sched s r evs H. unfold sim_step in H.
  pose proof (phase_scen_class fuel P w s) as C1.
  destruct (phase_scen fuel P w s) as [sr e1]; simpl in C1.
  pose proof (phase_record_all_class fuel P w s sr) as C2.
  set (e2 := phase_record_all fuel P w s sr) in *.
  assert (NIL : forall A (l : list A), l = l ++ []) by (intros; rewrite app_nil_r; reflexivity).
  assert (BAD : forall x s0, (Stop (kind_of_outcome x) s0, e1) = (r, evs) -> time s0 = time s ->
     match r with
     | Next s' => complete_step_shape (nobjects P) (sched (time s)) (time s) evs /\
               time s' = S (time s) /\ traj s' = S (traj s) /\ (exists acts, actlog s' = acts :: actlog s) /\
               (forall m, mx = Some (S m) -> time s < S m)
     | Stop k s' => final_step_shape (sched (time s)) evs /\ time s' = time s /\
                 (forall ty, k = RDone ty -> traj s' = S (traj s) /\ actlog s' = actlog s /\
                     (ty = TTimeLimit -> exists m, mx = Some (S m) /\ S m <= time s))
     end).
  { intros x s0 E T. inversion E; subst. split; [|split; auto].
    - rewrite (NIL _ evs). change [] with (@nil event ++ [] ++ [] ++ concat []).
      apply fss_intro; auto; simpl; try constructor; lia.
    - intros ty K. destruct x; discriminate. }
  destruct sr as [st| | |x]; try (eapply BAD; [exact H|reflexivity]).
  all: match type of H with context [phase_mon ?a ?b ?c ?d ?e ?tp] =>
         pose proof (phase_mon_class a b c d e tp) as C3;
         destruct (phase_mon a b c d e tp) as [[[[top3 mendsim] mendscen] mbad] e3]
       end; simpl in C3.
  all: destruct mbad as [x|];
    [ inversion H; subst; split; [|split; [reflexivity|intros ty K; destruct x; discriminate]];
      rewrite (NIL _ e3); change [] with (@nil event ++ concat []); rewrite <- ?app_assoc;
      replace (e1 ++ e2 ++ e3 ++ [] ++ concat []) with (e1 ++ e2 ++ e3 ++ [] ++ concat (@nil (list event))) by reflexivity;
      apply fss_intro; auto; simpl; try constructor; lia | ].
  all: destruct (mendsim || mendscen);
    [ inversion H; subst; split; [|split; [reflexivity|intros ty K; inversion K; subst; simpl; repeat split; auto; discriminate]];
      rewrite (NIL _ e3); change [] with (@nil event ++ concat []);
      apply fss_intro; auto; simpl; try constructor; lia | ].
  all: simpl in H.
  2,3: inversion H; subst; (split; [|split; [reflexivity|intros ty K; inversion K; subst; simpl; repeat split; auto; discriminate]]);
      rewrite (NIL _ e3); change [] with (@nil event ++ concat []);
      apply fss_intro; auto; simpl; try constructor; lia.
  pose proof (check_all_termsim_class P w (time s) (subs_of st)) as C4.
  destruct (check_all_termsim P w (time s) (subs_of st)) as [tc e4]; simpl in C4.
  destruct tc.
  { inversion H; subst. split; [|split; [reflexivity|intros ty K; inversion K; subst; simpl; repeat split; auto; discriminate]].
    rewrite (NIL _ e4). change [] with (concat (@nil (list event))). apply fss_intro; auto; simpl; try constructor; lia. }
  destruct (step_limit_hit mx (time s)) eqn:LIM; unfold step_limit_hit in LIM.
  { inversion H; subst. split; [|split; [reflexivity|intros ty K; inversion K; subst; simpl; repeat split; auto]].
    - rewrite (NIL _ e4). change [] with (concat (@nil (list event))). apply fss_intro; auto; simpl; try constructor; lia.
    - intros _. destruct mx as [[|m]|]; try discriminate. exists m. split; auto. apply Nat.leb_le; auto. }
  destruct (beh_phase fuel P w (time s) (sched (time s)) (agents s) []) as [br e5] eqn:BP.
  apply beh_phase_shape in BP. destruct BP as [segs [E5 BS]].
  destruct br as [ags acts|k].
  - destruct BS as [SO MF]. simpl in MF. inversion H; subst. simpl. split; [|repeat split; eauto].
    + exists e1, e2, e3, e4, segs, acts. repeat split; auto.
    + intros m E. subst. apply Nat.leb_gt in LIM. lia.
  - destruct BS as [SO [LE KB]]. inversion H; subst. split; [|split; [reflexivity|]].
    + apply fss_intro; auto.
    + intros ty K. subst. simpl. repeat split; auto. intros E. specialize (KB _ eq_refl). congruence.
Qed.

(* ---------------------------------------------------------------- the whole loop *)
Lemma final_step_shape_nil : forall sigma, final_step_shape sigma [].
Proof.
  intros. change (@nil event) with (@nil event ++ [] ++ [] ++ [] ++ concat []).
  apply fss_intro; simpl; auto; try constructor; lia.
Qed.

Lemma sim_loop_shape : forall qsub n fuel P w mx sched s res evs,
  sim_loop qsub n fuel P w mx sched s = (res, evs) ->
  loop_log_shape (nobjects P) sched (time s) (r_time res) evs /\ time s <= r_time res.
Proof.
  induction n as [|n IH]; intros fuel P w mx sched s res evs H; simpl in H.
  - inversion H; subst. simpl. split; auto. exists [], []. simpl. repeat split; auto.
    + intros i ev E. destruct i; discriminate.
    + apply final_step_shape_nil.
  - destruct (sim_step qsub fuel P w mx sched s) as [r e] eqn:ST. apply sim_step_shape in ST.
    destruct r as [s'|k s'].
    + destruct ST as [CS [T _]].
      destruct (sim_loop qsub n fuel P w mx sched s') as [res' e'] eqn:L. inversion H; subst.
      apply IH in L. destruct L as [[steps [last [E [LEN [ALL FIN]]]]] LE].
      split; [|lia]. exists (e :: steps), last. simpl. repeat split.
      * rewrite E, app_assoc. reflexivity.
      * rewrite T in LEN. lia.
      * intros i ev Hn. destruct i as [|j]; simpl in Hn.
        -- inversion Hn; subst. rewrite Nat.add_0_r. exact CS.
        -- apply ALL in Hn. rewrite T in Hn. replace (time s + S j) with (S (time s) + j) by lia. exact Hn.
      * exact FIN.
    + destruct ST as [FS [T _]]. inversion H; subst. simpl. rewrite T. split; auto.
      exists [], evs. simpl. repeat split; auto. intros i ev E. destruct i; discriminate.
Qed.

Lemma final_kind_done : forall P k s, is_done (final_kind P k s) -> final_kind P k s = k.
Proof.
  intros P k s D. unfold final_kind in *. destruct k; simpl in *; try contradiction.
  destruct (top s); auto. destruct (stop_ok P s0); simpl in *; auto; contradiction.
Qed.

Lemma sim_loop_counts : forall qsub n fuel P w mx sched s res evs,
  sim_loop qsub n fuel P w mx sched s = (res, evs) -> is_done (r_kind res) ->
  r_traj res = traj s + (r_time res - time s) + 1 /\
  length (r_actions res) = length (actlog s) + (r_time res - time s) /\
  (forall m, mx = Some (S m) -> time s <= S m ->
     r_time res <= S m /\ (r_kind res = RDone TTimeLimit -> r_time res = S m)) /\
  (mx = None -> r_kind res <> RDone TTimeLimit).
Proof.
  induction n as [|n IH]; intros fuel P w mx sched s res evs H D; simpl in H.
  - inversion H; subst. simpl in D. contradiction.
  - destruct (sim_step qsub fuel P w mx sched s) as [r e] eqn:ST. apply sim_step_shape in ST.
    destruct r as [s'|k s'].
    + destruct ST as [_ [T [TR [[acts AL] LIM]]]].
      destruct (sim_loop qsub n fuel P w mx sched s') as [res' e'] eqn:L. inversion H; subst.
      pose proof (sim_loop_shape _ _ _ _ _ _ _ _ _ _ L) as [_ LE].
      apply IH in L; auto. destruct L as [A [B [C Dn]]]. rewrite T, TR in A. rewrite T, AL in B. simpl in B.
      split; [lia|split; [lia|split; [|exact Dn]]].
      intros m E LEm. apply C; auto. rewrite T. specialize (LIM _ E). lia.
    + destruct ST as [_ [T K]]. inversion H; subst. simpl in *.
      rewrite (final_kind_done _ _ _ D) in *.
      destruct k as [ty| | | | |]; try contradiction.
      destruct (K ty eq_refl) as [TR [AL TL]]. rewrite T, TR, AL, rev_length.
      split; [lia|split; [lia|split]].
      * intros m E LEm. split; [lia|]. intros E2. injection E2 as ->. destruct (TL eq_refl) as [m' [E' LE']]. rewrite E in E'. injection E' as ->. lia.
      * intros E E2. injection E2 as ->. destruct (TL eq_refl) as [m' [E' _]]. congruence.
Qed.

(* Simulator.simulate: one state per step, one action-log entry per executed step, step limit exact *)
Lemma simulate_counts : forall qsub n fuel P w mx sched res evs,
  simulate qsub n fuel P w mx sched = (res, evs) -> is_done (r_kind res) ->
  r_traj res = r_time res + 1 /\ length (r_actions res) = r_time res /\
  (forall m, mx = Some (S m) -> r_time res <= S m /\ (r_kind res = RDone TTimeLimit -> r_time res = S m)) /\
  (mx = None -> r_kind res <> RDone TTimeLimit).
Proof.
  intros qsub n fuel P w mx sched res evs H D. unfold simulate in H.
  destruct (negb (scene_ok P w)); [inversion H; subst; simpl in D; contradiction|].
  destruct (init_sim P w) as [i e0] eqn:I. destruct i as [s|k].
  - destruct (sim_loop qsub n fuel P w mx sched s) as [res' e] eqn:L. inversion H; subst.
    assert (time s = 0 /\ traj s = 0 /\ actlog s = []) as [T [TR AL]].
    { unfold init_sim in I. destruct (start_scen P w 0 0); [|inversion I].
      destruct (start_agents P w 0 (p_objects P)); inversion I; subst; simpl; auto. }
    apply sim_loop_counts in L; auto. destruct L as [A [B [C Dn]]]. rewrite T, TR in A. rewrite T, AL in B. simpl in *.
    split; [lia|split; [lia|split; [|exact Dn]]]. intros m E. apply (C m E). lia.
  - inversion H; subst. simpl in D. unfold init_sim in I.
    destruct (start_scen P w 0 0) as [st|x]; [destruct (start_agents P w 0 (p_objects P)) as [l|x]|]; inversion I; subst;
      destruct x; simpl in D; contradiction.
Qed.

(* ---------------------------------------------------------------- off-by-one lemmas *)
Lemma run_S : forall f P w t m ib o subs k,
  run (S f) P w t m ib o subs k = run_body P w t (run f P w t) (step_scen f P w t) m ib o subs k.
Proof. reflexivity. Qed.

(* a `do/wait ... for/until` statement whose condition holds at a resumption ends there, WITHOUT
   resuming its body (no action of the sub-behaviour at that step); control passes to what follows *)
Lemma try_abort_fires : forall f P w t m ib o subs fresh o' body bk c k',
  (fresh = false -> all_true w t (inv_of P o') = true) -> eval w t c = true ->
  run (S (S f)) P w t m ib o subs (FTry fresh o' body bk [(c, [SAbort], None)] :: k') =
  run (S f) P w t m ib o' (match m with MScen _ => [] | _ => subs end) k'.
Proof.
  intros f P w t m ib o subs fresh o' body bk c k' HI HC.
  rewrite run_S. unfold run_body at 1.
  assert (negb fresh && negb (all_true w t (inv_of P o')) = false) as ->.
  { destruct fresh; simpl; auto. rewrite HI; auto. }
  cbn [pick_handler]. rewrite HC. cbn [orb nth_error selected_kont].
  replace (run (S f) P w t m true o' subs [FSeq [SAbort]]) with (OBlock KAbort, @nil event, subs) by reflexivity.
  cbv iota beta. apply emit_nil.
Qed.

(* ... and while the condition is false the body is resumed, its continuation stored back *)
Lemma try_body_resumes : forall f P w t m ib o subs o' body kb c k' y kb' e subs1,
  all_true w t (inv_of P o') = true -> eval w t c = false ->
  run f P w t m true o' subs kb = (OYield y kb', e, subs1) ->
  run (S f) P w t m ib o subs (FTry false o' body (Some kb) [(c, [SAbort], None)] :: k') =
  (OYield y (FTry false o' body (Some kb') [(c, [SAbort], None)] :: k'), e, subs1).
Proof.
  intros f P w t m ib o subs o' body kb c k' y kb' e subs1 HI HC HR.
  rewrite run_S. unfold run_body. rewrite HI. cbn [negb andb pick_handler]. rewrite HC. cbn [orb option_map selected_kont].
  rewrite HR. reflexivity.
Qed.

(* entering the statements: the start time is the time at which the statement is reached *)
Lemma do_for_enters : forall f P w t m ib o subs b lim ss k0,
  run (S f) P w t m ib o subs (FSeq (SDoFor b lim :: ss) :: k0) =
  run f P w t m ib o subs (FTry true o [SDoRaw b] None [(CSince t lim, [SAbort], None)] :: FSeq [SCheck] :: FSeq ss :: k0).
Proof. reflexivity. Qed.
Lemma do_until_enters : forall f P w t m ib o subs b c ss k0,
  run (S f) P w t m ib o subs (FSeq (SDoUntil b c :: ss) :: k0) =
  run f P w t m ib o subs (FTry true o [SDoRaw b] None [(c, [SAbort], None)] :: FSeq [SCheck] :: FSeq ss :: k0).
Proof. reflexivity. Qed.
Lemma wait_for_enters : forall f P w t m ib o subs lim ss k0,
  run (S f) P w t m ib o subs (FSeq (SWaitFor lim :: ss) :: k0) =
  run f P w t m ib o subs (FTry true o wait_forever None [(CSince t lim, [SAbort], None)] :: FSeq [SCheck] :: FSeq ss :: k0).
Proof. reflexivity. Qed.
Lemma wait_until_enters : forall f P w t m ib o subs c ss k0,
  run (S f) P w t m ib o subs (FSeq (SWaitUntil c :: ss) :: k0) =
  run f P w t m ib o subs (FTry true o wait_forever None [(c, [SAbort], None)] :: FSeq [SCheck] :: FSeq ss :: k0).
Proof. reflexivity. Qed.
Lemma do_scen_for_enters : forall f P w t m ib o subs l lim ss k0,
  run (S f) P w t m ib o subs (FSeq (SDoScenFor l lim :: ss) :: k0) =
  run f P w t m ib o subs (FTry true o [SDoScenRaw l] None [(CSince t lim, [SStopSubs; SAbort], None)] :: FSeq [SCheck] :: FSeq ss :: k0).
Proof. reflexivity. Qed.

(* the time condition of `for n steps` (n a natural number): true from exactly n steps after the start *)
Lemma csince_steps : forall w t t0 n, t0 <= t ->
  (eval w t (CSince t0 (inject_Z (Z.of_nat n))) = true <-> t0 + n <= t).
Proof.
  intros w t t0 n LE. simpl. rewrite Qle_bool_iff. unfold Qle. simpl. rewrite !Z.mul_1_r.
  rewrite <- Nat2Z.inj_le. lia.
Qed.

(* scenario time limits: the requirement monitors are updated FIRST (documented steps 1a, 1b) *)
Ltac nostop H := unfold stopped, stopped_with in H;
  match type of H with context [if stop_ok ?P ?s then _ else _] => destruct (stop_ok P s); discriminate end.

Lemma scen_limit_stops : forall f P w t sid el k mons reqs subs sc reqs' er,
  nth_error (p_scenarios P) sid = Some sc -> limit_reached sc el = true ->
  update_reqs P w t sid reqs = (reqs', false, er) ->
  step_scen (S f) P w t (SState sid el k mons reqs subs) =
  (if stop_ok P (SState sid el k mons reqs' subs) then (SStopped, er) else (SBad OReject, er)).
Proof. intros. simpl. unfold scen_body. rewrite H, H1, H0. reflexivity. Qed.

Lemma scen_req_false_rejects : forall f P w t sid el k mons reqs subs sc reqs' er,
  nth_error (p_scenarios P) sid = Some sc -> update_reqs P w t sid reqs = (reqs', true, er) ->
  step_scen (S f) P w t (SState sid el k mons reqs subs) = (SBad OReject, er).
Proof. intros. simpl. unfold scen_body. rewrite H, H0. reflexivity. Qed.

Lemma scen_fin_cont : forall P w t sc sid el mons reqs k' subs' e st' e',
  scen_fin P w t sc sid el mons reqs k' subs' e = (SCont st', e') -> st' = SState sid (S el) k' mons reqs subs'.
Proof.
  intros until e'. unfold scen_fin. destruct (match k' with None => has_compose sc | Some _ => false end); [intros E; nostop E|].
  destruct (check_termwhen w t sid 0 (s_termwhen sc)) as [b e2]. destruct b; intros E; [nostop E|]. inversion E; auto.
Qed.

(* what a step does to the requirement monitors: every history grows by the current valuation *)
Lemma update_reqs_shape : forall P w t sid rs rs' er,
  update_reqs P w t sid rs = (rs', false, er) ->
  Forall2 (fun r r' => fst r' = fst r /\
                       snd r' = match nth_error (p_reqs P) (fst r) with
                                | Some (_, cs) => snd r ++ [map (eval w t) cs]
                                | None => snd r end) rs rs'.
Proof.
  induction rs as [|[rid h] r IH]; intros rs' er H; simpl in H.
  - inversion H; constructor.
  - destruct (nth_error (p_reqs P) rid) as [[f cs]|] eqn:N.
    + match type of H with context [if ?c then _ else _] => destruct c end; [discriminate|].
      destruct (update_reqs P w t sid r) as [[l b] e2] eqn:U. inversion H; subst.
      constructor; [simpl; rewrite N; auto|]. eapply IH; eauto.
    + destruct (update_reqs P w t sid r) as [[l b] e2] eqn:U. inversion H; subst.
      constructor; [simpl; rewrite N; auto|]. eapply IH; eauto.
Qed.

Lemma scen_elapsed : forall fuel P w t sid el k mons reqs subs st' e,
  step_scen fuel P w t (SState sid el k mons reqs subs) = (SCont st', e) ->
  (exists k' reqs' subs' er, st' = SState sid (S el) k' mons reqs' subs' /\ update_reqs P w t sid reqs = (reqs', false, er)) /\
  (forall sc, nth_error (p_scenarios P) sid = Some sc -> limit_reached sc el = false).
Proof.
  intros fuel P w t sid el k mons reqs subs st' e H. destruct fuel as [|f]; [discriminate|]. simpl in H. unfold scen_body in H.
  destruct (nth_error (p_scenarios P) sid) as [sc|]; [|discriminate].
  destruct (update_reqs P w t sid reqs) as [[reqs' rej] er] eqn:U. destruct rej; [discriminate|].
  destruct (limit_reached sc el) eqn:L; [nostop H|].
  split; [|intros sc' E; inversion E; subst; auto].
  destruct k as [kc|]; [|apply scen_fin_cont in H; eauto 8].
  destruct (run f P w t (MScen sid) false (OScen sid) subs kc) as [[out e1] subs1].
  destruct out as [y kb'| |c| |pre oo| |]; try discriminate; try (apply scen_fin_cont in H; eauto 8; fail).
  destruct y; try discriminate; try (nostop H); apply scen_fin_cont in H; eauto 8.
Qed.

(* `terminate when`: a true condition stops the scenario in this very step, after the compose block *)
Lemma check_termwhen_true : forall w t cs sid idx,
  fst (check_termwhen w t sid idx cs) = existsb (eval w t) cs.
Proof.
  induction cs as [|c r IH]; intros; simpl; auto.
  destruct (eval w t c); simpl; auto. specialize (IH sid (S idx)). destruct (check_termwhen w t sid (S idx) r); simpl in *; auto.
Qed.

Lemma terminate_when_stops : forall P w t sc sid el mons reqs k' subs' e,
  existsb (eval w t) (s_termwhen sc) = true ->
  fst (scen_fin P w t sc sid el mons reqs k' subs' e) =
  (if stop_ok P (SState sid el k' mons reqs subs') then SStopped else SBad OReject).
Proof.
  intros. unfold scen_fin, stopped, stopped_with.
  destruct (match k' with None => has_compose sc | Some _ => false end); [destruct (stop_ok _ _); reflexivity|].
  pose proof (check_termwhen_true w t (s_termwhen sc) sid 0) as T. destruct (check_termwhen w t sid 0 (s_termwhen sc)) as [b e2].
  simpl in T. rewrite H in T. subst. destruct (stop_ok _ _); reflexivity.
Qed.

Lemma terminate_when_continues : forall P w t sc sid el mons reqs k' subs' e,
  existsb (eval w t) (s_termwhen sc) = false -> (match k' with None => has_compose sc | Some _ => false end) = false ->
  fst (scen_fin P w t sc sid el mons reqs k' subs' e) = SCont (SState sid (S el) k' mons reqs subs').
Proof.
  intros. unfold scen_fin. rewrite H0.
  pose proof (check_termwhen_true w t (s_termwhen sc) sid 0) as T. destruct (check_termwhen w t sid 0 (s_termwhen sc)) as [b e2].
  simpl in T. rewrite H in T. subst. reflexivity.
Qed.

(* ---------------------------------------------------------------- terminate after, end to end *)
Lemma run_mons_S : forall q f P w t st,
  run_mons q (S f) P w t st = mon_body P (run (S f) P w t) (run_mons q f P w t) q st.
Proof. reflexivity. Qed.

Lemma run_mons_keeps : forall q fuel P w t sid el k mons reqs subs top3 es ec bad e,
  run_mons q fuel P w t (SState sid el k mons reqs subs) = ((top3, es, ec, bad), e) -> bad = None -> ec = false ->
  exists mons' subs', top3 = Some (SState sid el k mons' reqs subs').
Proof.
  intros q fuel P w t sid el k mons reqs subs top3 es ec bad e H B C. destruct fuel as [|f]; [simpl in H|rewrite run_mons_S in H].
  - inversion H; subst. discriminate.
  - unfold mon_body in H.
    destruct (step_monitors (run (S f) P w t) mons) as [[[[mons' a] b] bad1] e1].
    destruct bad1; [inversion H; subst; discriminate|].
    destruct (mons_of_subs (run_mons q f P w t) q subs) as [[[l r2] bad2] e2].
    destruct bad2; [inversion H; subst; discriminate|].
    destruct b; [|simpl in H].
    { match type of H with context [if ?c then _ else _] => destruct c end; inversion H; subst; discriminate. }
    inversion H; subst. eauto.
Qed.

Definition top_elapsed (s : sim) (sid el : nat) : Prop :=
  exists k mons reqs subs, top s = Some (SState sid el k mons reqs subs).

Lemma sim_step_elapsed : forall qsub fuel P w mx sched s s' evs sid el,
  sim_step qsub fuel P w mx sched s = (Next s', evs) -> top_elapsed s sid el ->
  top_elapsed s' sid (S el) /\ (forall sc, nth_error (p_scenarios P) sid = Some sc -> limit_reached sc el = false).
Proof.
  intros qsub fuel P w mx sched s s' evs sid el H [k [mons [reqs [subs T]]]]. unfold sim_step, phase_scen in H. rewrite T in H.
  destruct (step_scen fuel P w (time s) (SState sid el k mons reqs subs)) as [sr e1] eqn:SS.
  destruct sr as [st| | |x]; try discriminate.
  1: { apply scen_elapsed in SS. destruct SS as [[k' [reqs' [subs' [er [-> _]]]]] LIM]. split; auto.
    unfold phase_mon in H.
    destruct (run_mons qsub fuel P w (time s) (SState sid (S el) k' mons reqs' subs')) as [[[[top3 a] b] bad] e3] eqn:RM.
    destruct bad; [discriminate|].
    destruct (a || b) eqn:AB; [discriminate|]. apply orb_false_iff in AB. destruct AB as [-> ->].
    apply run_mons_keeps in RM; auto. destruct RM as [mons' [subs'' ->]].
    simpl in H. match type of H with context [check_all_termsim ?a ?b ?c ?d] => destruct (check_all_termsim a b c d) as [tc e4] end.
    destruct tc; [discriminate|].
    destruct (step_limit_hit mx (time s)); [discriminate|].
    destruct (beh_phase fuel P w (time s) (sched (time s)) (agents s) []) as [br e5]. destruct br; [|discriminate].
    inversion H; subst. simpl. unfold top_elapsed. simpl. eauto 8. }
  all: simpl in H; try discriminate.
Qed.

Lemma sim_step_at_limit : forall qsub fuel P w mx sched s r evs sid el sc,
  sim_step qsub fuel P w mx sched s = (r, evs) -> top_elapsed s sid el ->
  nth_error (p_scenarios P) sid = Some sc -> limit_reached sc el = true ->
  (exists s', r = Stop (RDone TScenarioComplete) s') \/ (exists s', r = Stop RStuck s') \/ (exists s', r = Stop RRejected s').
Proof.
  intros qsub fuel P w mx sched s r evs sid el sc H [k [mons [reqs [subs T]]]] N L. unfold sim_step, phase_scen in H. rewrite T in H.
  destruct fuel as [|f].
  - simpl in H. inversion H; subst. right; left; eauto.
  - destruct (update_reqs P w (time s) sid reqs) as [[reqs' rej] er] eqn:U. destruct rej.
    + rewrite (scen_req_false_rejects f P w (time s) sid el k mons reqs subs sc reqs' er N U) in H. simpl in H.
      inversion H; subst. right; right; eauto.
    + rewrite (scen_limit_stops f P w (time s) sid el k mons reqs subs sc reqs' er N L U) in H.
      destruct (stop_ok P (SState sid el k mons reqs' subs)); simpl in H; inversion H; subst; [left|right; right]; eauto.
Qed.

(* `terminate after n steps` on the top-level scenario: the simulation never runs beyond step n, and
   when it gets there it ends there, as "scenario complete", having evaluated only the records *)
Lemma terminate_after_loop : forall qsub n0 fuel P w mx sched sc n s res evs,
  nth_error (p_scenarios P) 0 = Some sc -> s_limit sc = Some (inject_Z (Z.of_nat n)) ->
  top_elapsed s 0 (time s) -> time s <= n ->
  sim_loop qsub n0 fuel P w mx sched s = (res, evs) -> is_done (r_kind res) ->
  r_time res <= n /\ (r_time res = n -> r_kind res = RDone TScenarioComplete).
Proof.
  induction n0 as [|n0 IH]; intros fuel P w mx sched sc n s res evs N L TE LE H D; simpl in H.
  - inversion H; subst. simpl in D. contradiction.
  - destruct (sim_step qsub fuel P w mx sched s) as [r e] eqn:ST.
    assert (LR : forall el, limit_reached sc el = true <-> n <= el).
    { intros el. unfold limit_reached. rewrite L. rewrite Qle_bool_iff. unfold Qle. simpl. rewrite !Z.mul_1_r.
      rewrite <- Nat2Z.inj_le. reflexivity. }
    destruct r as [s'|k s'].
    + destruct (sim_loop qsub n0 fuel P w mx sched s') as [res' e'] eqn:LP. inversion H; subst.
      pose proof (sim_step_shape _ _ _ _ _ _ _ _ _ ST) as [_ [T _]].
      destruct (sim_step_elapsed _ _ _ _ _ _ _ _ _ _ _ ST TE) as [TE' NL]. specialize (NL _ N).
      assert (time s < n). { destruct (Nat.lt_ge_cases (time s) n); auto. apply LR in H0. congruence. }
      rewrite <- T in TE'. eapply IH; eauto. lia.
    + inversion H; subst. pose proof (sim_step_shape _ _ _ _ _ _ _ _ _ ST) as [_ [T _]]. simpl. rewrite T. split; auto.
      intros E. assert (limit_reached sc (time s) = true) as LT by (apply LR; lia).
      simpl in D. rewrite (final_kind_done _ _ _ D) in *.
      destruct (sim_step_at_limit _ _ _ _ _ _ _ _ _ _ _ _ ST TE N LT) as [[s'' E1]|[[s'' E1]|[s'' E1]]]; inversion E1; subst; auto;
      simpl in D; contradiction.
Qed.

Lemma terminate_after_exact : forall qsub n0 fuel P w mx sched sc n res evs,
  nth_error (p_scenarios P) 0 = Some sc -> s_limit sc = Some (inject_Z (Z.of_nat n)) ->
  simulate qsub n0 fuel P w mx sched = (res, evs) -> is_done (r_kind res) ->
  r_time res <= n /\ (r_time res = n -> r_kind res = RDone TScenarioComplete).
Proof.
  intros qsub n0 fuel P w mx sched sc n res evs N L H D. unfold simulate in H.
  destruct (negb (scene_ok P w)); [inversion H; subst; simpl in D; contradiction|].
  destruct (init_sim P w) as [i e0] eqn:I. destruct i as [s|k].
  - destruct (sim_loop qsub n0 fuel P w mx sched s) as [res' e] eqn:LP. inversion H; subst.
    unfold init_sim in I. destruct (start_scen P w 0 0) as [st|] eqn:SS; [|inversion I].
    destruct (start_agents P w 0 (p_objects P)); inversion I; subst.
    eapply terminate_after_loop; eauto; simpl; try lia.
    unfold start_scen in SS. rewrite N in SS. destruct (guards_at_start P w 0 (OScen 0)); inversion SS.
    unfold top_elapsed. simpl. eauto 8.
  - inversion H; subst. simpl in D. unfold init_sim in I.
    destruct (start_scen P w 0 0) as [st|x]; [destruct (start_agents P w 0 (p_objects P)) as [l|x]|]; inversion I; subst;
      destruct x; simpl in D; contradiction.
Qed.
