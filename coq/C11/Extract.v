(* Extraction of the C11 model to OCaml (volume path of the correspondence check).
   Directives: ExtrOcamlBasic only; nat stays the extracted inductive type. *)
From Coq Require Import List Arith ZArith.
From Coq Require Extraction.
From Coq Require Import ExtrOcamlBasic.
From Scenic Require Import C11.LTL.
Extraction Language OCaml.
Extraction "model.ml" mon verdict verdicts run run_site fltl sat_ext
  nontemporal until_free top_until early_fragment
  Z.of_nat.  (* Z.of_nat only so that the shared ocaml/common/zio.ml (positive, z) compiles *)
