(* C11 — lemmas about the RV-LTL monitor model (coq/C11/LTL.v). *)
From Coq Require Import List Bool Arith Lia.
From Scenic Require Import C11.LTL.
Import ListNotations.

(* ------------------------------------------------------------------ B4 algebra *)
Lemma truthy_neg v : is_truthy (neg v) = negb (is_truthy v).
Proof. destruct v; reflexivity. Qed.
Lemma truthy_meet a b : is_truthy (meet a b) = is_truthy a && is_truthy b.
Proof. destruct a, b; reflexivity. Qed.
Lemma truthy_join a b : is_truthy (join a b) = is_truthy a || is_truthy b.
Proof. destruct a, b; reflexivity. Qed.
Lemma falsy_truthy v : is_falsy v = negb (is_truthy v).
Proof. destruct v; reflexivity. Qed.
Lemma meet_BT_r v : meet v BT = v.
Proof. destruct v; reflexivity. Qed.
Lemma meet_BT_l v : meet BT v = v.
Proof. destruct v; reflexivity. Qed.
Lemma join_BF_l v : join BF v = v.
Proof. destruct v; reflexivity. Qed.
Lemma neg_eq_BT v : neg v = BT <-> v = BF.
Proof. destruct v; cbv; split; intro H; try reflexivity; discriminate H. Qed.
Lemma neg_eq_BF v : neg v = BF <-> v = BT.
Proof. destruct v; cbv; split; intro H; try reflexivity; discriminate H. Qed.
Lemma meet_eq_BT a b : meet a b = BT <-> a = BT /\ b = BT.
Proof. destruct a, b; cbv; split; try (intros [H1 H2]); try (intro H); auto; try discriminate. Qed.
Lemma meet_eq_BF a b : meet a b = BF <-> a = BF \/ b = BF.
Proof. destruct a, b; cbv; split; try (intros [H|H]); try (intro H); auto; try discriminate. Qed.
Lemma join_eq_BT a b : join a b = BT <-> a = BT \/ b = BT.
Proof. destruct a, b; cbv; split; try (intros [H|H]); try (intro H); auto; try discriminate. Qed.
Lemma join_eq_BF a b : join a b = BF <-> a = BF /\ b = BF.
Proof. destruct a, b; cbv; split; try (intros [H1 H2]); try (intro H); auto; try discriminate. Qed.
Lemma is_BF_true v : is_BF v = true <-> v = BF.
Proof. destruct v; cbv; split; intro H; try reflexivity; discriminate H. Qed.
Lemma truthy_of_bool b : is_truthy (b4_of_bool b) = b.
Proof. destruct b; reflexivity. Qed.

(* the connectives are the ordinary Boolean ones on conclusive values *)
Lemma b4_bool_connectives : forall a b : bool,
  neg (b4_of_bool a) = b4_of_bool (negb a) /\
  meet (meet BT (b4_of_bool a)) (b4_of_bool b) = b4_of_bool (a && b) /\
  join (join BF (b4_of_bool a)) (b4_of_bool b) = b4_of_bool (a || b) /\
  join (join BF (neg (b4_of_bool a))) (b4_of_bool b) = b4_of_bool (implb a b).
Proof. intros [|] [|]; repeat split; reflexivity. Qed.

(* ------------------------------------------------------------------ lists *)
Lemma existsb_ext' {A} (f g : A -> bool) l : (forall x, f x = g x) -> existsb f l = existsb g l.
Proof. intros H; induction l; simpl; [reflexivity | rewrite H, IHl; reflexivity]. Qed.
Lemma forallb_ext' {A} (f g : A -> bool) l : (forall x, f x = g x) -> forallb f l = forallb g l.
Proof. intros H; induction l; simpl; [reflexivity | rewrite H, IHl; reflexivity]. Qed.
Lemma negb_existsb {A} (f : A -> bool) l : negb (existsb f l) = forallb (fun x => negb (f x)) l.
Proof. induction l; simpl; [reflexivity | rewrite negb_orb, IHl; reflexivity]. Qed.

Lemma existsb_seq_true f i m :
  existsb f (seq i m) = true <-> exists k, i <= k < i + m /\ f k = true.
Proof.
  rewrite existsb_exists. split; intros (k & A & B); exists k; split; auto.
  - apply in_seq in A; exact A.
  - apply in_seq; exact A.
Qed.
Lemma existsb_seq_false f i m :
  existsb f (seq i m) = false <-> forall k, i <= k < i + m -> f k = false.
Proof.
  split.
  - intros H k Hk. destruct (f k) eqn:E; auto.
    assert (existsb f (seq i m) = true) by (apply existsb_seq_true; eauto). congruence.
  - intros H. destruct (existsb f (seq i m)) eqn:E; auto.
    apply existsb_seq_true in E. destruct E as (k & A & B). rewrite H in B; auto.
Qed.
Lemma forallb_seq_true f i m :
  forallb f (seq i m) = true <-> forall k, i <= k < i + m -> f k = true.
Proof.
  rewrite forallb_forall. split; intros H k Hk; apply H.
  - apply in_seq; exact Hk.
  - apply in_seq in Hk; exact Hk.
Qed.
Lemma forallb_seq_false_intro f i m k :
  i <= k < i + m -> f k = false -> forallb f (seq i m) = false.
Proof.
  intros Hk Hf. destruct (forallb f (seq i m)) eqn:E; auto.
  rewrite forallb_seq_true in E. rewrite E in Hf; auto.
Qed.

Lemma find_seq_some f i m k : find f (seq i m) = Some k ->
  i <= k < i + m /\ f k = true /\ forall j, i <= j < k -> f j = false.
Proof.
  revert i; induction m; intros i H; simpl in H; [discriminate|].
  destruct (f i) eqn:E.
  - inversion H; subst. split; [lia|]. split; [auto|]. intros; lia.
  - apply IHm in H. destruct H as (A & B & C). split; [lia|]. split; [auto|].
    intros j Hj. destruct (Nat.eq_dec j i); [subst; auto | apply C; lia].
Qed.
Lemma find_seq_none f i m : find f (seq i m) = None -> forall j, i <= j < i + m -> f j = false.
Proof.
  revert i; induction m; intros i H j Hj; simpl in H; [lia|].
  destruct (f i) eqn:E; [discriminate|].
  destruct (Nat.eq_dec j i); [subst; auto | apply (IHm (S i)); auto; lia].
Qed.

(* ------------------------------------------------------------------ the lhs fold *)
Lemma fold_meet_truthy (lhs : nat -> B4) l v :
  is_truthy (fold_left (fun r j => meet r (lhs j)) l v)
  = is_truthy v && forallb (fun j => is_truthy (lhs j)) l.
Proof.
  revert v; induction l; intros v; simpl; [rewrite andb_true_r; reflexivity|].
  rewrite IHl, truthy_meet, andb_assoc. reflexivity.
Qed.
Lemma fold_meet_const (l : list nat) v : fold_left (fun r _ => meet r BT) l v = v.
Proof. revert v; induction l; intros v; simpl; [reflexivity | rewrite IHl; apply meet_BT_r]. Qed.
Lemma fold_meet_BT (lhs : nat -> B4) l v :
  fold_left (fun r j => meet r (lhs j)) l v = BT <-> v = BT /\ forall j, In j l -> lhs j = BT.
Proof.
  revert v; induction l; intros v; simpl.
  - split; [intros; split; [auto | intros ? []] | intros [? _]; auto].
  - rewrite IHl, meet_eq_BT. split.
    + intros [[Ha Hb] Hc]. split; auto. intros j [<-|Hj]; auto.
    + intros [Ha Hc]. repeat split; auto.
Qed.
Lemma fold_meet_BF (lhs : nat -> B4) l v :
  fold_left (fun r j => meet r (lhs j)) l v = BF <-> v = BF \/ exists j, In j l /\ lhs j = BF.
Proof.
  revert v; induction l; intros v; simpl.
  - split; [auto | intros [?|(j & [] & _)]; auto].
  - rewrite IHl, meet_eq_BF. split.
    + intros [[?|?]|(j & Hj & ?)]; auto; right; [exists a | exists j]; auto.
    + intros [?|(j & [<-|Hj] & ?)]; auto. right; exists j; auto.
Qed.

(* ------------------------------------------------------------------ Eventually scan *)
Lemma ev_spec rhs i n :
  match find (fun k => is_truthy (rhs k)) (seq i (n - i)) with
  | Some k => until_at (fun _ => BT) rhs i n = rhs k
  | None => until_at (fun _ => BT) rhs i n = BPF
  end.
Proof.
  unfold until_at. destruct (find _ _); [apply fold_meet_const | reflexivity].
Qed.

Lemma truthy_ev rhs i n :
  is_truthy (until_at (fun _ => BT) rhs i n)
  = existsb (fun k => is_truthy (rhs k)) (seq i (n - i)).
Proof.
  pose proof (ev_spec rhs i n) as H.
  destruct (find _ _) eqn:E; rewrite H.
  - apply find_seq_some in E. destruct E as (A & B & _). rewrite B. symmetry.
    apply existsb_seq_true. exists n0. auto.
  - symmetry. apply existsb_seq_false. intros k Hk. apply (find_seq_none _ _ _ E k Hk).
Qed.

(* top-level Until *)
Lemma truthy_until_0 lhs rhs (P Q : nat -> bool) n :
  (forall j, is_truthy (lhs j) = P j) -> (forall k, is_truthy (rhs k) = Q k) ->
  is_truthy (until_at lhs rhs 0 n)
  = existsb (fun k => Q k && forallb P (seq 0 (k - 0))) (seq 0 (n - 0)).
Proof.
  intros HP HQ. unfold until_at.
  destruct (find _ _) eqn:E.
  - apply find_seq_some in E. destruct E as (Hk & Htr & Hfirst).
    replace (Nat.min (0 + n0) (n - 1) - 0) with n0 by lia.
    rewrite fold_meet_truthy, Htr, andb_true_l.
    apply eq_true_iff_eq. split.
    + intros Hall. apply existsb_seq_true. exists n0. split; [lia|].
      rewrite <- HQ, Htr. simpl. rewrite Nat.sub_0_r.
      rewrite <- Hall. apply forallb_ext'. intros; symmetry; apply HP.
    + intros Hex. apply existsb_seq_true in Hex. destruct Hex as (k' & Hk' & Hc).
      apply andb_prop in Hc. destruct Hc as [Hq Hp]. rewrite Nat.sub_0_r in Hp.
      assert (n0 <= k').
      { destruct (Nat.le_gt_cases n0 k') as [|Hlt]; auto.
        rewrite <- HQ, Hfirst in Hq by lia. discriminate. }
      apply forallb_seq_true. intros j Hj. rewrite HP.
      rewrite forallb_seq_true in Hp. apply Hp. lia.
  - simpl. symmetry. apply existsb_seq_false. intros k Hk.
    rewrite <- HQ. rewrite (find_seq_none _ _ _ E k Hk). reflexivity.
Qed.

(* ------------------------------------------------------------------ fragments *)
Lemma nontemporal_until_free f : nontemporal f = true -> until_free f = true.
Proof.
  induction f; simpl; intros H; try discriminate; auto;
    apply andb_prop in H; destruct H; rewrite IHf1, IHf2; auto.
Qed.
Lemma until_free_top f : until_free f = true -> top_until f = true.
Proof.
  induction f; simpl; intros H; try discriminate; auto;
    apply andb_prop in H; destruct H; rewrite IHf1, IHf2; auto.
Qed.
Lemma early_top f : early_fragment f = true -> top_until f = true.
Proof.
  induction f; simpl; intros H; auto.
  1-3: apply andb_prop in H; destruct H; rewrite IHf1, IHf2; auto.
  apply andb_prop in H; destruct H as [H1 H2]. rewrite H1. simpl.
  apply nontemporal_until_free; auto.
Qed.

(* ------------------------------------------------------------------ truthiness = FLTL *)
Lemma uf_truthy f : until_free f = true -> forall tr i, is_truthy (mon f tr i) = fltl f tr i.
Proof.
  induction f; simpl; intros Huf tr i; try discriminate.
  - apply truthy_of_bool.
  - rewrite truthy_neg, IHf; auto.
  - apply andb_prop in Huf; destruct Huf. rewrite !truthy_meet, IHf1, IHf2; auto.
  - apply andb_prop in Huf; destruct Huf. rewrite !truthy_join, IHf1, IHf2; auto.
  - apply andb_prop in Huf; destruct Huf.
    rewrite !truthy_join, truthy_neg, IHf1, IHf2; auto.
    destruct (fltl f1 tr i), (fltl f2 tr i); reflexivity.
  - destruct (length tr <=? S i) eqn:E.
    + apply Nat.leb_le in E. assert (S i <? length tr = false) as -> by (apply Nat.ltb_ge; lia).
      reflexivity.
    + apply Nat.leb_gt in E. assert (S i <? length tr = true) as -> by (apply Nat.ltb_lt; lia).
      simpl. apply IHf; auto.
  - rewrite truthy_ev. apply existsb_ext'. intros; apply IHf; auto.
  - rewrite truthy_neg, truthy_ev, negb_existsb. apply forallb_ext'. intros k.
    rewrite truthy_neg, negb_involutive. apply IHf; auto.
Qed.

Lemma accept_iff f : top_until f = true -> forall tr, is_truthy (mon f tr 0) = fltl f tr 0.
Proof.
  induction f; intros Ht tr;
    try (apply uf_truthy; exact Ht); simpl in *.
  - rewrite truthy_neg, IHf; auto.
  - apply andb_prop in Ht; destruct Ht. rewrite !truthy_meet, IHf1, IHf2; auto.
  - apply andb_prop in Ht; destruct Ht. rewrite !truthy_join, IHf1, IHf2; auto.
  - apply andb_prop in Ht; destruct Ht.
    rewrite !truthy_join, truthy_neg, IHf1, IHf2; auto.
    destruct (fltl f1 tr 0), (fltl f2 tr 0); reflexivity.
  - apply andb_prop in Ht; destruct Ht as [H1 H2].
    apply truthy_until_0; intros; apply uf_truthy; auto.
Qed.

(* ------------------------------------------------------------------ conclusive verdicts *)
Definition sound (v : B4) (P : trace -> bool) : Prop :=
  (v = BT -> forall w, P w = true) /\ (v = BF -> forall w, P w = false).

Lemma sound_neg v P : sound v P -> sound (neg v) (fun w => negb (P w)).
Proof.
  intros [H1 H2]. split; intros H w.
  - apply neg_eq_BT in H. rewrite H2; auto.
  - apply neg_eq_BF in H. rewrite H1; auto.
Qed.
Lemma sound_and a b P Q :
  sound a P -> sound b Q -> sound (meet (meet BT a) b) (fun w => P w && Q w).
Proof.
  intros [A1 A2] [B1 B2]. rewrite meet_BT_l. split; intros H w.
  - apply meet_eq_BT in H. destruct H. rewrite A1, B1; auto.
  - apply meet_eq_BF in H. destruct H; [rewrite A2 | rewrite B2, andb_false_r]; auto.
Qed.
Lemma sound_or a b P Q :
  sound a P -> sound b Q -> sound (join (join BF a) b) (fun w => P w || Q w).
Proof.
  intros [A1 A2] [B1 B2]. rewrite join_BF_l. split; intros H w.
  - apply join_eq_BT in H. destruct H; [rewrite A1 | rewrite B1, orb_true_r]; auto.
  - apply join_eq_BF in H. destruct H. rewrite A2, B2; auto.
Qed.
Lemma sound_impl a b P Q :
  sound a P -> sound b Q -> sound (join (join BF (neg a)) b) (fun w => implb (P w) (Q w)).
Proof.
  intros [A1 A2] [B1 B2]. rewrite join_BF_l. split; intros H w.
  - apply join_eq_BT in H. destruct H as [H|H].
    + apply neg_eq_BT in H. rewrite A2; auto.
    + rewrite B1; auto. apply implb_true_r.
  - apply join_eq_BF in H. destruct H as [H1 H2]. apply neg_eq_BF in H1. rewrite A1, B2; auto.
Qed.

Lemma atom_at_app u w i a : i < length u -> atom_at (u ++ w) i a = atom_at u i a.
Proof. intros H. unfold atom_at. rewrite app_nth1; auto. Qed.

Lemma uf_sound f : until_free f = true -> forall u i, i < length u ->
  sound (mon f u i) (fun w => fltl f (u ++ w) i).
Proof.
  induction f; simpl; intros Huf u i Hi; try discriminate.
  - split; intros H w; rewrite atom_at_app by auto;
      destruct (atom_at u i a); simpl in H; congruence.
  - apply sound_neg; auto.
  - apply andb_prop in Huf; destruct Huf. apply sound_and; auto.
  - apply andb_prop in Huf; destruct Huf. apply sound_or; auto.
  - apply andb_prop in Huf; destruct Huf. apply sound_impl; auto.
  - destruct (length u <=? S i) eqn:E.
    + split; discriminate.
    + apply Nat.leb_gt in E. destruct (IHf Huf u (S i) E) as [H1 H2].
      split; intros H w.
      * rewrite H1 by auto. rewrite andb_true_r. apply Nat.ltb_lt. rewrite app_length. lia.
      * rewrite H2 by auto. apply andb_false_r.
  - pose proof (ev_spec (fun k => mon f u k) i (length u)) as Hs.
    destruct (find _ _) eqn:E.
    + rewrite Hs. apply find_seq_some in E. destruct E as (Hk & Htr & _).
      destruct (IHf Huf u n ltac:(lia)) as [H1 H2]. split; intros H w.
      * apply existsb_seq_true. exists n. split; [rewrite app_length; lia | auto].
      * rewrite H in Htr. discriminate.
    + rewrite Hs. split; discriminate.
  - pose proof (ev_spec (fun k => neg (mon f u k)) i (length u)) as Hs.
    destruct (find _ _) eqn:E.
    + rewrite Hs. apply find_seq_some in E. destruct E as (Hk & Htr & _).
      destruct (IHf Huf u n ltac:(lia)) as [H1 H2]. split; intros H w.
      * apply neg_eq_BT, neg_eq_BF in H. rewrite H in Htr. discriminate.
      * apply neg_eq_BF, neg_eq_BT in H.
        apply forallb_seq_false_intro with n; [rewrite app_length; lia | auto].
    + rewrite Hs. split; discriminate.
Qed.

Lemma nontemporal_local f : nontemporal f = true -> forall u w i, i < length u ->
  fltl f (u ++ w) i = fltl f u i.
Proof.
  induction f; simpl; intros H u w i Hi; try discriminate.
  - apply atom_at_app; auto.
  - rewrite IHf; auto.
  - apply andb_prop in H; destruct H. rewrite IHf1, IHf2; auto.
  - apply andb_prop in H; destruct H. rewrite IHf1, IHf2; auto.
  - apply andb_prop in H; destruct H. rewrite IHf1, IHf2; auto.
Qed.

Lemma early_sound_0 f : early_fragment f = true -> forall u, 0 < length u ->
  sound (mon f u 0) (fun w => fltl f (u ++ w) 0).
Proof.
  induction f; intros He u Hu;
    try (apply uf_sound; [exact He | exact Hu]); simpl in *.
  - apply sound_neg; auto.
  - apply andb_prop in He; destruct He. apply sound_and; auto.
  - apply andb_prop in He; destruct He. apply sound_or; auto.
  - apply andb_prop in He; destruct He. apply sound_impl; auto.
  - apply andb_prop in He; destruct He as [Hp Hq].
    assert (Hq' : until_free f2 = true) by (apply nontemporal_until_free; auto).
    unfold until_at. destruct (find _ _) eqn:E; [|split; discriminate].
    apply find_seq_some in E. destruct E as (Hk & Htr & Hfirst).
    assert (Hkl : n < length u) by lia.
    replace (Nat.min (0 + n) (length u - 1) - 0) with n by lia.
    split; intros Hv w.
    + apply fold_meet_BT in Hv. destruct Hv as [Hrk Hall].
      apply existsb_seq_true. exists n. split; [rewrite app_length; lia|].
      apply andb_true_intro; split.
      * apply (uf_sound f2 Hq' u n Hkl); auto.
      * apply forallb_seq_true. intros j Hj.
        apply (uf_sound f1 Hp u j); [lia | apply Hall; apply in_seq; lia].
    + apply fold_meet_BF in Hv. destruct Hv as [Hrk | (j & Hin & Hj)].
      * rewrite Hrk in Htr; discriminate.
      * apply in_seq in Hin. apply existsb_seq_false. intros k' Hk'.
        destruct (Nat.lt_ge_cases k' n) as [Hlt|Hge].
        -- rewrite (nontemporal_local f2 Hq u w k') by lia.
           rewrite <- (uf_truthy f2 Hq' u k'). rewrite Hfirst by lia. reflexivity.
        -- apply andb_false_intro2. apply forallb_seq_false_intro with j; [lia|].
           apply (uf_sound f1 Hp u j); [lia | exact Hj].
Qed.

Theorem early_reject_sound f u : early_fragment f = true -> u <> [] ->
  mon f u 0 = BF -> unsat_ext f u.
Proof.
  intros He Hu H w. destruct u; [congruence|].
  apply (early_sound_0 f He (v :: u)); [simpl; lia | exact H].
Qed.

Theorem early_accept_sound f u : early_fragment f = true -> u <> [] ->
  mon f u 0 = BT -> forall w, fltl f (u ++ w) 0 = true.
Proof.
  intros He Hu H w. destruct u; [congruence|].
  apply (early_sound_0 f He (v :: u)); [simpl; lia | exact H].
Qed.

(* ------------------------------------------------------------------ the run (Scenic's glue) *)
Lemma run_from_accept f : early_fragment f = true -> forall rest seen lastv,
  (seen = [] \/ lastv = mon f seen 0) -> seen ++ rest <> [] ->
  (run_from f seen rest lastv = Accept <-> fltl f (seen ++ rest) 0 = true).
Proof.
  intros He. induction rest as [|s rest IH]; intros seen lastv Hl Hne; simpl.
  - rewrite app_nil_r in *. destruct Hl as [->| ->]; [congruence|].
    rewrite falsy_truthy, (accept_iff f (early_top f He)).
    destruct (fltl f seen 0); simpl; split; congruence.
  - unfold verdict. destruct (is_BF (mon f (seen ++ [s]) 0)) eqn:E.
    + split; [discriminate|]. intros H. exfalso. apply is_BF_true in E.
      assert (Hlen : 0 < length (seen ++ [s])) by (rewrite app_length; simpl; lia).
      destruct (early_sound_0 f He (seen ++ [s]) Hlen) as [_ S2].
      specialize (S2 E rest). rewrite <- app_assoc in S2. simpl in S2. congruence.
    + rewrite IH.
      * rewrite <- app_assoc. simpl. reflexivity.
      * right; reflexivity.
      * intro H; destruct seen; discriminate.
Qed.

Theorem run_accept_iff f tr : early_fragment f = true -> tr <> [] ->
  (run f tr = Accept <-> fltl f tr 0 = true).
Proof. intros He Hne. unfold run. apply (run_from_accept f He tr [] BT); auto. Qed.

Lemma run_from_reject f rest : forall seen lastv t,
  run_from f seen rest lastv = Reject t -> S t < length (seen ++ rest) ->
  length seen <= t /\ mon f (firstn (S t) (seen ++ rest)) 0 = BF.
Proof.
  induction rest as [|s rest IH]; intros seen lastv t H Hlt; simpl in H.
  - destruct (is_falsy lastv); inversion H; subst. rewrite app_nil_r in Hlt. lia.
  - unfold verdict in H. destruct (is_BF (mon f (seen ++ [s]) 0)) eqn:E.
    + inversion H; subst. split; auto.
      replace (firstn (S (length seen)) (seen ++ s :: rest)) with (seen ++ [s]).
      * apply is_BF_true; auto.
      * rewrite firstn_app. replace (S (length seen) - length seen) with 1 by lia.
        rewrite firstn_all2 by lia. reflexivity.
    + apply IH in H.
      * rewrite <- app_assoc in H; simpl in H. destruct H as [H1 H2].
        rewrite app_length in H1; simpl in H1. split; [lia | auto].
      * rewrite <- app_assoc; simpl; auto.
Qed.

(* a rejection strictly before the end happens only when no continuation can satisfy f *)
Theorem run_early_reject_sound f tr t : early_fragment f = true ->
  run f tr = Reject t -> S t < length tr -> unsat_ext f (firstn (S t) tr).
Proof.
  intros He H Hlt. unfold run in H. apply run_from_reject in H; auto.
  destruct H as [_ H]. simpl in H.
  apply early_reject_sound; auto.
  intro E. apply (f_equal (@length _)) in E. rewrite firstn_length in E. cbn [length] in E. lia.
Qed.

(* rejection steps are steps of the trace *)
Lemma run_from_reject_range f rest : forall seen lastv t,
  run_from f seen rest lastv = Reject t -> seen ++ rest <> [] -> t < length (seen ++ rest).
Proof.
  induction rest as [|s rest IH]; intros seen lastv t H Hne; simpl in H.
  - destruct (is_falsy lastv); inversion H; subst. rewrite app_nil_r in *.
    destruct seen; [congruence | simpl; lia].
  - destruct (is_BF _).
    + inversion H; subst. rewrite app_length; simpl; lia.
    + apply IH in H; [rewrite <- app_assoc in H; exact H | intro E; destruct seen; discriminate].
Qed.

(* ------------------------------------------------------------------ non-temporal parts *)
Lemma mon_nontemporal f : nontemporal f = true -> forall tr i,
  mon f tr i = b4_of_bool (eval_now f (nth i tr [])).
Proof.
  induction f; simpl; intros H tr i; try discriminate.
  - reflexivity.
  - rewrite IHf by auto. apply b4_bool_connectives; exact true.
  - apply andb_prop in H; destruct H. rewrite IHf1, IHf2 by auto. apply b4_bool_connectives.
  - apply andb_prop in H; destruct H. rewrite IHf1, IHf2 by auto. apply b4_bool_connectives.
  - apply andb_prop in H; destruct H. rewrite IHf1, IHf2 by auto. apply b4_bool_connectives.
Qed.

Lemma fltl_nontemporal f : nontemporal f = true -> forall tr i,
  fltl f tr i = eval_now f (nth i tr []).
Proof.
  induction f; simpl; intros H tr i; try discriminate; auto.
  - rewrite IHf; auto.
  - apply andb_prop in H; destruct H. rewrite IHf1, IHf2; auto.
  - apply andb_prop in H; destruct H. rewrite IHf1, IHf2; auto.
  - apply andb_prop in H; destruct H. rewrite IHf1, IHf2; auto.
Qed.

(* [always p] with p non-temporal and false in the current step is FALSE now *)
Theorem always_false_now f u s : nontemporal f = true -> eval_now f s = false ->
  verdict (Always f) (u ++ [s]) = BF.
Proof.
  intros Hn Hs. unfold verdict. simpl.
  pose proof (ev_spec (fun k => neg (mon f (u ++ [s]) k)) 0 (length (u ++ [s]))) as Hsp.
  destruct (find _ _) eqn:E.
  - rewrite Hsp. apply find_seq_some in E. destruct E as (_ & Htr & _).
    rewrite mon_nontemporal in * by auto.
    destruct (eval_now f (nth n (u ++ [s]) [])); simpl in *; [discriminate | reflexivity].
  - exfalso. pose proof (find_seq_none _ _ _ E (length u)) as Hc. simpl in Hc.
    rewrite mon_nontemporal in Hc by auto. rewrite nth_middle, Hs in Hc. simpl in Hc.
    rewrite app_length in Hc. simpl in Hc. assert (false = true -> False) by discriminate.
    apply H. symmetry. apply Hc. lia.
Qed.

(* ------------------------------------------------------------------ always at run level *)
(* [always p], p non-temporal and true in every step so far: PRESUMABLY_TRUE *)
Lemma always_all_true f v : nontemporal f = true ->
  (forall r, In r v -> eval_now f r = true) -> verdict (Always f) v = BPT.
Proof.
  intros Hn Hall. unfold verdict. simpl.
  pose proof (ev_spec (fun k => neg (mon f v k)) 0 (length v)) as Hsp.
  destruct (find _ _) eqn:E.
  - exfalso. apply find_seq_some in E. destruct E as (Hk & Htr & _).
    rewrite mon_nontemporal in Htr by auto.
    rewrite Hall in Htr; [discriminate|]. apply nth_In. lia.
  - rewrite Hsp. reflexivity.
Qed.

Lemma run_from_always f s w : nontemporal f = true -> eval_now f s = false ->
  forall u seen lastv, (forall r, In r (seen ++ u) -> eval_now f r = true) ->
  run_from (Always f) seen (u ++ s :: w) lastv = Reject (length seen + length u).
Proof.
  intros Hn Hs. induction u as [|r u IH]; intros seen lastv Hall; simpl.
  - rewrite (always_false_now f seen s Hn Hs). simpl. f_equal. lia.
  - rewrite (always_all_true f (seen ++ [r]) Hn).
    + simpl. rewrite IH.
      * f_equal. rewrite app_length. simpl. lia.
      * intros x Hx. apply Hall. rewrite <- app_assoc in Hx. exact Hx.
    + intros x Hx. apply Hall. apply in_app_or in Hx. apply in_or_app.
      destruct Hx as [Hx|[<-|[]]]; [left; auto | right; left; auto].
Qed.

(* the run rejects exactly at the first step in which the non-temporal condition is false *)
Theorem always_rejects_at_first_false f u s w : nontemporal f = true ->
  (forall r, In r u -> eval_now f r = true) -> eval_now f s = false ->
  run (Always f) (u ++ s :: w) = Reject (length u).
Proof.
  intros Hn Hall Hs. unfold run.
  rewrite (run_from_always f s w Hn Hs u [] BT); auto.
Qed.

(* ------------------------------------------------------------------ refutations (F5) *)
Definition nested_until_witness_f := Always (Until (Atom 0) (Atom 1)).
Definition nested_until_witness_tr : trace :=
  [[true; true]; [true; false]; [false; true]; [true; true]].

Lemma nested_until_refuted :
  exists f tr, fltl f tr 0 = true /\ run f tr = Reject 3 /\ verdict f tr = BF.
Proof.
  exists nested_until_witness_f, nested_until_witness_tr. vm_compute. repeat split.
Qed.

Definition pending_rhs_witness_f := Until (Atom 0) (Or (Eventually (Atom 1)) (Atom 2)).
Definition pending_rhs_witness_u : trace := [[false; false; false]; [true; false; true]].
Definition pending_rhs_witness_w : trace := [[false; true; false]].

Lemma until_pending_rhs_refuted :
  exists f u w, top_until f = true /\ mon f u 0 = BF /\ fltl f (u ++ w) 0 = true /\
                run f (u ++ w) = Reject 1.
Proof.
  exists pending_rhs_witness_f, pending_rhs_witness_u, pending_rhs_witness_w.
  vm_compute. repeat split.
Qed.

(* ------------------------------------------------------------------ scene-time check
   (CompiledRequirement.falsifiedByInner): discarding the scene is sound, and the combined
   outcome accepts exactly the satisfying traces *)
Theorem run_site_scene_reject_sound f b s0 w : early_fragment f = true ->
  run_site b f (s0 :: w) = SRejectScene -> forall w', fltl f (s0 :: w') 0 = false.
Proof.
  intros He H w'. unfold run_site in H.
  destruct (b && is_BF (verdict f [s0])) eqn:E.
  - apply andb_true_iff in E. destruct E as [_ E]. apply is_BF_true in E.
    apply (early_reject_sound f [s0] He); [discriminate | exact E].
  - destruct (run f (s0 :: w)); discriminate.
Qed.

Theorem run_site_accept_iff f b tr : early_fragment f = true -> tr <> [] ->
  (run_site b f tr = SAccept <-> fltl f tr 0 = true).
Proof.
  intros He Hne. destruct tr as [|s0 w]; [congruence|]. unfold run_site.
  destruct (b && is_BF (verdict f [s0])) eqn:E.
  - apply andb_true_iff in E. destruct E as [_ E]. apply is_BF_true in E.
    pose proof (early_reject_sound f [s0] He ltac:(discriminate) E w) as Hf. simpl in Hf.
    split; [discriminate | congruence].
  - rewrite <- (run_accept_iff f (s0 :: w) He Hne).
    destruct (run f (s0 :: w)); split; congruence.
Qed.

(* the scene-time check never changes the outcome of a trace that the run would accept, and a
   scene it discards would have been rejected by the run at step 0 anyway *)
Theorem run_site_scene_reject_is_step0 f s0 w :
  run_site true f (s0 :: w) = SRejectScene -> run f (s0 :: w) = Reject 0.
Proof.
  unfold run_site, run. simpl. destruct (is_BF (verdict f [s0])) eqn:E; simpl.
  - reflexivity.
  - destruct (run_from f [s0] w (verdict f [s0])); discriminate.
Qed.

Theorem run_site_no_check f tr :
  run_site false f tr = match run f tr with Accept => SAccept | Reject t => SReject t end.
Proof. destruct tr; reflexivity. Qed.

(* ------------------------------------------------------------------ dualities on the
   specification side: the finite-trace semantics used as the reference has the usual laws *)
Lemma fltl_always_dual p tr i :
  fltl (Always p) tr i = fltl (Not (Eventually (Not p))) tr i.
Proof.
  simpl. rewrite negb_existsb. apply forallb_ext'. intros x. now rewrite negb_involutive.
Qed.

Lemma fltl_eventually_until p tr i :
  fltl (Eventually p) tr i = fltl (Until (Implies p p) p) tr i.
Proof.
  simpl. apply existsb_ext'. intros k.
  assert (H : forallb (fun j => implb (fltl p tr j) (fltl p tr j)) (seq i (k - i)) = true).
  { apply forallb_forall. intros x _. destruct (fltl p tr x); reflexivity. }
  rewrite H. now rewrite andb_true_r.
Qed.

Lemma fltl_implies_or p q tr i :
  fltl (Implies p q) tr i = fltl (Or (Not p) q) tr i.
Proof. simpl. destruct (fltl p tr i), (fltl q tr i); reflexivity. Qed.

(* the monitor agrees on the dual forms as well (by construction of AlwaysMonitor) *)
Lemma mon_always_dual p tr i :
  mon (Always p) tr i = mon (Not (Eventually (Not p))) tr i.
Proof. reflexivity. Qed.

Lemma mon_implies_or p q tr i :
  mon (Implies p q) tr i = mon (Or (Not p) q) tr i.
Proof. reflexivity. Qed.

(* ------------------------------------------------------------------ the run, characterised by the
   sequence of verdicts: reject at the first FALSE verdict, otherwise by the last verdict *)
Fixpoint first_BF (vs : list B4) (n : nat) : option nat :=
  match vs with
  | [] => None
  | v :: vs' => if is_BF v then Some n else first_BF vs' (S n)
  end.

Lemma last_cons_indep {A} : forall (l : list A) b d d', last (b :: l) d = last (b :: l) d'.
Proof. induction l as [|x l IH]; intros b d d'; [reflexivity|]. change (last (x :: l) d = last (x :: l) d'). apply IH. Qed.

Lemma run_from_verdicts f : forall rest seen lastv,
  run_from f seen rest lastv =
  match first_BF (verdicts_from f seen rest) (length seen) with
  | Some t => Reject t
  | None => if is_falsy (last (verdicts_from f seen rest) lastv) then Reject (length seen + length rest - 1) else Accept
  end.
Proof.
  induction rest as [|s rest IH]; intros seen lastv; simpl.
  - now rewrite Nat.add_0_r.
  - destruct (is_BF (verdict f (seen ++ [s]))) eqn:E; [reflexivity|].
    rewrite IH. rewrite app_length. simpl. rewrite Nat.add_1_r.
    destruct (first_BF _ _); [reflexivity|].
    replace (S (length seen) + length rest - 1) with (length seen + S (length rest) - 1) by lia.
    destruct (verdicts_from f (seen ++ [s]) rest) eqn:V; [reflexivity|].
    now rewrite (last_cons_indep l b lastv (verdict f (seen ++ [s]))).
Qed.

Theorem run_by_verdicts f tr :
  run f tr = match first_BF (verdicts f tr) 0 with
             | Some t => Reject t
             | None => if is_falsy (last (verdicts f tr) BT) then Reject (length tr - 1) else Accept
             end.
Proof. unfold run, verdicts. now rewrite run_from_verdicts. Qed.
