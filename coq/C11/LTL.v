(* C11 — model of temporal requirements: the four-valued RV-LTL monitor of the [rv_ltl] package
   exactly as written (site-packages/rv_ltl/monitor.py, b4.py), Scenic's glue around it
   (core/propositions.py PropositionMonitor, core/requirements.py MonitorRequirement /
   DynamicMonitorRequirement / falsifiedByInner, core/dynamics/scenarios.py _step/_stop), and the
   specification (finite-trace LTL with strong next / strong until).  Definitions only. *)
From Coq Require Import List Bool Arith.
Import ListNotations.

(* ------------------------------------------------------------------ B4 (rv_ltl/b4.py) *)
(* TRUE = 4, PRESUMABLY_TRUE = 3, PRESUMABLY_FALSE = 2, FALSE = 1 *)
Inductive B4 := BT | BPT | BPF | BF.

Definition rank (v : B4) : nat := match v with BT => 4 | BPT => 3 | BPF => 2 | BF => 1 end.
Definition of_rank (n : nat) : B4 :=
  match n with 4 => BT | 3 => BPT | 2 => BPF | _ => BF end.

Definition b4_of_bool (b : bool) : B4 := if b then BT else BF.      (* B4.from_bool *)
Definition is_truthy (v : B4) : bool := 3 <=? rank v.               (* value >= PRESUMABLY_TRUE *)
Definition is_falsy (v : B4) : bool := rank v <=? 2.                (* value <= PRESUMABLY_FALSE *)
Definition neg (v : B4) : B4 := of_rank (5 - rank v).               (* __invert__: 5 - value *)
Definition meet (a b : B4) : B4 := of_rank (Nat.min (rank a) (rank b)).   (* __and__: min *)
Definition join (a b : B4) : B4 := of_rank (Nat.max (rank a) (rank b)).   (* __or__: max *)
Definition is_BF (v : B4) : bool := match v with BF => true | _ => false end.

(* ------------------------------------------------------------------ formulas, traces *)
Inductive formula :=
| Atom (a : nat)
| Not (p : formula)
| And (p q : formula)
| Or (p q : formula)
| Implies (p q : formula)
| Next (p : formula)
| Until (p q : formula)
| Eventually (p : formula)
| Always (p : formula).

Definition valuation := list bool.          (* truth value of atom a = nth a *)
Definition trace := list valuation.         (* one valuation per monitor update *)

Definition atom_at (tr : trace) (i a : nat) : bool := nth a (nth i tr []) false.

(* ------------------------------------------------------------------ the monitor *)
(* UntilMonitor._evaluate_at(i), with last1 = self._last_index + 1 = number of updates so far:
     for k in range(i, last+1):
        v = rhs(k);  if not v.is_truthy: continue
        result = v
        for j in range(i, min(i + k, last)): result = result & lhs(j)
        return result
     return PRESUMABLY_FALSE                                                                *)
Definition until_at (lhs rhs : nat -> B4) (i last1 : nat) : B4 :=
  match find (fun k => is_truthy (rhs k)) (seq i (last1 - i)) with
  | None => BPF
  | Some k =>
      fold_left (fun r j => meet r (lhs j)) (seq i (Nat.min (i + k) (last1 - 1) - i)) (rhs k)
  end.

(* _evaluate_at of every monitor class.  And/Or are [reduce] with initial TRUE / FALSE;
   Implies = Or(Not lhs, rhs); Eventually = Until(ConstantTrue, op);
   Always = Not(Eventually(Not op)); Next past the last index = PRESUMABLY_FALSE. *)
Fixpoint mon (f : formula) (tr : trace) (i : nat) : B4 :=
  match f with
  | Atom a => b4_of_bool (atom_at tr i a)
  | Not p => neg (mon p tr i)
  | And p q => meet (meet BT (mon p tr i)) (mon q tr i)
  | Or p q => join (join BF (mon p tr i)) (mon q tr i)
  | Implies p q => join (join BF (neg (mon p tr i))) (mon q tr i)
  | Next p => if length tr <=? S i then BPF else mon p tr (S i)
  | Until p q => until_at (fun j => mon p tr j) (fun k => mon q tr k) i (length tr)
  | Eventually p => until_at (fun _ => BT) (fun k => mon p tr k) i (length tr)
  | Always p => neg (until_at (fun _ => BT) (fun k => neg (mon p tr k)) i (length tr))
  end.

(* Monitor.evaluate() after the updates in [tr] *)
Definition verdict (f : formula) (tr : trace) : B4 := mon f tr 0.

(* ------------------------------------------------------------------ Scenic's glue *)
(* DynamicScenario._step: every step, each requirement monitor is updated with the current
   valuation; verdict FALSE -> RejectSimulationException at once.  DynamicScenario._stop: when
   the scenario stops, reject if the last verdict is falsy (lastValue starts as TRUE). *)
Inductive outcome := Accept | Reject (t : nat).

Fixpoint run_from (f : formula) (seen rest : trace) (lastv : B4) : outcome :=
  match rest with
  | [] => if is_falsy lastv then Reject (length seen - 1) else Accept
  | s :: rest' =>
      let seen' := seen ++ [s] in
      let v := verdict f seen' in
      if is_BF v then Reject (length seen) else run_from f seen' rest' v
  end.

Definition run (f : formula) (tr : trace) : outcome := run_from f [] tr BT.

(* Requirements declared at compile time are also checked when the scene is sampled
   (CompiledRequirement.falsifiedByInner): a one-shot monitor is updated once with the initial
   valuation and the scene is discarded when the verdict is FALSE. *)
Inductive outcome_site := SAccept | SRejectScene | SReject (t : nat).

Definition run_site (scene_check : bool) (f : formula) (tr : trace) : outcome_site :=
  match tr with
  | s0 :: _ =>
      if scene_check && is_BF (verdict f [s0]) then SRejectScene
      else match run f tr with Accept => SAccept | Reject t => SReject t end
  | [] => match run f tr with Accept => SAccept | Reject t => SReject t end
  end.

(* sequence of verdicts after each update (for replays / diagnostics) *)
Fixpoint verdicts_from (f : formula) (seen rest : trace) : list B4 :=
  match rest with
  | [] => []
  | s :: rest' => verdict f (seen ++ [s]) :: verdicts_from f (seen ++ [s]) rest'
  end.
Definition verdicts (f : formula) (tr : trace) : list B4 := verdicts_from f [] tr.

(* ------------------------------------------------------------------ specification *)
(* finite-trace LTL, strong next and strong until, evaluated at position i of tr *)
Fixpoint fltl (f : formula) (tr : trace) (i : nat) : bool :=
  match f with
  | Atom a => atom_at tr i a
  | Not p => negb (fltl p tr i)
  | And p q => fltl p tr i && fltl q tr i
  | Or p q => fltl p tr i || fltl q tr i
  | Implies p q => implb (fltl p tr i) (fltl q tr i)
  | Next p => (S i <? length tr) && fltl p tr (S i)
  | Until p q =>
      existsb (fun k => fltl q tr k && forallb (fun j => fltl p tr j) (seq i (k - i)))
              (seq i (length tr - i))
  | Eventually p => existsb (fun k => fltl p tr k) (seq i (length tr - i))
  | Always p => forallb (fun k => fltl p tr k) (seq i (length tr - i))
  end.

(* no continuation of u satisfies f *)
Definition unsat_ext (f : formula) (u : trace) : Prop := forall w, fltl f (u ++ w) 0 = false.

(* plain Boolean evaluation of a non-temporal formula on one valuation *)
Fixpoint eval_now (f : formula) (s : valuation) : bool :=
  match f with
  | Atom a => nth a s false
  | Not p => negb (eval_now p s)
  | And p q => eval_now p s && eval_now q s
  | Or p q => eval_now p s || eval_now q s
  | Implies p q => implb (eval_now p s) (eval_now q s)
  | _ => false
  end.

(* ------------------------------------------------------------------ fragments *)
Fixpoint nontemporal (f : formula) : bool :=
  match f with
  | Atom _ => true
  | Not p => nontemporal p
  | And p q | Or p q | Implies p q => nontemporal p && nontemporal q
  | _ => false
  end.

(* no [Until] with a non-constant left operand anywhere (Eventually/Always/Next allowed) *)
Fixpoint until_free (f : formula) : bool :=
  match f with
  | Atom _ => true
  | Not p | Next p | Eventually p | Always p => until_free p
  | And p q | Or p q | Implies p q => until_free p && until_free q
  | Until _ _ => false
  end.

(* every [Until] is evaluated at offset 0 only: it occurs below Boolean connectives only, and
   its operands contain no further [Until] *)
Fixpoint top_until (f : formula) : bool :=
  match f with
  | Atom _ => true
  | Not p => top_until p
  | And p q | Or p q | Implies p q => top_until p && top_until q
  | Next p | Eventually p | Always p => until_free p
  | Until p q => until_free p && until_free q
  end.

(* ... and in addition the right operand of every [Until] is non-temporal *)
Fixpoint early_fragment (f : formula) : bool :=
  match f with
  | Atom _ => true
  | Not p => early_fragment p
  | And p q | Or p q | Implies p q => early_fragment p && early_fragment q
  | Next p | Eventually p | Always p => until_free p
  | Until p q => until_free p && nontemporal q
  end.

(* ------------------------------------------------------------------ bounded search used by
   the property oracle: does some continuation of u by at most k valuations over n atoms
   satisfy f?  (returns a witness) *)
Fixpoint all_vals (n : nat) : list valuation :=
  match n with
  | 0 => [[]]
  | S m => flat_map (fun v => [false :: v; true :: v]) (all_vals m)
  end.

Fixpoint all_exts (n k : nat) : list trace :=
  match k with
  | 0 => [[]]
  | S k' => [] :: flat_map (fun w => map (fun v => v :: w) (all_vals n)) (all_exts n k')
  end.

Definition sat_ext (f : formula) (u : trace) (n k : nat) : option trace :=
  find (fun w => fltl f (u ++ w) 0) (all_exts n k).
