(* C01 model of requirement closures (core/requirements.py PendingRequirement.__init__ / compile).
   Definitions only.

   The translator wraps a requirement's condition in a lambda, so Python would look its names up
   in the module namespace when the condition is finally evaluated (late binding).  Scenic
   therefore (1) when the `require` statement runs, saves the current value of every name the
   condition refers to (getNameBindings -> globalBindings), and (2) in the compiled closure, before
   evaluating the condition for a sample, REBINDS each of those names in the namespace to the
   sampled value of the saved binding (`namespace[name] = values[value]`); the namespace is not
   restored afterwards, so the next requirement starts from whatever the previous one left. *)
From Coq Require Import QArith ZArith List Bool.
From Scenic Require Import C01.Prob C01.Sampler.
Import ListNotations.

Definition name := nat.

(* what a name is bound to at compile time: a random value (node of the DAG) or a constant *)
Inductive binding := BNode (i : nat) | BConst (v : val).

(* conditions as written in the source: over names *)
Inductive nexpr := NName (x : name) | NConst (v : val) | NBin (o : opcode) (a b : nexpr) | NUn (o : opcode) (a : nexpr).
Inductive ncond :=
| NLt (a b : nexpr) | NLe (a b : nexpr) | NEq (a b : nexpr) | NNe (a b : nexpr)
| NAnd (c d : ncond) | NOr (c d : ncond) | NNot (c : ncond).

Inductive pstmt :=
| PAssign (x : name) (b : binding)         (* x = <expression>: x now refers to that value *)
| PRequire (p : Q) (c : ncond).            (* require[p] c *)

(* compile-time namespace: latest binding first *)
Definition env := list (name * binding).
Fixpoint lookup (e : env) (x : name) : binding :=
  match e with
  | [] => BConst VErr                       (* NameError *)
  | (y, b) :: r => if Nat.eqb x y then b else lookup r x
  end.

Fixpoint enames (a : nexpr) : list name :=
  match a with
  | NName x => [x] | NConst _ => []
  | NBin _ a b => enames a ++ enames b | NUn _ a => enames a
  end.
Fixpoint cnames (c : ncond) : list name :=
  match c with
  | NLt a b | NLe a b | NEq a b | NNe a b => enames a ++ enames b
  | NAnd c d | NOr c d => cnames c ++ cnames d
  | NNot c => cnames c
  end.

(* a pending requirement: probability, condition (still over names), saved bindings *)
Record pending := mkPending { pprob : Q; pcond : ncond; pcapture : list (name * binding) }.

(* PendingRequirement.__init__: save the current binding of every referenced name *)
Definition capture (e : env) (c : ncond) : list (name * binding) :=
  map (fun x => (x, lookup e x)) (cnames c).

(* running the program's statements in order *)
Fixpoint run_stmts (ss : list pstmt) (e : env) : env * list pending :=
  match ss with
  | [] => (e, [])
  | PAssign x b :: r => run_stmts r ((x, b) :: e)
  | PRequire p c :: r =>
      let (e', ps) := run_stmts r e in (e', mkPending p c (capture e c) :: ps)
  end.

(* ---- run time: the namespace holds values *)
Definition rns := name -> val.
Definition rupd (r : rns) (x : name) (v : val) : rns := fun y => if Nat.eqb y x then v else r y.

(* values[value] for a saved binding, given the sample *)
Definition bval (m : memo) (b : binding) : val :=
  match b with
  | BNode i => match get m i with Some v => v | None => VErr end
  | BConst v => v
  end.

Fixpoint neval (r : rns) (a : nexpr) : val :=
  match a with
  | NName x => r x
  | NConst v => v
  | NBin o a b => apply_op o [neval r a; neval r b]
  | NUn o a => apply_op o [neval r a]
  end.
Fixpoint nceval (r : rns) (c : ncond) : bool :=
  match c with
  | NLt a b => vlt (neval r a) (neval r b)
  | NLe a b => vle (neval r a) (neval r b)
  | NEq a b => val_eqb (neval r a) (neval r b)
  | NNe a b => negb (val_eqb (neval r a) (neval r b))
  | NAnd c d => nceval r c && nceval r d
  | NOr c d => nceval r c || nceval r d
  | NNot c => negb (nceval r c)
  end.

(* the compiled closure: rebind every saved name, then evaluate; the mutated namespace persists *)
Definition rebind (m : memo) (cap : list (name * binding)) (r : rns) : rns :=
  fold_left (fun r xb => rupd r (fst xb) (bval m (snd xb))) cap r.
Definition closure (pd : pending) (m : memo) (r : rns) : bool * rns :=
  let r' := rebind m (pcapture pd) r in (nceval r' (pcond pd), r').

(* the checker: every active requirement's closure, in order, threading the namespace *)
Fixpoint check_closures (ps : list pending) (acts : list bool) (m : memo) (r : rns) : bool :=
  match ps, acts with
  | pd :: ps', a :: acts' =>
      if a then let (ok, r') := closure pd m r in ok && check_closures ps' acts' m r'
      else check_closures ps' acts' m r
  | _, _ => true
  end.

(* ---- the sampler model's requirements (Sampler.req): names resolved to nodes at the statement *)
Fixpoint resolve_e (e : env) (a : nexpr) : rexpr :=
  match a with
  | NName x => match lookup e x with BNode i => RNode i | BConst v => RConst v end
  | NConst v => RConst v
  | NBin o a b => RBin o (resolve_e e a) (resolve_e e b)
  | NUn o a => RUn o (resolve_e e a)
  end.
Fixpoint resolve (e : env) (c : ncond) : cond :=
  match c with
  | NLt a b => CLt (resolve_e e a) (resolve_e e b)
  | NLe a b => CLe (resolve_e e a) (resolve_e e b)
  | NEq a b => CEq (resolve_e e a) (resolve_e e b)
  | NNe a b => CNe (resolve_e e a) (resolve_e e b)
  | NAnd c d => CAnd (resolve e c) (resolve e d)
  | NOr c d => COr (resolve e c) (resolve e d)
  | NNot c => CNot (resolve e c)
  end.
Fixpoint compile_reqs (ss : list pstmt) (e : env) : list req :=
  match ss with
  | [] => []
  | PAssign x b :: r => compile_reqs r ((x, b) :: e)
  | PRequire p c :: r => mkReq p (resolve e c) :: compile_reqs r e
  end.

(* the namespace after a prefix of the program *)
Fixpoint env_after (ss : list pstmt) (e : env) : env :=
  match ss with
  | [] => e
  | PAssign x b :: r => env_after r ((x, b) :: e)
  | PRequire _ _ :: r => env_after r e
  end.
Fixpoint count_reqs (ss : list pstmt) : nat :=
  match ss with [] => O | PAssign _ _ :: r => count_reqs r | PRequire _ _ :: r => S (count_reqs r) end.

(* what late binding (no rebinding; Python's own semantics for the lambda) would evaluate *)
Definition late_value (e_final : env) (m : memo) (c : ncond) : bool :=
  nceval (fun x => bval m (lookup e_final x)) c.
