(* The prior's needed set (one backward sweep) is exactly the set of nodes the memoised sampler
   draws, so sampler_is_prior holds without any side condition on the DAG beyond creation order. *)
From Coq Require Import QArith ZArith List Bool Lia Permutation.
From Scenic Require Import C01.Prob C01.ProbProofs C01.Sampler C01.Prior C01.SamplerProofs C01.RejectionProofs.
Import ListNotations.

Inductive reach (g : dag) (roots : list nat) : nat -> Prop :=
| r_root : forall j, In j roots -> reach g roots j
| r_arg : forall i a, reach g roots i -> In a (args (node_at g i)) -> reach g roots a.

Lemma reach_mono g r1 r2 j : (forall x, In x r1 -> In x r2) -> reach g r1 j -> reach g r2 j.
Proof. intros S H. induction H; [apply r_root; auto|eapply r_arg; eauto]. Qed.

(* everything the sampler draws is reachable from the dependencies *)
Lemma ord_reach g : forall fuel i vis j, In j (ord fuel g i vis) -> reach g [i] j.
Proof.
  induction fuel as [|f IH]; intros i vis j Hj; simpl in Hj; [destruct Hj|].
  destruct (memb i vis); [destruct Hj|].
  apply in_app_or in Hj. destruct Hj as [Hj|[<-|[]]]; [|apply r_root; left; reflexivity].
  assert (L : forall l vis, In j (ord_list (ord f g) l vis) -> exists c, In c l /\ reach g [c] j).
  { induction l as [|c cs IHl]; intros vis' H; simpl in H; [destruct H|].
    apply in_app_or in H. destruct H as [H|H].
    - exists c. split; [left; reflexivity|apply (IH c vis' j H)].
    - destruct (IHl _ H) as (c' & Hc' & R). exists c'. split; [right; exact Hc'|exact R]. }
  destruct (L _ _ Hj) as (c & Hc & R).
  assert (Rc : reach g [i] c) by (eapply r_arg; [apply r_root; left; reflexivity|exact Hc]).
  clear -R Rc. induction R.
  - destruct H as [<-|[]]. exact Rc.
  - eapply r_arg; eauto.
Qed.

Lemma dfs_order_reach g deps j : In j (dfs_order g deps) -> reach g deps j.
Proof.
  unfold dfs_order. generalize (@nil nat). induction deps as [|c cs IH]; intros vis H; simpl in H; [destruct H|].
  apply in_app_or in H. destruct H as [H|H].
  - eapply reach_mono; [|apply (ord_reach g _ c vis j H)]. intros x [<-|[]]. left. reflexivity.
  - eapply reach_mono; [|apply (IH _ H)]. intros x Hx. right. exact Hx.
Qed.

Lemma reach_dfs_order g deps : wf_dag g -> (forall d, In d deps -> (d < length g)%nat) ->
  forall j, reach g deps j -> In j (dfs_order g deps).
Proof.
  intros W D j R. destruct (dfs_order_valid g W deps D) as (V & C & U).
  induction R.
  - apply C. exact H.
  - destruct (valid_elem g _ [] i V IHR) as (_ & B). specialize (B a H).
    rewrite app_nil_r in B. exact B.
Qed.

(* the sweep *)
Lemma sweep_superset g : forall k marked x, In x marked -> In x (reach_sweep g k marked).
Proof.
  induction k as [|k IH]; intros marked x H; simpl; [exact H|].
  apply IH. destruct (memb k marked); [apply in_or_app; right; exact H|exact H].
Qed.

Lemma sweep_sound g deps : forall k marked,
  (forall x, In x marked -> reach g deps x) -> forall x, In x (reach_sweep g k marked) -> reach g deps x.
Proof.
  induction k as [|k IH]; intros marked S x H; simpl in H; [apply S; exact H|].
  apply (IH _ ) in H; [exact H|]. intros y Hy.
  destruct (memb k marked) eqn:M; [|apply S; exact Hy].
  apply in_app_or in Hy. destruct Hy as [Hy|Hy]; [|apply S; exact Hy].
  eapply r_arg; [apply S; apply memb_In; exact M|exact Hy].
Qed.

Definition closed_from (g : dag) (k : nat) (M : list nat) : Prop :=
  forall i, (k <= i)%nat -> In i M -> forall a, In a (args (node_at g i)) -> In a M.

Lemma sweep_closed g : wf_dag g -> forall k marked, (k <= length g)%nat ->
  closed_from g k marked -> closed_from g 0 (reach_sweep g k marked).
Proof.
  intros W. induction k as [|k IH]; intros marked Lk C; simpl; [exact C|].
  apply IH; [lia|]. intros i Hi Hin a Ha.
  destruct (memb k marked) eqn:M.
  - destruct (Nat.eq_dec i k) as [->|N].
    + apply in_or_app. left. exact Ha.
    + apply in_or_app. right. apply in_app_or in Hin. destruct Hin as [Hin|Hin].
      * assert (i < k)%nat by (apply (W k); [lia|exact Hin]). lia.
      * apply (C i); [lia|exact Hin|exact Ha].
  - destruct (Nat.eq_dec i k) as [->|N].
    + apply memb_false in M. contradiction.
    + apply (C i); [lia|exact Hin|exact Ha].
Qed.

Theorem needed_is_dfs g deps : wf_dag g -> (forall d, In d deps -> (d < length g)%nat) ->
  same_set (needed g deps) (dfs_order g deps).
Proof.
  intros W D j. unfold needed. split.
  - intros H. apply (reach_dfs_order g deps W D).
    apply (sweep_sound g deps (length g) deps); [intros x Hx; apply r_root; exact Hx|exact H].
  - intros H. apply dfs_order_reach in H.
    assert (C : closed_from g 0 (reach_sweep g (length g) deps)).
    { apply (sweep_closed g W); [lia|]. intros i Hi Hin a Ha.
      assert (Hn : nth_error g i = None) by (apply nth_error_None; lia).
      unfold node_at in Ha. rewrite nth_overflow in Ha by lia. destruct Ha. }
    induction H.
    + apply sweep_superset. exact H.
    + apply (C i); [lia|exact IHreach|exact H0].
Qed.

(* MAIN, unconditional: for every DAG in creation order and every dependency list, the memoised
   depth-first sampler has exactly the distribution of the prior *)
Theorem sampler_is_prior g deps :
  wf_dag g -> (forall d, In d deps -> (d < length g)%nat) ->
  teq (sample_all g deps) (prior g deps).
Proof.
  intros W D. apply sampler_is_prior_given_reach; [exact W|exact D|apply needed_is_dfs; assumption].
Qed.

(* listing the same dependencies in another order (or with repetitions) changes nothing *)
Theorem deps_order_irrelevant g deps1 deps2 :
  wf_dag g -> (forall d, In d deps1 -> (d < length g)%nat) -> (forall d, In d deps2 -> (d < length g)%nat) ->
  (forall d, In d deps1 <-> In d deps2) ->
  teq (sample_all g deps1) (sample_all g deps2).
Proof.
  intros W D1 D2 E. apply order_irrelevant; try assumption.
  intros j. split; intros H.
  - apply (reach_dfs_order g deps2 W D2). eapply reach_mono; [|apply dfs_order_reach; exact H].
    intros x. apply E.
  - apply (reach_dfs_order g deps1 W D1). eapply reach_mono; [|apply dfs_order_reach; exact H].
    intros x. apply E.
Qed.

(* the rejection-loop theorems without the side condition *)
Section Unconditional.
  Variable g : dag.
  Variable deps : list nat.
  Hypothesis W : wf_dag g.
  Hypothesis D : forall d, In d deps -> (d < length g)%nat.
  Open Scope Q_scope.

  Theorem sampler_mass_is_prior : forall f, mass f (sample_all g deps) == mass f (prior g deps).
  Proof. intros f. exact (sampler_is_prior g deps W D _). Qed.

  Theorem rejection_exact_u rs acts n j (f : memo -> bool) : (j < n)%nat ->
    expect (fun x => ind (f (fst x) && Nat.eqb (snd x) (S j))) (retry (attempt g deps rs acts) n 1) ==
    joint g deps rs acts f * qpow (rejmass (attempt g deps rs acts)) j.
  Proof. exact (rejection_exact g deps W D (needed_is_dfs g deps W D) rs acts n j f). Qed.

  Theorem rejection_probability_u rs acts :
    wf_tree (attempt g deps rs acts) -> rejmass (attempt g deps rs acts) == 1 - accept g deps rs acts.
  Proof. exact (rejection_probability g deps W D (needed_is_dfs g deps W D) rs acts). Qed.

  Theorem returned_is_conditioned_prior_u rs acts n (f : memo -> bool) :
    expect (fun x => ind (f (fst x))) (retry (attempt g deps rs acts) n 1) * accept g deps rs acts ==
    joint g deps rs acts f * expect (fun _ => 1) (retry (attempt g deps rs acts) n 1).
  Proof. exact (returned_is_conditioned_prior g deps W D (needed_is_dfs g deps W D) rs acts n f). Qed.
End Unconditional.
