(* Well-formedness of the generated probability trees: every Choice of the sampler model has
   non-negative weights summing to 1 (so accepted mass + rejected mass = 1), for every DAG whose
   weighted nodes carry well-formed cumulative weights.  Discharges the [wf_tree (attempt ...)]
   hypothesis of [rejection_probability]. *)
From Coq Require Import QArith ZArith List Bool Lia Qround.
From Scenic Require Import C01.Prob C01.ProbProofs C01.ChoiceProofs C01.Sampler C01.Prior
  C01.SamplerProofs C01.RejectionProofs C01.ReachProofs.
Import ListNotations.
Open Scope Q_scope.

Lemma last_cons_default : forall r (c d : Q), last (c :: r) d = last r c.
Proof.
  induction r as [|a r IH]; intros c d; [reflexivity|].
  change (last (c :: a :: r) d) with (last (a :: r) d).
  rewrite (IH a d), (IH a c). reflexivity.
Qed.

Lemma diffs_sum : forall cum prev, qsum (diffs prev cum) == last cum prev - prev.
Proof.
  unfold qsum. induction cum as [|c r IH]; intros prev; simpl diffs; simpl wsum.
  - simpl. ring.
  - rewrite IH, last_cons_default. ring.
Qed.

Lemma diffs_nonneg : forall cum prev, mono prev cum = true -> Forall (fun d => 0 <= d) (diffs prev cum).
Proof.
  induction cum as [|c r IH]; intros prev M; simpl; constructor.
  - simpl in M. apply andb_true_iff in M. destruct M as [M _]. apply Qle_bool_iff in M.
    unfold Qminus. rewrite <- Qle_minus_iff. exact M.
  - apply IH. simpl in M. apply andb_true_iff in M. apply M.
Qed.

Lemma diffs_length : forall cum prev, length (diffs prev cum) = length cum.
Proof. induction cum; intros; simpl; auto. Qed.

Lemma zrange_len : forall n lo, length (zrange lo n) = n.
Proof. induction n; intros; simpl; auto. Qed.

Lemma wsum_combine_snd (F : Q -> Q) : forall (zs : list Z) ds, length zs = length ds ->
  wsum (fun kw : Z * Q => F (snd kw)) (combine zs ds) = wsum F ds.
Proof.
  induction zs as [|z zs IH]; intros [|d ds] L; simpl in *; try discriminate; [reflexivity|].
  rewrite IH by lia. reflexivity.
Qed.

Lemma wf_choices_tree cum : good_cum cum = true -> wf_tree (choices_tree cum).
Proof.
  unfold good_cum. intros G. apply andb_true_iff in G. destruct G as [M T].
  assert (Tp : 0 < last cum 0).
  { apply negb_true_iff in T. apply Qnot_le_lt. intro H. apply Qle_bool_iff in H. congruence. }
  unfold choices_tree. apply wf_choice. split.
  - rewrite wsum_map. cbn [fst].
    rewrite (wsum_combine_snd (fun d => d / last cum 0)) by (rewrite zrange_len, diffs_length; reflexivity).
    unfold Qdiv. rewrite wsum_scale_r. fold (qsum (diffs 0 cum)). rewrite diffs_sum.
    field. intro E. rewrite E in Tp. discriminate.
  - apply Forall_forall. intros qt Hin. apply in_map_iff in Hin. destruct Hin as ([k d] & <- & Hin).
    cbn [fst snd]. split; [|exact I].
    apply in_combine_r in Hin. pose proof (diffs_nonneg cum 0 M) as F.
    rewrite Forall_forall in F. specialize (F d Hin).
    apply Qle_shift_div_l; [exact Tp|]. rewrite Qmult_0_l. exact F.
Qed.

Lemma wf_randint lo hi : (lo <= hi)%Z -> wf_tree (randint_tree lo hi).
Proof.
  intros L. unfold randint_tree. apply uniform_tree_wf.
  destruct (Z.to_nat (hi - lo + 1)) eqn:E; [lia|]. simpl. discriminate.
Qed.

Lemma wf_ndrange lo hi : wf_tree (ndrange_tree lo hi).
Proof.
  unfold ndrange_tree. destruct (Z.ltb (Qfloor hi) (Qceiling lo)) eqn:E; [exact I|].
  apply wf_randint. apply Z.ltb_ge in E. exact E.
Qed.

Lemma wf_ret_bind {A B} (t : ptree A) (f : A -> B) : wf_tree t -> wf_tree (bind t (fun a => Ret (f a))).
Proof. intros W. apply wf_bind; [exact W|]. intros a. exact I. Qed.

(* sampleGiven of every node kind yields a well-formed tree *)
Lemma wf_sem k ovs : good_kind k = true -> wf_tree (sem k ovs).
Proof.
  intros G. unfold sem. destruct (all_some ovs) as [vs|]; [|exact I].
  destruct k; try exact I.
  - (* KDRange *)
    destruct vs as [|a [|b [|? ?]]]; try exact I.
    destruct (num a) as [lo|]; [|exact I]. destruct (num b) as [hi|]; [|exact I].
    apply wf_ret_bind. apply wf_ndrange.
  - (* KDRangeW *) apply wf_ret_bind. apply wf_choices_tree. exact G.
  - (* KMux *) destruct vs as [|[i|?|?|] opts]; exact I.
  - (* KUniStar *)
    destruct (expand starred (removelast vs)); [|exact I]. destruct (last vs VErr); exact I.
  - (* KFun *) destruct (expand starred vs); exact I.
Qed.

Section Good.
  Variable g : dag.
  Hypothesis G : good_dagb g = true.

  Lemma good_node i : good_kind (kind (node_at g i)) = true.
  Proof.
    unfold node_at. destruct (Nat.lt_ge_cases i (length g)) as [L|L].
    - unfold good_dagb in G. rewrite forallb_forall in G. apply G. apply nth_In. exact L.
    - rewrite nth_overflow by exact L. reflexivity.
  Qed.

  Lemma wf_draw i m : wf_tree (draw g i m).
  Proof. unfold draw. apply wf_sem. apply good_node. Qed.

  Lemma wf_fold_visit (F : nat -> memo -> ptree memo) :
    (forall c m, wf_tree (F c m)) -> forall l m, wf_tree (fold_visit F l m).
  Proof.
    intros WF. induction l as [|c cs IH]; intros m; simpl; [exact I|].
    apply wf_bind; [apply WF|exact IH].
  Qed.

  Lemma wf_visit : forall fuel i m, wf_tree (visit fuel g i m).
  Proof.
    induction fuel as [|f IH]; intros i m; simpl; [exact I|].
    destruct (has m i); [exact I|].
    apply wf_bind; [apply wf_fold_visit; exact IH|].
    intros m'. apply wf_ret_bind. apply wf_draw.
  Qed.

  Theorem wf_sample_all deps : wf_tree (sample_all g deps).
  Proof. unfold sample_all. apply wf_fold_visit. apply wf_visit. Qed.

  Theorem wf_attempt deps rs acts : wf_tree (attempt g deps rs acts).
  Proof.
    unfold attempt. apply wf_bind; [apply wf_sample_all|].
    intros m. destruct (check rs acts m); exact I.
  Qed.
End Good.

Lemma wf_catch {A} (t t2 : ptree A) : wf_tree t -> wf_tree t2 -> wf_tree (catch t t2).
Proof.
  induction t using ptree_ind2; intros W W2; [exact I|exact W2|].
  rewrite catch_choice. apply wf_choice in W. destruct W as [S W]. apply wf_choice. split.
  - rewrite <- S. clear. induction bs as [|[q t'] r IH]; simpl; [reflexivity|]. rewrite IH. reflexivity.
  - rewrite Forall_forall in *. intros qt Hin. apply in_map_iff in Hin. destruct Hin as (x & <- & Hx).
    simpl. destruct (W x Hx). split; [assumption|]. apply H; assumption.
Qed.

Lemma wf_retry {A} (t : ptree A) : wf_tree t -> forall n k, wf_tree (retry t n k).
Proof.
  intros W. induction n as [|n IH]; intros k; simpl; [exact I|].
  apply wf_catch; [apply wf_ret_bind; exact W|apply IH].
Qed.

Lemma wf_bern p : wf_tree (bern_tree p).
Proof.
  unfold bern_tree. apply wf_choice. split; [simpl; ring|].
  destruct (Qle_bool 1 p) eqn:E1; [|destruct (Qle_bool p 0) eqn:E0].
  - repeat constructor; simpl; try discriminate; try (unfold Qle; simpl; lia).
  - repeat constructor; simpl; try discriminate; try (unfold Qle; simpl; lia).
  - assert (L0 : 0 <= p).
    { apply Qlt_le_weak. apply Qnot_le_lt. intro H. apply Qle_bool_iff in H. congruence. }
    assert (L1 : p <= 1).
    { apply Qlt_le_weak. apply Qnot_le_lt. intro H. apply Qle_bool_iff in H. congruence. }
    repeat constructor; simpl; try exact L0.
    unfold Qminus. rewrite <- Qle_minus_iff. exact L1.
Qed.

Lemma wf_activate : forall rs, wf_tree (activate rs).
Proof.
  induction rs as [|r rs IH]; [exact I|]. cbn [activate].
  apply wf_bind; [apply wf_bern|]. intros b. apply wf_ret_bind. exact IH.
Qed.

(* the whole generator: P(a scene is returned) + P(RejectionException after n attempts) = 1 *)
Theorem wf_generate_inner g deps rs n : good_dagb g = true -> wf_tree (generate_inner g deps rs n).
Proof.
  intros G. unfold generate_inner. apply wf_bind; [apply wf_activate|].
  intros acts. apply wf_retry. apply wf_attempt. exact G.
Qed.

Theorem generate_total g deps rs n : good_dagb g = true ->
  expect (fun _ => 1) (generate_inner g deps rs n) + rejmass (generate_inner g deps rs n) == 1.
Proof. intros G. apply wf_total. apply wf_generate_inner. exact G. Qed.

(* per-attempt rejection probability = 1 - prior probability that the enforced requirements hold,
   with the well-formedness of the attempt's tree PROVED (no hypothesis on the tree) *)
Theorem rejection_probability_good g deps :
  wf_dag g -> (forall d, In d deps -> (d < length g)%nat) -> good_dagb g = true ->
  forall rs acts, rejmass (attempt g deps rs acts) == 1 - accept g deps rs acts.
Proof.
  intros W D G rs acts. apply (rejection_probability_u g deps W D rs acts). apply wf_attempt. exact G.
Qed.

(* exact law of giving up: P(RejectionException | enforcement pattern) = (1 - accept)^n *)
Theorem gives_up_probability g deps :
  wf_dag g -> (forall d, In d deps -> (d < length g)%nat) -> good_dagb g = true ->
  forall rs acts n,
  expect (fun _ => 1) (retry (attempt g deps rs acts) n 1) == 1 - qpow (1 - accept g deps rs acts) n.
Proof.
  intros W D G rs acts n.
  rewrite (retry_gives_up (attempt g deps rs acts) n 1 (wf_attempt g G deps rs acts)).
  assert (E : forall a b, a == b -> qpow a n == qpow b n).
  { intros a b Eab. induction n as [|k IH]; simpl; [reflexivity|]. rewrite IH, Eab. reflexivity. }
  rewrite (E _ _ (rejection_probability_good g deps W D G rs acts)). reflexivity.
Qed.
