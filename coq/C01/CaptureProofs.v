(* A `require` sees the bindings current at the statement, whatever is rebound later and whatever
   earlier closures left in the namespace; the closures are exactly the sampler model's
   requirements (conditions over the nodes bound at the statement). *)
From Coq Require Import QArith ZArith List Bool Lia.
From Scenic Require Import C01.Prob C01.Sampler C01.Capture.
Import ListNotations.

Section Rebind.
  Variable m : memo.

  Lemma rebind_spec (g : name -> val) : forall cap r x,
    (forall y b, In (y, b) cap -> bval m b = g y) ->
    In x (map fst cap) \/ r x = g x -> rebind m cap r x = g x.
  Proof.
    unfold rebind. induction cap as [|[y b] cap IH]; intros r x Hg Hx; simpl.
    - destruct Hx as [[]|Hx]. exact Hx.
    - apply IH.
      + intros y' b' Hin. apply Hg. right. exact Hin.
      + unfold rupd. simpl fst; simpl snd. destruct (Nat.eqb x y) eqn:E.
        * right. apply Nat.eqb_eq in E. subst. apply Hg. left. reflexivity.
        * destruct Hx as [[Hx|Hx]|Hx].
          -- simpl in Hx. subst. rewrite Nat.eqb_refl in E. discriminate.
          -- left. exact Hx.
          -- right. exact Hx.
  Qed.

  (* a name the closure did not save keeps whatever the namespace held *)
  Lemma rebind_other : forall cap r x, ~ In x (map fst cap) -> rebind m cap r x = r x.
  Proof.
    unfold rebind. induction cap as [|[y b] cap IH]; intros r x Hn; simpl; [reflexivity|].
    rewrite IH by (intro H; apply Hn; right; exact H).
    unfold rupd. simpl fst. destruct (Nat.eqb x y) eqn:E; [|reflexivity].
    apply Nat.eqb_eq in E. subst. exfalso. apply Hn. left. reflexivity.
  Qed.
End Rebind.

Lemma neval_ext r1 r2 : forall a, (forall x, In x (enames a) -> r1 x = r2 x) -> neval r1 a = neval r2 a.
Proof.
  induction a; intros H; simpl in *.
  - apply H. left. reflexivity.
  - reflexivity.
  - rewrite IHa1, IHa2; [reflexivity| |]; intros x Hx; apply H; apply in_or_app; auto.
  - rewrite IHa; [reflexivity|exact H].
Qed.

Lemma nceval_ext r1 r2 : forall c, (forall x, In x (cnames c) -> r1 x = r2 x) -> nceval r1 c = nceval r2 c.
Proof.
  induction c; intros H; simpl in *;
    try (rewrite (neval_ext r1 r2 a), (neval_ext r1 r2 b);
         [reflexivity| |]; intros x Hx; apply H; apply in_or_app; auto).
  - rewrite IHc1, IHc2; [reflexivity| |]; intros x Hx; apply H; apply in_or_app; auto.
  - rewrite IHc1, IHc2; [reflexivity| |]; intros x Hx; apply H; apply in_or_app; auto.
  - rewrite IHc; [reflexivity|exact H].
Qed.

(* the closure of a requirement whose bindings were saved in namespace [e] evaluates the condition
   with every name standing for the sampled value of what it was bound to in [e] -- from ANY
   run-time namespace [r] (later rebinding, earlier closures) *)
Theorem closure_sees_captured e p c m r :
  fst (closure (mkPending p c (capture e c)) m r) = nceval (fun x => bval m (lookup e x)) c.
Proof.
  unfold closure. cbn [fst pcapture pcond]. apply nceval_ext. intros x Hx.
  apply (rebind_spec m (fun x => bval m (lookup e x))).
  - intros y b Hin. unfold capture in Hin. apply in_map_iff in Hin. destruct Hin as (z & E & _).
    inversion E; subst. reflexivity.
  - left. unfold capture. rewrite map_map. simpl. rewrite map_id. exact Hx.
Qed.

Lemma run_stmts_app : forall pre e rest,
  run_stmts (pre ++ rest) e =
  (fst (run_stmts rest (env_after pre e)), snd (run_stmts pre e) ++ snd (run_stmts rest (env_after pre e))).
Proof.
  induction pre as [|[x b|p c] pre IH]; intros e rest; simpl.
  - destruct (run_stmts rest e); reflexivity.
  - apply IH.
  - rewrite IH. destruct (run_stmts pre e) as [e1 ps1]. simpl. reflexivity.
Qed.

Lemma run_stmts_length : forall ss e, length (snd (run_stmts ss e)) = count_reqs ss.
Proof.
  induction ss as [|[x b|p c] ss IH]; intros e; simpl; [reflexivity|apply IH|].
  specialize (IH e). destruct (run_stmts ss e). simpl in *. rewrite IH. reflexivity.
Qed.

(* the pending requirement created by a statement does not depend on what follows it *)
Theorem pending_independent_of_rest pre p c post e d :
  nth (count_reqs pre) (snd (run_stmts (pre ++ PRequire p c :: post) e)) d =
  mkPending p c (capture (env_after pre e) c).
Proof.
  rewrite run_stmts_app. cbn [snd].
  rewrite app_nth2 by (rewrite run_stmts_length; lia).
  rewrite run_stmts_length, Nat.sub_diag. simpl.
  destruct (run_stmts post (env_after pre e)). reflexivity.
Qed.

(* requirement capture: the requirement of `pre; require[p] c; post` is evaluated with the
   bindings current after `pre`, for every continuation `post` (in particular one that rebinds the
   names of c), every sample and every state of the run-time namespace *)
Theorem requirement_capture pre p c post e m r d :
  fst (closure (nth (count_reqs pre) (snd (run_stmts (pre ++ PRequire p c :: post) e)) d) m r) =
  nceval (fun x => bval m (lookup (env_after pre e) x)) c.
Proof. rewrite pending_independent_of_rest. apply closure_sees_captured. Qed.

(* ---- the closures are the sampler model's requirements *)
Lemma resolve_e_sound e m : forall a, reval m (resolve_e e a) = neval (fun x => bval m (lookup e x)) a.
Proof.
  induction a; simpl.
  - destruct (lookup e x); reflexivity.
  - reflexivity.
  - rewrite IHa1, IHa2. reflexivity.
  - rewrite IHa. reflexivity.
Qed.

Lemma resolve_sound e m : forall c, ceval m (resolve e c) = nceval (fun x => bval m (lookup e x)) c.
Proof.
  induction c; simpl; rewrite ?resolve_e_sound; try reflexivity.
  - rewrite IHc1, IHc2. reflexivity.
  - rewrite IHc1, IHc2. reflexivity.
  - rewrite IHc. reflexivity.
Qed.

Theorem closures_are_model_reqs : forall ss e acts m r,
  check_closures (snd (run_stmts ss e)) acts m r = check (compile_reqs ss e) acts m.
Proof.
  induction ss as [|[x b|p c] ss IH]; intros e acts m r; simpl.
  - reflexivity.
  - apply IH.
  - specialize (IH e). destruct (run_stmts ss e) as [e1 ps]. cbn [snd] in *.
    destruct acts as [|a acts]; [reflexivity|]. cbn [check_closures check rcond].
    destruct a.
    + pose proof (closure_sees_captured e p c m r) as H.
      destruct (closure (mkPending p c (capture e c)) m r) as [ok r'] eqn:Ec. cbn [fst] in H.
      rewrite H, resolve_sound, IH. reflexivity.
    + rewrite IH. reflexivity.
Qed.

(* the order of activation/checking is the order of the statements *)
Theorem compile_reqs_prob : forall ss e, map rprob (compile_reqs ss e) = map pprob (snd (run_stmts ss e)).
Proof.
  induction ss as [|[x b|p c] ss IH]; intros e; simpl; [reflexivity|apply IH|].
  specialize (IH e). destruct (run_stmts ss e). simpl in *. rewrite IH. reflexivity.
Qed.
