(* C01 (round 3): numbers of the value model are ints and floats (exact rationals).  The rational
   path of [apply_op] agrees with the integer path, the reflected operators compute the operator
   with the operands exchanged, and exchanging the operands of a non-commutative operator is
   observable (the class of seeded/C01-4). *)
From Coq Require Import QArith ZArith List Bool Lia Qround Qcanon.
From Scenic Require Import C01.Prob C01.ProbProofs C01.Sampler.
Import ListNotations.
Open Scope Q_scope.

(* a rational with an integral value is represented as the integer *)
Lemma mkq_int q z : q == inject_Z z -> mkq q = VZ z.
Proof.
  intros E. unfold mkq. rewrite (Qred_complete _ _ E).
  rewrite (Qred_identity (inject_Z z)) by (simpl; apply Z.gcd_1_r).
  reflexivity.
Qed.

(* [mkq] preserves the value *)
Lemma num_mkq q : exists r, num (mkq q) = Some r /\ r == q.
Proof.
  unfold mkq. destruct (Pos.eqb (Qden (Qred q)) 1) eqn:E.
  - apply Pos.eqb_eq in E. exists (inject_Z (Qnum (Qred q))). split; [reflexivity|].
    rewrite <- (Qred_correct q) at 2. destruct (Qred q) as [n d]. simpl in *. subst d. reflexivity.
  - exists (Qred q). split; [reflexivity|apply Qred_correct].
Qed.

(* the rational path agrees with the integer path on two ints *)
Theorem num_op_int_add a b : num_op OAdd (VZ a) (VZ b) = VZ (a + b).
Proof. apply mkq_int. rewrite inject_Z_plus. reflexivity. Qed.
Theorem num_op_int_sub a b : num_op OSub (VZ a) (VZ b) = VZ (a - b).
Proof. apply mkq_int. unfold Z.sub. rewrite inject_Z_plus, inject_Z_opp. reflexivity. Qed.
Theorem num_op_int_mul a b : num_op OMul (VZ a) (VZ b) = VZ (a * b).
Proof. apply mkq_int. rewrite inject_Z_mult. reflexivity. Qed.
Theorem num_op_int_floordiv a b : b <> 0%Z -> num_op OFloorDiv (VZ a) (VZ b) = VZ (a / b).
Proof.
  intros NZ. unfold num_op, num, unreflect, qarith.
  destruct (Qeq_bool (inject_Z b) 0) eqn:E.
  - apply Qeq_bool_eq in E. unfold Qeq in E. simpl in E. lia.
  - unfold qfloordiv. rewrite <- Zdiv_Qdiv. reflexivity.
Qed.

(* a reflected operator  self.__rop__(other)  computes  other op self *)
Theorem reflected_is_swapped o o' x y :
  unreflect o = Some o' -> apply_op o [x; y] = apply_op o' [y; x].
Proof.
  intros U. destruct o; try discriminate; injection U as <-;
    destruct x, y; try reflexivity.
Qed.

(* ... and that is observable for every non-commutative operator: computing the non-reflected
   operator on exchanged operands (x.__op__(y) replaced by y.__op__(x)) changes the value *)
Theorem swapped_operands_observable :
  Forall (fun o => exists x y, apply_op o [x; y] <> apply_op o [y; x] /\
                               apply_op o [x; y] <> VErr /\ apply_op o [y; x] <> VErr)
         [OSub; ODiv; OFloorDiv; OMod; OPow; ODivmod].
Proof.
  repeat constructor.
  - exists (VZ 1), (VQ (1#2)). vm_compute. repeat split; discriminate.
  - exists (VZ 1), (VQ (1#2)). vm_compute. repeat split; discriminate.
  - exists (VZ 3), (VQ (1#2)). vm_compute. repeat split; discriminate.
  - exists (VZ 3), (VQ (5#2)). vm_compute. repeat split; discriminate.
  - exists (VZ 3), (VZ 2). vm_compute. repeat split; discriminate.
  - exists (VZ 3), (VQ (1#2)). vm_compute. repeat split; discriminate.
Qed.

(* Python's  a % b = a - b * floor(a / b)  and  a = b * (a // b) + a % b  on rationals *)
Theorem qdivmod_identity a b : a == b * inject_Z (qfloordiv a b) + qmod a b.
Proof. unfold qmod. ring. Qed.

(* DiscreteRange.sampleGiven in the sampler model IS the rational-endpoint law of Prob.ndrange_tree *)
Theorem sem_drange a b lo hi : num a = Some lo -> num b = Some hi ->
  sem KDRange [Some a; Some b] = bind (ndrange_tree lo hi) (fun z => Ret (VZ z)).
Proof. intros A B. unfold sem. cbn [all_some]. rewrite A, B. reflexivity. Qed.

(* the weighted DiscreteRange node is Prob.wrange_tree (value low + index) *)
Theorem sem_wrange lo ws :
  teq (sem (KDRangeW lo (accumulate 0 ws)) []) (bind (wrange_tree lo ws) (fun z => Ret (VZ z))).
Proof.
  unfold sem, wrange_tree, weighted_tree. cbn [all_some]. apply teq_sym.
  eapply teq_trans; [apply teq_bind_assoc|]. apply teq_refl.
Qed.
