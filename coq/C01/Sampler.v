(* C01 model: Scenic's scene sampler on the finite-discrete fragment.  Definitions only.
   Mirrors  Samplable.sampleAll / Samplable.sample  (core/distributions.py: identity-keyed memo,
   depth-first through _conditioned._dependencies),  the sampleGiven of every Distribution class
   of the fragment, and  Scenario._generateInner  (core/scenarios.py: soft-requirement activation,
   bounded rejection loop). *)
From Coq Require Import QArith ZArith List Bool NArith Qround Qabs.
From Scenic Require Import C01.Prob.
Import ListNotations.
Open Scope Q_scope.

(* ---- values *)
Inductive val :=
| VZ (z : Z)                    (* int (or a float holding an integer) *)
| VQ (q : Q)                    (* float with a non-integral value (exact rational; see [mkq]) *)
| VT (tag : N) (l : list val)   (* 0 tuple, 1 list, 2 Box(a,b), 3 sampled object (its random properties), 9 bound method *)
| VErr.

Inductive opcode :=
| OAdd | OSub | ORSub | OMul | ONeg | OAbs | OFloorDiv | ORFloorDiv | OMod | ORMod
| ODiv | ORDiv | OPow | ORPow | ODivmod | ORDivmod
| OGetItem | OLen | OId | OMk (tag : N) | OAttr (k : nat) | OCall.

Definition zdiv_ok (a b : Z) (f : Z -> Z -> Z) : val := if Z.eqb b 0 then VErr else VZ (f a b).

(* numbers: ints and floats as exact rationals; a number with an integral value is a [VZ] *)
Definition num (v : val) : option Q :=
  match v with VZ z => Some (inject_Z z) | VQ q => Some q | _ => None end.
Definition mkq (q : Q) : val :=
  let r := Qred q in if Pos.eqb (Qden r) 1 then VZ (Qnum r) else VQ r.
Definition qfloordiv (a b : Q) : Z := Qfloor (a / b).
Definition qmod (a b : Q) : Q := a - b * inject_Z (qfloordiv a b).       (* Python's sign convention *)
(* a op b on two numbers at least one of which is not an int-valued [VZ] pair handled below;
   x ** n only for a non-negative integral exponent *)
Definition qarith (o : opcode) (a b : Q) : val :=
  match o with
  | OAdd => mkq (a + b) | OSub => mkq (a - b) | OMul => mkq (a * b)
  | ODiv => if Qeq_bool b 0 then VErr else mkq (a / b)
  | OFloorDiv => if Qeq_bool b 0 then VErr else VZ (qfloordiv a b)
  | OMod => if Qeq_bool b 0 then VErr else mkq (qmod a b)
  | ODivmod => if Qeq_bool b 0 then VErr else VT 0%N [VZ (qfloordiv a b); mkq (qmod a b)]
  | OPow => match mkq b with
            | VZ n => if Z.ltb n 0 then VErr else mkq (Qpower a n)
            | _ => VErr
            end
  | _ => VErr
  end.
(* the reflected operators compute  other op self *)
Definition unreflect (o : opcode) : option opcode :=
  match o with
  | ORSub => Some OSub | ORFloorDiv => Some OFloorDiv | ORMod => Some OMod | ORDiv => Some ODiv
  | ORPow => Some OPow | ORDivmod => Some ODivmod | _ => None
  end.
Definition num_op (o : opcode) (x y : val) : val :=
  match num x, num y with
  | Some a, Some b =>
      match unreflect o with
      | Some o' => qarith o' b a
      | None => qarith o a b
      end
  | _, _ => VErr
  end.

Definition apply_op (o : opcode) (vs : list val) : val :=
  match o, vs with
  | OAdd, [VZ a; VZ b] => VZ (a + b)
  | OSub, [VZ a; VZ b] => VZ (a - b)
  | ORSub, [VZ a; VZ b] => VZ (b - a)
  | OMul, [VZ a; VZ b] => VZ (a * b)
  | ONeg, [VZ a] => VZ (- a)
  | OAbs, [VZ a] => VZ (Z.abs a)
  | ONeg, [VQ a] => mkq (- a)
  | OAbs, [VQ a] => mkq (Qabs a)
  | OFloorDiv, [VZ a; VZ b] => zdiv_ok a b Z.div
  | ORFloorDiv, [VZ a; VZ b] => zdiv_ok b a Z.div
  | OMod, [VZ a; VZ b] => zdiv_ok a b Z.modulo
  | ORMod, [VZ a; VZ b] => zdiv_ok b a Z.modulo
  | OGetItem, [VT _ l; VZ i] => if Z.ltb i 0 then VErr else nth (Z.to_nat i) l VErr
  | OLen, [VT _ l] => VZ (Z.of_nat (length l))
  | OId, [v] => v
  | OMk tag, _ => VT tag vs
  | OAttr 2, [VT 2%N l] => VT 9%N [VT 2%N l]            (* bound method Box.total *)
  | OAttr k, [VT 2%N l] => nth k l VErr                (* Box.a, Box.b *)
  | OCall, [VT 9%N [VT 2%N [VZ a; VZ b]]; VZ k] => VZ (a + b + k)
  | (OAdd | OSub | ORSub | OMul | OFloorDiv | ORFloorDiv | OMod | ORMod
     | ODiv | ORDiv | OPow | ORPow | ODivmod | ORDivmod), [x; y] => num_op o x y
  | _, _ => VErr
  end.

(* helper functions of the test programs (harness/verif_c01_helpers.py) *)
Definition apply_fun (f : N) (vs : list val) : val :=
  match f, vs with
  | 0%N, [VZ a; VZ b] => VZ (10 * a + b)                (* comb *)
  | 1%N, [a; b] => VT 2%N [a; b]                        (* mkbox *)
  | 2%N, [a; b] => VT 1%N [a; b]                        (* pair: a list *)
  | 3%N, [VZ a; VZ b; VZ c] => VZ (a + 2 * b + 3 * c)   (* plain3 *)
  | 4%N, [VZ a; VZ b] => VZ (a + 2 * b)                 (* plain2 *)
  | _, _ => VErr
  end.

(* arguments with iterable unpacking: a starred argument contributes the elements of its value *)
Fixpoint expand (starred : list bool) (vs : list val) : option (list val) :=
  match vs with
  | [] => Some []
  | v :: r =>
      let s := match starred with b :: _ => b | [] => false end in
      match expand (tl starred) r with
      | None => None
      | Some r' => if s then match v with VT _ l => Some (l ++ r') | _ => None end else Some (v :: r')
      end
  end.

(* ---- nodes.  [args] lists the operands in the order of the object's _dependencies
   (constants included as KConst nodes: visiting one draws nothing). *)
Inductive nkind :=
| KConst (v : val)
| KDRange                               (* DiscreteRange(low, high), unweighted; args [low; high] *)
| KDRangeW (lo : Z) (cum : list Q)      (* weighted DiscreteRange: constant bounds, cumulative weights *)
| KMux                                  (* MultiplexerDistribution / Options: args index :: options *)
| KUniStar (starred : list bool)        (* UniformDistribution: args options ++ [selector] *)
| KOp (o : opcode)                      (* operator / attribute / tuple / starred / typechecked *)
| KFun (f : N) (starred : list bool)    (* FunctionDistribution *)
| KObj.                                 (* Constructible: args = its random properties *)

Record node := mkNode { kind : nkind; args : list nat }.
Definition dag := list node.
Definition memo := list (option val).

Definition get (m : memo) (i : nat) : option val := nth i m None.
Fixpoint upd (m : memo) (i : nat) (v : val) : memo :=
  match m, i with
  | [], _ => []
  | _ :: r, O => Some v :: r
  | x :: r, S j => x :: upd r j v
  end.
Definition has (m : memo) (i : nat) : bool := match get m i with Some _ => true | None => false end.
Definition node_at (g : dag) (i : nat) : node := nth i g (mkNode (KConst VErr) []).

Fixpoint all_some {X : Type} (l : list (option X)) : option (list X) :=
  match l with
  | [] => Some []
  | None :: _ => None
  | Some x :: r => match all_some r with Some r' => Some (x :: r') | None => None end
  end.

(* sampleGiven: the value of a node given the values of its dependencies *)
Definition sem (k : nkind) (ovs : list (option val)) : ptree val :=
  match all_some ovs with
  | None => Rej
  | Some vs =>
      match k with
      | KConst v => Ret v
      | KDRange =>
          match vs with
          | [a; b] =>
              match num a, num b with
              | Some lo, Some hi =>                          (* ceil(low) .. floor(high), Rej when empty *)
                  bind (ndrange_tree lo hi) (fun z => Ret (VZ z))
              | _, _ => Ret VErr
              end
          | _ => Ret VErr
          end
      | KDRangeW lo cum => bind (choices_tree cum) (fun k => Ret (VZ (lo + k)))
      | KMux =>
          match vs with
          | VZ i :: opts => Ret (if Z.ltb i 0 then VErr else nth (Z.to_nat i) opts VErr)
          | _ => Ret VErr
          end
      | KUniStar starred =>
          match expand starred (removelast vs), last vs VErr with
          | Some opts, VZ i => Ret (if Z.ltb i 0 then VErr else nth (Z.to_nat i) opts VErr)
          | _, _ => Ret VErr
          end
      | KOp o => Ret (apply_op o vs)
      | KFun f starred =>
          match expand starred vs with Some vs' => Ret (apply_fun f vs') | None => Ret VErr end
      | KObj => Ret (VT 3%N vs)
      end
  end.

Definition draw (g : dag) (i : nat) (m : memo) : ptree val :=
  sem (kind (node_at g i)) (map (get m) (args (node_at g i))).

(* `for child in deps: if child not in subsamples: subsamples[child] = child.sample(subsamples)` *)
Fixpoint fold_visit (F : nat -> memo -> ptree memo) (l : list nat) (m : memo) : ptree memo :=
  match l with
  | [] => Ret m
  | c :: cs => bind (F c m) (fold_visit F cs)
  end.

(* Samplable.sample with the caller's `not in subsamples` test; fuel exhaustion (impossible on a
   DAG whose fuel is its size, see SamplerProofs.sampler_is_prior) counts as rejection *)
Fixpoint visit (fuel : nat) (g : dag) (i : nat) (m : memo) : ptree memo :=
  match fuel with
  | O => Rej
  | S f =>
      if has m i then Ret m
      else bind (fold_visit (visit f g) (args (node_at g i)) m)
             (fun m' => bind (draw g i m') (fun v => Ret (upd m' i v)))
  end.

Definition empty_memo (g : dag) : memo := repeat None (length g).

(* Samplable.sampleAll(self.dependencies) *)
Definition sample_all (g : dag) (deps : list nat) : ptree memo :=
  fold_visit (visit (length g) g) deps (empty_memo g).

(* ---- requirements: a condition over the nodes bound to its names when the statement ran *)
Inductive rexpr :=
| RNode (i : nat) | RConst (v : val)
| RBin (o : opcode) (a b : rexpr) | RUn (o : opcode) (a : rexpr).
Inductive cond :=
| CTrue
| CLt (a b : rexpr) | CLe (a b : rexpr) | CEq (a b : rexpr) | CNe (a b : rexpr)
| CAnd (c d : cond) | COr (c d : cond) | CNot (c : cond).
Record req := mkReq { rprob : Q; rcond : cond }.

Fixpoint reval (m : memo) (e : rexpr) : val :=
  match e with
  | RNode i => match get m i with Some v => v | None => VErr end
  | RConst v => v
  | RBin o a b => apply_op o [reval m a; reval m b]
  | RUn o a => apply_op o [reval m a]
  end.
Definition vlt (a b : val) : bool :=
  match num a, num b with Some x, Some y => negb (Qle_bool y x) | _, _ => false end.
Definition vle (a b : val) : bool :=
  match num a, num b with Some x, Some y => Qle_bool x y | _, _ => false end.
Fixpoint val_eqb (a b : val) : bool :=
  match a, b with
  | VZ x, VZ y => Z.eqb x y
  | VQ x, VQ y => Qeq_bool x y
  | VZ x, VQ y => Qeq_bool (inject_Z x) y
  | VQ x, VZ y => Qeq_bool x (inject_Z y)
  | VT s l, VT t r =>
      N.eqb s t &&
      (fix go (l r : list val) : bool :=
         match l, r with
         | [], [] => true
         | x :: l', y :: r' => val_eqb x y && go l' r'
         | _, _ => false
         end) l r
  | VErr, VErr => true
  | _, _ => false
  end.
Fixpoint ceval (m : memo) (c : cond) : bool :=
  match c with
  | CTrue => true
  | CLt a b => vlt (reval m a) (reval m b)
  | CLe a b => vle (reval m a) (reval m b)
  | CEq a b => val_eqb (reval m a) (reval m b)
  | CNe a b => negb (val_eqb (reval m a) (reval m b))
  | CAnd c d => ceval m c && ceval m d
  | COr c d => ceval m c || ceval m d
  | CNot c => negb (ceval m c)
  end.

(* `for req in self.userRequirements: req.active = random.random() <= req.prob` *)
Fixpoint activate (rs : list req) : ptree (list bool) :=
  match rs with
  | [] => Ret []
  | r :: rs' => bind (bern_tree (rprob r)) (fun b => bind (activate rs') (fun bs => Ret (b :: bs)))
  end.

(* the checker accepts iff every active requirement holds *)
Fixpoint check (rs : list req) (acts : list bool) (m : memo) : bool :=
  match rs, acts with
  | r :: rs', a :: acts' => (if a then ceval m (rcond r) else true) && check rs' acts' m
  | _, _ => true
  end.

(* one iteration of the loop: sample everything, then check *)
Definition attempt (g : dag) (deps : list nat) (rs : list req) (acts : list bool) : ptree memo :=
  bind (sample_all g deps) (fun m => if check rs acts m then Ret m else Rej).

(* at most n attempts; the result carries the number of the successful attempt *)
Fixpoint retry {A : Type} (t : ptree A) (n : nat) (k : nat) : ptree (A * nat) :=
  match n with
  | O => Rej                                             (* raise RejectionException *)
  | S n' => catch (bind t (fun a => Ret (a, k))) (retry t n' (S k))
  end.

(* Scenario._generateInner(maxIterations = n, ...) *)
Definition generate_inner (g : dag) (deps : list nat) (rs : list req) (n : nat) : ptree (memo * nat) :=
  bind (activate rs) (fun acts => retry (attempt g deps rs acts) n 1).

(* ---- schedules: drawing nodes in a given order, no memo test *)
Fixpoint draw_seq (g : dag) (l : list nat) (m : memo) : ptree memo :=
  match l with
  | [] => Ret m
  | i :: r => bind (draw g i m) (fun v => draw_seq g r (upd m i v))
  end.

Definition memb (i : nat) (l : list nat) : bool := existsb (Nat.eqb i) l.

(* the order in which the memoised depth-first sampler draws (pure: independent of the values) *)
Fixpoint ord_list (F : nat -> list nat -> list nat) (l : list nat) (vis : list nat) : list nat :=
  match l with
  | [] => []
  | c :: cs => let n1 := F c vis in n1 ++ ord_list F cs (n1 ++ vis)
  end.
Fixpoint ord (fuel : nat) (g : dag) (i : nat) (vis : list nat) : list nat :=
  match fuel with
  | O => []
  | S f => if memb i vis then [] else ord_list (ord f g) (args (node_at g i)) vis ++ [i]
  end.
Definition dfs_order (g : dag) (deps : list nat) : list nat := ord_list (ord (length g) g) deps [].

(* creation order: every operand was built before the node that uses it *)
Definition wf_dag (g : dag) : Prop :=
  forall i, (i < length g)%nat -> forall a, In a (args (node_at g i)) -> (a < i)%nat.
Definition wf_dagb (g : dag) : bool :=
  forallb (fun i => forallb (fun a => Nat.ltb a i) (args (node_at g i))) (seq 0 (length g)).

(* a valid schedule from the visited set [vis]: no node twice, operands first *)
Fixpoint valid (g : dag) (vis : list nat) (l : list nat) : Prop :=
  match l with
  | [] => True
  | i :: r => ~ In i vis /\ (forall a, In a (args (node_at g i)) -> In a vis) /\ valid g (i :: vis) r
  end.

(* weighted nodes carry well-formed cumulative weights: non-decreasing from 0, positive total
   (DiscreteRange: weights >= 0 accumulated; Options drops zero weights and rejects an empty domain) *)
Fixpoint mono (prev : Q) (cum : list Q) : bool :=
  match cum with [] => true | c :: r => Qle_bool prev c && mono c r end.
Definition good_cum (cum : list Q) : bool := mono 0 cum && negb (Qle_bool (last cum 0) 0).
Definition good_kind (k : nkind) : bool := match k with KDRangeW _ cum => good_cum cum | _ => true end.
Definition good_dagb (g : dag) : bool := forallb (fun n => good_kind (kind n)) g.
