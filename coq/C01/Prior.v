(* C01 specification: the program's prior, defined denotationally — every needed random value is
   drawn exactly once from its stated distribution given its operands' values, in creation
   (topological) order; no memo, no notion of sampling order.  Conditioning on requirements and
   the soft-requirement mixture are stated on top of it. *)
From Coq Require Import QArith ZArith List Bool.
From Scenic Require Import C01.Prob C01.Sampler.
Import ListNotations.
Open Scope Q_scope.

(* nodes needed for the scene: backward closure of the dependencies under "is an operand of",
   computed by one sweep from the last node to the first (operands precede their users) *)
Fixpoint reach_sweep (g : dag) (k : nat) (marked : list nat) : list nat :=
  match k with
  | O => marked
  | S k' => reach_sweep g k' (if memb k' marked then args (node_at g k') ++ marked else marked)
  end.
Definition needed (g : dag) (deps : list nat) : list nat := reach_sweep g (length g) deps.

Definition prior_order (g : dag) (deps : list nat) : list nat :=
  filter (fun i => memb i (needed g deps)) (seq 0 (length g)).

Definition prior (g : dag) (deps : list nat) : ptree memo :=
  draw_seq g (prior_order g deps) (empty_memo g).

(* probability that soft requirements are enforced exactly as in [acts] *)
Fixpoint act_prob (rs : list req) (acts : list bool) : Q :=
  match rs, acts with
  | r :: rs', a :: acts' =>
      let p := if Qle_bool 1 (rprob r) then 1 else if Qle_bool (rprob r) 0 then 0 else rprob r in
      (if a then p else 1 - p) * act_prob rs' acts'
  | [], [] => 1
  | _, _ => 0
  end.

(* prior probability of "f holds and every enforced requirement holds" *)
Definition joint (g : dag) (deps : list nat) (rs : list req) (acts : list bool) (f : memo -> bool) : Q :=
  expect (fun m => ind (check rs acts m && f m)) (prior g deps).
(* per-attempt acceptance probability *)
Definition accept (g : dag) (deps : list nat) (rs : list req) (acts : list bool) : Q :=
  joint g deps rs acts (fun _ => true).

Fixpoint qpow (r : Q) (n : nat) : Q := match n with O => 1 | S k => r * qpow r k end.
Fixpoint geom (r : Q) (n : nat) : Q := match n with O => 0 | S k => 1 + r * geom r k end.

Definition same_set (a b : list nat) : Prop := forall j, In j a <-> In j b.
Definition same_setb (a b : list nat) : bool :=
  forallb (fun j => memb j b) a && forallb (fun j => memb j a) b.
