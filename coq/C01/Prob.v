(* C01/C19 shared device: finite probability trees with exact rational weights.
   Definitions only (total, computable).  A [Choice] is one call to Python's RNG; its label says
   which call (function and arguments), its branches are the possible results in a fixed order
   with their exact probabilities.  [Rej] is a RejectionException / rejected simulation. *)
From Coq Require Import QArith ZArith List Bool Qround.
Import ListNotations.
Open Scope Q_scope.

Inductive label :=
| LRandint (lo hi : Z)          (* random.randint(lo, hi): branch k returns lo+k *)
| LChoices (cum : list Q)       (* random.choices(pop, cum_weights=cum): branch k returns pop[k] *)
| LBern (p : Q)                 (* random.random() <= p : branch 0 = True, branch 1 = False *)
| LChoice (n : Z).              (* random.choice / randrange(n): branch k returns item k *)

Inductive ptree (A : Type) : Type :=
| Ret (a : A)
| Rej
| Choice (l : label) (bs : list (Q * ptree A)).
Arguments Ret {A} a.
Arguments Rej {A}.
Arguments Choice {A} l bs.

(* weighted sum over a list *)
Fixpoint wsum {B : Type} (w : B -> Q) (l : list B) : Q :=
  match l with [] => 0 | b :: r => w b + wsum w r end.

(* expectation of [h] over the results of [t]; a rejected branch contributes 0 *)
Fixpoint expect {A : Type} (h : A -> Q) (t : ptree A) : Q :=
  match t with
  | Ret a => h a
  | Rej => 0
  | Choice _ bs =>
      (fix go (bs : list (Q * ptree A)) : Q :=
         match bs with [] => 0 | (q, t') :: r => q * expect h t' + go r end) bs
  end.

Definition ind (b : bool) : Q := if b then 1 else 0.
(* probability that the result satisfies f *)
Definition mass {A : Type} (f : A -> bool) (t : ptree A) : Q := expect (fun a => ind (f a)) t.

(* probability of rejection *)
Fixpoint rejmass {A : Type} (t : ptree A) : Q :=
  match t with
  | Ret _ => 0
  | Rej => 1
  | Choice _ bs =>
      (fix go (bs : list (Q * ptree A)) : Q :=
         match bs with [] => 0 | (q, t') :: r => q * rejmass t' + go r end) bs
  end.

Fixpoint bind {A B : Type} (t : ptree A) (k : A -> ptree B) : ptree B :=
  match t with
  | Ret a => k a
  | Rej => Rej
  | Choice l bs =>
      Choice l ((fix go (bs : list (Q * ptree A)) : list (Q * ptree B) :=
                   match bs with [] => [] | (q, t') :: r => (q, bind t' k) :: go r end) bs)
  end.

(* try t; on rejection continue with t2 (the `except RejectionException: continue` of the loop) *)
Fixpoint catch {A : Type} (t t2 : ptree A) : ptree A :=
  match t with
  | Ret a => Ret a
  | Rej => t2
  | Choice l bs =>
      Choice l ((fix go (bs : list (Q * ptree A)) : list (Q * ptree A) :=
                   match bs with [] => [] | (q, t') :: r => (q, catch t' t2) :: go r end) bs)
  end.

(* follow one RNG path (branch numbers); result: the log of calls made and the outcome *)
Fixpoint run {A : Type} (t : ptree A) (path : list nat) : option (list (label * nat) * option A) :=
  match t with
  | Ret a => Some ([], Some a)
  | Rej => Some ([], None)
  | Choice l bs =>
      match path with
      | [] => None
      | k :: path' =>
          (fix go (bs : list (Q * ptree A)) (j : nat) : option (list (label * nat) * option A) :=
             match bs with
             | [] => None
             | (q, t') :: r =>
                 if Nat.eqb j k then
                   match run t' path' with
                   | Some (lg, o) => Some ((l, k) :: lg, o)
                   | None => None
                   end
                 else go r (S j)
             end) bs O
      end
  end.

(* all paths of positive probability: (call log, probability, outcome) *)
Fixpoint paths {A : Type} (t : ptree A) : list (list (label * nat) * Q * option A) :=
  match t with
  | Ret a => [([], 1, Some a)]
  | Rej => [([], 1, None)]
  | Choice l bs =>
      (fix go (bs : list (Q * ptree A)) (j : nat) : list (list (label * nat) * Q * option A) :=
         match bs with
         | [] => []
         | (q, t') :: r =>
             (if Qle_bool q 0 then []
              else map (fun x => match x with (lg, p, o) => ((l, j) :: lg, Qred (q * p), o) end) (paths t'))
             ++ go r (S j)
         end) bs O
  end.

(* well-formed: every Choice has non-negative weights summing to 1 *)
Fixpoint wf_tree {A : Type} (t : ptree A) : Prop :=
  match t with
  | Ret _ => True
  | Rej => True
  | Choice _ bs =>
      wsum fst bs == 1 /\
      (fix go (bs : list (Q * ptree A)) : Prop :=
         match bs with [] => True | (q, t') :: r => 0 <= q /\ wf_tree t' /\ go r end) bs
  end.

(* every result of t satisfies P *)
Fixpoint leaves {A : Type} (P : A -> Prop) (t : ptree A) : Prop :=
  match t with
  | Ret a => P a
  | Rej => True
  | Choice _ bs =>
      (fix go (bs : list (Q * ptree A)) : Prop :=
         match bs with [] => True | (q, t') :: r => leaves P t' /\ go r end) bs
  end.

(* equality as distributions *)
Definition teq {A : Type} (t1 t2 : ptree A) : Prop := forall h, expect h t1 == expect h t2.

(* ---- the RNG calls Scenic makes, as trees *)
Fixpoint zrange (lo : Z) (n : nat) : list Z :=
  match n with O => [] | S m => lo :: zrange (lo + 1) m end.

(* n equally likely branches *)
Definition uniform_tree (l : label) (vals : list Z) : ptree Z :=
  Choice l (map (fun v => (1 / inject_Z (Z.of_nat (length vals)), Ret v)) vals).

(* random.randint(lo, hi) with lo <= hi *)
Definition randint_tree (lo hi : Z) : ptree Z :=
  uniform_tree (LRandint lo hi) (zrange lo (Z.to_nat (hi - lo + 1))).

(* DiscreteRange(low, high).sampleGiven, unweighted, for arbitrary (rational) endpoint values:
   left, right = math.ceil(low), math.floor(high); RejectionException when right < left;
   else random.randint(left, right) *)
Definition ndrange_tree (lo hi : Q) : ptree Z :=
  let l := Qceiling lo in
  let r := Qfloor hi in
  if Z.ltb r l then Rej else randint_tree l r.

(* successive differences of cumulative weights *)
Fixpoint diffs (prev : Q) (cum : list Q) : list Q :=
  match cum with [] => [] | c :: r => (c - prev) :: diffs c r end.

(* random.choices(range(n), cum_weights=cum)[0]: index k with probability (cum[k]-cum[k-1])/total *)
Definition choices_tree (cum : list Q) : ptree Z :=
  let total := last cum 0 in
  Choice (LChoices cum)
    (map (fun kw => (snd kw / total, Ret (fst kw))) (combine (zrange 0 (length cum)) (diffs 0 cum))).

(* itertools.accumulate *)
Fixpoint accumulate (acc : Q) (ws : list Q) : list Q :=
  match ws with [] => [] | w :: r => (acc + w) :: accumulate (acc + w) r end.

Definition weighted_tree (ws : list Q) : ptree Z := choices_tree (accumulate 0 ws).

(* weighted DiscreteRange(lo, lo + n - 1, weights = ws).sampleGiven:
   random.choices(range(lo, hi + 1), cum_weights = accumulate(ws))[0]  (zero weights are kept) *)
Definition wrange_tree (lo : Z) (ws : list Q) : ptree Z :=
  bind (weighted_tree ws) (fun k => Ret (lo + k)%Z).

(* random.random() <= p *)
Definition bern_tree (p : Q) : ptree bool :=
  let p' := if Qle_bool 1 p then 1 else if Qle_bool p 0 then 0 else p in
  Choice (LBern p) [(p', Ret true); (1 - p', Ret false)].

(* bisect.bisect_right(a, x, 0, hi) as CPython implements it (binary search, fuel = len a) *)
Fixpoint bisect_loop (fuel : nat) (a : list Q) (x : Q) (lo hi : nat) : nat :=
  match fuel with
  | O => lo
  | S f =>
      if Nat.ltb lo hi then
        let mid := Nat.div2 (lo + hi) in
        if Qlt_le_dec x (nth mid a 0) then bisect_loop f a x lo mid
        else bisect_loop f a x (S mid) hi
      else lo
  end.
Definition bisect_right (a : list Q) (x : Q) (hi : nat) : nat := bisect_loop (S (length a)) a x 0 hi.
(* random.choices: population[bisect(cum_weights, random() * total, 0, n - 1)], u = random() *)
Definition choices_index (cum : list Q) (u : Q) : nat :=
  bisect_right cum (u * last cum 0) (length cum - 1).
