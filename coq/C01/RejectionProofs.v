(* Exact law of the bounded rejection loop, for every bound n: geometric attempt count, result
   distribution independent of n, and its reading in terms of the prior. *)
From Coq Require Import QArith ZArith List Bool Lia.
From Scenic Require Import C01.Prob C01.ProbProofs C01.Sampler C01.Prior C01.SamplerProofs.
Import ListNotations.
Open Scope Q_scope.

Lemma rejmass_tag {A} (t : ptree A) (k : nat) : rejmass (bind t (fun a => Ret (a, k))) == rejmass t.
Proof. rewrite rejmass_bind. simpl. rewrite expect_zero. ring. Qed.

(* P(retry returns (a, k+j)) = r^j * P_t(a)   for j < n,   r = per-attempt rejection probability *)
Theorem retry_law {A} (t : ptree A) : forall n k (h : A * nat -> Q),
  expect h (retry t n k) ==
  wsum (fun j => qpow (rejmass t) j * expect (fun a => h (a, (k + j)%nat)) t) (seq 0 n).
Proof.
  induction n as [|n IH]; intros k h.
  - simpl. reflexivity.
  - simpl retry. rewrite expect_catch, expect_bind, rejmass_tag, IH.
    change (seq 0 (S n)) with (0%nat :: seq 1 n). rewrite <- seq_shift.
    cbn [wsum]. rewrite (wsum_map S). apply Qplus_comp.
    + simpl qpow. rewrite Qmult_1_l. apply expect_ext. intros a. simpl. rewrite Nat.add_0_r. reflexivity.
    + rewrite <- wsum_scale. apply wsum_ext. apply Forall_forall. intros j _.
      simpl qpow. rewrite <- Qmult_assoc. apply Qmult_comp; [reflexivity|].
      apply Qmult_comp; [reflexivity|]. apply expect_ext. intros a.
      rewrite Nat.add_succ_r. reflexivity.
Qed.

Definition geomsum (r : Q) (n : nat) : Q := wsum (qpow r) (seq 0 n).

Theorem retry_marginal {A} (t : ptree A) n k (h : A -> Q) :
  expect (fun x => h (fst x)) (retry t n k) == geomsum (rejmass t) n * expect h t.
Proof.
  rewrite retry_law. unfold geomsum. rewrite <- wsum_scale_r.
  apply wsum_ext. apply Forall_forall. intros j _. simpl. reflexivity.
Qed.

(* the distribution of the returned value, given that something is returned, does not depend on
   the bound (stated cross-multiplied: P_n1(h) * P_n2(returned) = P_n2(h) * P_n1(returned)) *)
Theorem conditional_independent_of_bound {A} (t : ptree A) n1 n2 k1 k2 (h : A -> Q) :
  expect (fun x => h (fst x)) (retry t n1 k1) * expect (fun _ => 1) (retry t n2 k2) ==
  expect (fun x => h (fst x)) (retry t n2 k2) * expect (fun _ => 1) (retry t n1 k1).
Proof.
  rewrite !(retry_marginal t _ _ h).
  rewrite !(retry_marginal t _ _ (fun _ => 1)). ring.
Qed.

(* ... and equals the attempt's accepted distribution renormalised *)
Theorem conditional_is_attempt {A} (t : ptree A) n k (h : A -> Q) :
  expect (fun x => h (fst x)) (retry t n k) * expect (fun _ => 1) t ==
  expect h t * expect (fun _ => 1) (retry t n k).
Proof.
  rewrite (retry_marginal t _ _ h), (retry_marginal t _ _ (fun _ => 1)). ring.
Qed.

Lemma wsum_single (w : nat -> Q) j : forall l, NoDup l -> In j l ->
  (forall i, In i l -> i <> j -> w i == 0) -> wsum w l == w j.
Proof.
  induction l as [|x l IH]; intros ND Hin Z; [destruct Hin|].
  inversion ND; subst. simpl. destruct Hin as [->|Hin].
  - assert (E : wsum w l == 0).
    { transitivity (wsum (fun _ : nat => 0) l); [|apply wsum_zero].
      apply wsum_ext. apply Forall_forall. intros i Hi. apply Z; [right; exact Hi|].
      intro. subst. contradiction. }
    rewrite E. ring.
  - rewrite IH; [|assumption|assumption|intros i Hi; apply Z; right; exact Hi].
    rewrite (Z x); [ring|left; reflexivity|intro; subst; contradiction].
Qed.

(* pointwise: the j-th attempt (counted from k) returns a value satisfying f with probability r^j * P_t(f) *)
Theorem retry_point {A} (t : ptree A) n k j (f : A -> bool) : (j < n)%nat ->
  expect (fun x => ind (f (fst x) && Nat.eqb (snd x) (k + j))) (retry t n k) ==
  qpow (rejmass t) j * mass f t.
Proof.
  intros L. rewrite retry_law.
  rewrite (wsum_single _ j); [|apply seq_NoDup|apply in_seq; lia|].
  - apply Qmult_comp; [reflexivity|]. unfold mass. apply expect_ext. intros a. simpl.
    rewrite Nat.eqb_refl, andb_true_r. reflexivity.
  - intros i _ N.
    assert (E : expect (fun a => ind (f (fst (a, (k + i)%nat)) && Nat.eqb (snd (a, (k + i)%nat)) (k + j))) t == 0).
    { transitivity (expect (fun _ : A => 0) t); [|apply expect_zero]. apply expect_ext. intros a. simpl.
      replace (Nat.eqb (k + i) (k + j)) with false; [rewrite andb_false_r; reflexivity|].
      symmetry. apply Nat.eqb_neq. lia. }
    rewrite E. ring.
Qed.

Lemma geom_closed r n : (1 - r) * geomsum r n == 1 - qpow r n.
Proof.
  unfold geomsum. induction n as [|n IH]; [simpl; ring|].
  rewrite seq_S, wsum_app. simpl wsum. simpl qpow.
  rewrite Qmult_plus_distr_r, IH.
  assert (E : forall m, qpow r (0 + m) == qpow r m) by (intros; reflexivity).
  simpl. ring.
Qed.

(* with a well-formed attempt tree: P(loop gives up after n attempts) = r^n *)
Theorem retry_gives_up {A} (t : ptree A) n k :
  wf_tree t -> expect (fun _ => 1) (retry t n k) == 1 - qpow (rejmass t) n.
Proof.
  intros W. rewrite (retry_marginal t n k (fun _ => 1)).
  rewrite <- geom_closed. pose proof (wf_total t W) as T.
  assert (E : expect (fun _ : A => 1) t == 1 - rejmass t) by (rewrite <- T; ring).
  rewrite E. ring.
Qed.

(* ---- soft requirements: each enforced independently with its probability *)
Lemma expect_bern p (h : bool -> Q) :
  expect h (bern_tree p) ==
  (if Qle_bool 1 p then 1 else if Qle_bool p 0 then 0 else p) * h true +
  (1 - (if Qle_bool 1 p then 1 else if Qle_bool p 0 then 0 else p)) * h false.
Proof. unfold bern_tree. simpl. ring. Qed.

Fixpoint all_acts (n : nat) : list (list bool) :=
  match n with
  | O => [[]]
  | S k => map (cons true) (all_acts k) ++ map (cons false) (all_acts k)
  end.

Theorem activate_law (rs : list req) : forall (F : list bool -> Q),
  expect F (activate rs) == wsum (fun acts => act_prob rs acts * F acts) (all_acts (length rs)).
Proof.
  induction rs as [|r rs IH]; intros F.
  - simpl. ring.
  - cbn [activate]. rewrite expect_bind, expect_bern.
    simpl length. simpl all_acts. rewrite wsum_app, !wsum_map.
    set (p := if Qle_bool 1 (rprob r) then 1 else if Qle_bool (rprob r) 0 then 0 else rprob r).
    apply Qplus_comp.
    + rewrite expect_bind. simpl. rewrite (IH (fun bs => F (true :: bs))).
      rewrite <- wsum_scale. apply wsum_ext. apply Forall_forall. intros a _. simpl. fold p. ring.
    + rewrite expect_bind. simpl. rewrite (IH (fun bs => F (false :: bs))).
      rewrite <- wsum_scale. apply wsum_ext. apply Forall_forall. intros a _. simpl. fold p. ring.
Qed.

(* the generator is the mixture over enforcement patterns of the bounded rejection loops *)
Theorem generate_mixture g deps rs n (h : memo * nat -> Q) :
  expect h (generate_inner g deps rs n) ==
  wsum (fun acts => act_prob rs acts * expect h (retry (attempt g deps rs acts) n 1))
       (all_acts (length rs)).
Proof. unfold generate_inner. rewrite expect_bind. apply activate_law. Qed.

(* ---- in terms of the prior *)
Section WithPrior.
  Variable g : dag.
  Variable deps : list nat.
  Hypothesis W : wf_dag g.
  Hypothesis D : forall d, In d deps -> (d < length g)%nat.
  Hypothesis SS : same_set (needed g deps) (dfs_order g deps).

  (* one attempt = the prior restricted to "every enforced requirement holds" *)
  Theorem attempt_conditioned_prior rs acts (h : memo -> Q) :
    expect h (attempt g deps rs acts) ==
    expect (fun m => ind (check rs acts m) * h m) (prior g deps).
  Proof.
    unfold attempt. rewrite expect_bind.
    rewrite (sampler_is_prior_given_reach g deps W D SS
               (fun m => expect h (if check rs acts m then Ret m else Rej))).
    apply expect_ext. intros m. destruct (check rs acts m); simpl; ring.
  Qed.

  (* P(scene satisfies f and is returned at attempt j+1 | enforcement pattern)
     = prior(f and requirements) * (per-attempt rejection probability)^j, for every bound n > j *)
  Theorem rejection_exact rs acts n j (f : memo -> bool) : (j < n)%nat ->
    expect (fun x => ind (f (fst x) && Nat.eqb (snd x) (S j))) (retry (attempt g deps rs acts) n 1) ==
    joint g deps rs acts f * qpow (rejmass (attempt g deps rs acts)) j.
  Proof.
    intros L. rewrite (retry_point _ n 1 j f L). unfold mass, joint.
    rewrite attempt_conditioned_prior. rewrite Qmult_comm. apply Qmult_comp; [|reflexivity].
    apply expect_ext. intros m. destruct (check rs acts m), (f m); simpl; ring.
  Qed.

  Theorem rejection_probability rs acts :
    wf_tree (attempt g deps rs acts) ->
    rejmass (attempt g deps rs acts) == 1 - accept g deps rs acts.
  Proof.
    intros Wt. pose proof (wf_total _ Wt) as T.
    rewrite (attempt_conditioned_prior rs acts (fun _ => 1)) in T.
    unfold accept, joint. rewrite <- T.
    assert (E : expect (fun m => ind (check rs acts m && true)) (prior g deps) ==
                expect (fun m => ind (check rs acts m) * 1) (prior g deps)).
    { apply expect_ext. intros m. rewrite andb_true_r. ring. }
    rewrite E. ring.
  Qed.

  (* the returned scene is distributed as the prior conditioned on the enforced requirements,
     whatever the bound n (cross-multiplied form of  P(f | returned) = prior(f | ok)) *)
  Theorem returned_is_conditioned_prior rs acts n (f : memo -> bool) :
    expect (fun x => ind (f (fst x))) (retry (attempt g deps rs acts) n 1) * accept g deps rs acts ==
    joint g deps rs acts f * expect (fun _ => 1) (retry (attempt g deps rs acts) n 1).
  Proof.
    pose proof (conditional_is_attempt (attempt g deps rs acts) n 1 (fun m => ind (f m))) as C.
    rewrite !attempt_conditioned_prior in C.
    unfold accept, joint.
    assert (E1 : expect (fun m => ind (check rs acts m && true)) (prior g deps) ==
                 expect (fun m => ind (check rs acts m) * 1) (prior g deps)).
    { apply expect_ext. intros m. rewrite andb_true_r. ring. }
    assert (E2 : expect (fun m => ind (check rs acts m && f m)) (prior g deps) ==
                 expect (fun m => ind (check rs acts m) * ind (f m)) (prior g deps)).
    { apply expect_ext. intros m. destruct (check rs acts m), (f m); simpl; ring. }
    rewrite E1, E2. exact C.
  Qed.
End WithPrior.
