(* C01/C19 (round 3): the law of DiscreteRange.sampleGiven for ARBITRARY rational endpoint values
   (unweighted: ceil of the low endpoint, floor of the high one, rejection when no integer lies
   between them) and of the weighted form with a non-zero low endpoint. *)
From Coq Require Import QArith ZArith List Bool Lia Lqa Qround.
From Scenic Require Import C01.Prob C01.ProbProofs C01.ChoiceProofs C01.WfProofs.
Import ListNotations.
Open Scope Q_scope.

(* the integers between two rationals are exactly ceil(lo) .. floor(hi) *)
Lemma int_between lo hi k :
  (lo <= inject_Z k /\ inject_Z k <= hi) <-> (Qceiling lo <= k <= Qfloor hi)%Z.
Proof.
  split.
  - intros [L H]. split.
    + rewrite <- (Qceiling_Z k). apply Qceiling_resp_le. exact L.
    + rewrite <- (Qfloor_Z k). apply Qfloor_resp_le. exact H.
  - intros [L H]. split.
    + eapply Qle_trans; [apply Qle_ceiling|]. rewrite <- Zle_Qle. exact L.
    + eapply Qle_trans; [|apply Qfloor_le]. rewrite <- Zle_Qle. exact H.
Qed.

Definition in_range (lo hi : Q) (k : Z) : bool :=
  Qle_bool lo (inject_Z k) && Qle_bool (inject_Z k) hi.

Lemma in_range_spec lo hi k :
  in_range lo hi k = true <-> (Qceiling lo <= k <= Qfloor hi)%Z.
Proof.
  unfold in_range. rewrite andb_true_iff, !Qle_bool_iff. apply int_between.
Qed.

Lemma zrange_len : forall n lo, length (zrange lo n) = n.
Proof. induction n; intros lo; simpl; [reflexivity|]. rewrite IHn. reflexivity. Qed.

Lemma zrange_In : forall n lo x, In x (zrange lo n) <-> (lo <= x < lo + Z.of_nat n)%Z.
Proof.
  induction n as [|n IH]; intros lo x.
  - simpl. lia.
  - cbn [zrange In]. rewrite IH. lia.
Qed.

Lemma zrange_NoDup : forall n lo, NoDup (zrange lo n).
Proof.
  induction n as [|n IH]; intros lo; [constructor|]. cbn [zrange]. constructor; [|apply IH].
  rewrite zrange_In. lia.
Qed.

(* number of occurrences of k in lo, lo+1, ..., lo+n-1 *)
Lemma wsum_ind_zrange k : forall n lo,
  wsum (fun v => ind (Z.eqb v k)) (zrange lo n) == ind ((lo <=? k)%Z && (k <? lo + Z.of_nat n)%Z).
Proof.
  induction n as [|n IH]; intros lo.
  - cbn [zrange wsum].
    destruct (Z.leb_spec lo k), (Z.ltb_spec k (lo + Z.of_nat 0)); cbn [andb ind]; try reflexivity.
    exfalso; lia.
  - cbn [zrange wsum]. rewrite IH. rewrite Nat2Z.inj_succ.
    destruct (Z.eqb_spec lo k), (Z.leb_spec (lo + 1) k), (Z.ltb_spec k (lo + 1 + Z.of_nat n)),
      (Z.leb_spec lo k), (Z.ltb_spec k (lo + Z.succ (Z.of_nat n)));
      cbn [andb ind]; try ring; exfalso; lia.
Qed.

(* random.randint(lo, hi): every integer of lo..hi with probability 1/(hi-lo+1), nothing else *)
Theorem randint_prob lo hi k : (lo <= hi)%Z ->
  mass (fun v => Z.eqb v k) (randint_tree lo hi) ==
  if ((lo <=? k) && (k <=? hi))%Z then 1 / inject_Z (hi - lo + 1) else 0.
Proof.
  intros L. unfold mass, randint_tree.
  assert (NE : zrange lo (Z.to_nat (hi - lo + 1)) <> []).
  { destruct (Z.to_nat (hi - lo + 1)) eqn:E; [lia|]. simpl. discriminate. }
  rewrite uniform_tree_expect by exact NE.
  rewrite zrange_len, wsum_ind_zrange, Z2Nat.id by lia.
  replace (k <? lo + (hi - lo + 1))%Z with (k <=? hi)%Z
    by (destruct (Z.leb_spec k hi), (Z.ltb_spec k (lo + (hi - lo + 1))); try reflexivity; lia).
  destruct ((lo <=? k)%Z && (k <=? hi)%Z); cbn [ind].
  - reflexivity.
  - unfold Qdiv. ring.
Qed.

Lemma randint_norej lo hi : (lo <= hi)%Z -> rejmass (randint_tree lo hi) == 0.
Proof.
  intros L. pose proof (wf_total _ (wf_randint lo hi L)) as T.
  unfold randint_tree in *.
  assert (NE : zrange lo (Z.to_nat (hi - lo + 1)) <> []).
  { destruct (Z.to_nat (hi - lo + 1)) eqn:E; [lia|]. simpl. discriminate. }
  rewrite (uniform_tree_expect _ _ (fun _ => 1) NE) in T.
  rewrite wsum_const, zrange_len in T.
  set (n := inject_Z (Z.of_nat (Z.to_nat (hi - lo + 1)))) in *.
  assert (Hn : ~ n == 0).
  { unfold n. rewrite Z2Nat.id by lia. intro E. unfold Qeq in E. simpl in E. lia. }
  assert (E1 : n * 1 / n == 1) by (field; exact Hn).
  rewrite E1 in T. lra.
Qed.

(* ---- unweighted DiscreteRange with arbitrary rational endpoints ---- *)

(* THE LAW: the drawable set is exactly { k in Z | lo <= k <= hi }, each member with the same
   probability 1 / (floor hi - ceil lo + 1) [= 1 / number of such integers, see ndrange_members] *)
Theorem ndrange_law lo hi k :
  mass (fun v => Z.eqb v k) (ndrange_tree lo hi) ==
  if in_range lo hi k then 1 / inject_Z (Qfloor hi - Qceiling lo + 1) else 0.
Proof.
  unfold ndrange_tree.
  destruct (Z.ltb (Qfloor hi) (Qceiling lo)) eqn:E.
  - apply Z.ltb_lt in E. destruct (in_range lo hi k) eqn:R.
    + apply in_range_spec in R. exfalso; lia.
    + reflexivity.
  - apply Z.ltb_ge in E. rewrite randint_prob by exact E.
    destruct (in_range lo hi k) eqn:R.
    + apply in_range_spec in R.
      replace ((Qceiling lo <=? k)%Z && (k <=? Qfloor hi)%Z) with true; [reflexivity|].
      symmetry. apply andb_true_iff. split; apply Z.leb_le; lia.
    + replace ((Qceiling lo <=? k)%Z && (k <=? Qfloor hi)%Z) with false; [reflexivity|].
      symmetry. apply not_true_is_false. intro T. apply andb_true_iff in T. destruct T as [T1 T2].
      apply Z.leb_le in T1, T2. assert (in_range lo hi k = true) by (apply in_range_spec; lia). congruence.
Qed.

(* the members, listed without repetition; their number is floor hi - ceil lo + 1 *)
Theorem ndrange_members lo hi :
  let l := zrange (Qceiling lo) (Z.to_nat (Qfloor hi - Qceiling lo + 1)) in
  NoDup l /\ (forall k, In k l <-> in_range lo hi k = true) /\
  ((Qceiling lo <= Qfloor hi)%Z -> Z.of_nat (length l) = (Qfloor hi - Qceiling lo + 1)%Z).
Proof.
  cbv zeta. split; [apply zrange_NoDup|]. split.
  - intros k. rewrite zrange_In, in_range_spec. lia.
  - intros L. rewrite zrange_len. lia.
Qed.

(* the attempt is rejected exactly when no integer lies between the endpoints *)
Theorem ndrange_rejects lo hi :
  (forall k, in_range lo hi k = false) -> ndrange_tree lo hi = Rej.
Proof.
  intros N. unfold ndrange_tree. destruct (Z.ltb (Qfloor hi) (Qceiling lo)) eqn:E; [reflexivity|].
  apply Z.ltb_ge in E. specialize (N (Qceiling lo)).
  assert (in_range lo hi (Qceiling lo) = true) by (apply in_range_spec; lia). congruence.
Qed.

Theorem ndrange_accepts lo hi k :
  in_range lo hi k = true -> rejmass (ndrange_tree lo hi) == 0.
Proof.
  intros R. apply in_range_spec in R. unfold ndrange_tree.
  destruct (Z.ltb (Qfloor hi) (Qceiling lo)) eqn:E; [apply Z.ltb_lt in E; lia|].
  apply randint_norej. lia.
Qed.

(* rounding the endpoints outwards (floor of the low one / ceil of the high one) is wrong as soon as
   an endpoint is not an integer: the misrounded range contains an integer outside [lo, hi] *)
Theorem ndrange_floor_low_refuted :
  exists lo hi k, in_range lo hi k = false /\ (Qfloor lo <= k <= Qfloor hi)%Z.
Proof. exists (1#2), 2, 0%Z. vm_compute. split; [reflexivity|split; discriminate]. Qed.

(* ---- weighted DiscreteRange(lo, lo+n-1, weights): value lo + i with probability w_i / sum ---- *)
Theorem wrange_prob lo ws i : (i < length ws)%nat ->
  mass (fun z => Z.eqb z (lo + Z.of_nat i)) (wrange_tree lo ws) == nth i ws 0 / qsum ws.
Proof.
  intros L. rewrite <- (weighted_prob ws i L). unfold mass, wrange_tree. rewrite expect_bind.
  apply expect_ext. intros a. cbn [expect].
  replace (lo + a =? lo + Z.of_nat i)%Z with (a =? Z.of_nat i)%Z; [reflexivity|].
  destruct (Z.eqb_spec a (Z.of_nat i)), (Z.eqb_spec (lo + a) (lo + Z.of_nat i)); try reflexivity; lia.
Qed.

Theorem wrange_prob_out lo ws z : (z < lo \/ lo + Z.of_nat (length ws) <= z)%Z ->
  mass (fun x => Z.eqb x z) (wrange_tree lo ws) == 0.
Proof.
  intros O. rewrite <- (weighted_prob_out ws (z - lo)) by lia.
  unfold mass, wrange_tree. rewrite expect_bind. apply expect_ext. intros a. cbn [expect].
  replace (lo + a =? z)%Z with (a =? z - lo)%Z; [reflexivity|].
  destruct (Z.eqb_spec a (z - lo)), (Z.eqb_spec (lo + a) z); try reflexivity; lia.
Qed.

(* enumerating 0..n-1 instead of lo..lo+n-1 is wrong for every lo <> 0 (the first value already) *)
Theorem wrange_ignoring_low_refuted lo ws : lo <> 0%Z -> (0 < length ws)%nat ->
  ~ nth 0 ws 0 / qsum ws == 0 ->
  ~ mass (fun z => Z.eqb z (lo + 0)) (wrange_tree lo ws) == mass (fun z => Z.eqb z (lo + 0)) (wrange_tree 0 ws) \/
  (0 <= lo < Z.of_nat (length ws))%Z.
Proof.
  intros NZ L P.
  destruct (Z_lt_ge_dec lo 0) as [Neg|Pos]; [left|destruct (Z_lt_ge_dec lo (Z.of_nat (length ws))); [right; lia|left]].
  - change (lo + 0)%Z with (lo + Z.of_nat 0)%Z. rewrite (wrange_prob lo ws 0 L).
    rewrite (wrange_prob_out 0 ws) by lia. exact P.
  - change (lo + 0)%Z with (lo + Z.of_nat 0)%Z. rewrite (wrange_prob lo ws 0 L).
    rewrite (wrange_prob_out 0 ws) by lia. exact P.
Qed.
