(* Extraction of the C01 model (ExtrOcamlBasic only; Z, N, positive, nat, Q stay inductive). *)
From Coq Require Import QArith ZArith List.
From Coq Require Extraction.
From Coq Require Import ExtrOcamlBasic.
From Scenic Require Import C01.Prob C01.Sampler C01.Prior.
Extraction Language OCaml.
Extraction "model.ml" paths run generate_inner sample_all prior wf_dagb good_dagb same_setb needed dfs_order
  prior_order draw_seq empty_memo weighted_tree choices_tree randint_tree bern_tree choices_index Qred mkq ndrange_tree wrange_tree.
