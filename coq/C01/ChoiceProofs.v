(* random.choices on cumulative weights: index i is returned with probability w_i / sum(w),
   and CPython's bisect on u*total lands in [cum(i-1), cum(i)). *)
From Coq Require Import QArith ZArith List Bool Lia.
From Scenic Require Import C01.Prob C01.ProbProofs.
Import ListNotations.
Open Scope Q_scope.

Definition qsum (ws : list Q) : Q := wsum (fun w => w) ws.

Lemma diffs_accumulate ws : forall acc, Forall2 Qeq (diffs acc (accumulate acc ws)) ws.
Proof. induction ws as [|w r IH]; intros acc; simpl; constructor; [ring|apply IH]. Qed.

Lemma accumulate_length ws : forall acc, length (accumulate acc ws) = length ws.
Proof. induction ws; intros; simpl; auto. Qed.

Lemma last_accumulate ws : forall acc d, ws <> [] -> last (accumulate acc ws) d == acc + qsum ws.
Proof.
  induction ws as [|w r IH]; intros acc d NE; [congruence|].
  destruct r as [|w2 r2].
  - simpl. unfold qsum. simpl. ring.
  - change (last (accumulate acc (w :: w2 :: r2)) d) with (last (accumulate (acc + w) (w2 :: r2)) d).
    rewrite IH by discriminate. unfold qsum. simpl. ring.
Qed.

Lemma wsum_combine_Forall2 (F : Z -> Q -> Q) l1 l2 :
  (forall z a b, a == b -> F z a == F z b) -> Forall2 Qeq l1 l2 ->
  forall zs, wsum (fun kw => F (fst kw) (snd kw)) (combine zs l1) ==
             wsum (fun kw => F (fst kw) (snd kw)) (combine zs l2).
Proof.
  intros P H. induction H; intros zs; destruct zs; simpl; try reflexivity.
  rewrite (P z x y H), IHForall2. reflexivity.
Qed.

Lemma zero_tail (c : Q -> Q) tgt : forall ws lo, (tgt < lo)%Z ->
  wsum (fun kw => c (snd kw) * ind (Z.eqb (fst kw) tgt)) (combine (zrange lo (length ws)) ws) == 0.
Proof.
  induction ws as [|w r IH]; intros lo L; simpl; [reflexivity|].
  replace (Z.eqb lo tgt) with false by (symmetry; apply Z.eqb_neq; lia).
  rewrite IH by lia. simpl. ring.
Qed.

Lemma pick_index (c : Q -> Q) : forall ws lo i, (i < length ws)%nat ->
  wsum (fun kw => c (snd kw) * ind (Z.eqb (fst kw) (lo + Z.of_nat i)))
       (combine (zrange lo (length ws)) ws) == c (nth i ws 0).
Proof.
  induction ws as [|w r IH]; intros lo i L; simpl in L; [lia|].
  simpl length. simpl zrange. simpl combine. simpl wsum. destruct i as [|i].
  - simpl nth. replace (lo + Z.of_nat 0)%Z with lo by (simpl; lia). rewrite Z.eqb_refl.
    rewrite zero_tail by lia. simpl. ring.
  - replace (Z.eqb lo (lo + Z.of_nat (S i))) with false by (symmetry; apply Z.eqb_neq; lia).
    replace (lo + Z.of_nat (S i))%Z with ((lo + 1) + Z.of_nat i)%Z by lia.
    rewrite IH by lia. simpl. ring.
Qed.

Lemma expect_choices_tree cum (h : Z -> Q) :
  expect h (choices_tree cum) ==
  wsum (fun kw => snd kw / last cum 0 * h (fst kw)) (combine (zrange 0 (length cum)) (diffs 0 cum)).
Proof.
  unfold choices_tree. rewrite expect_choice, wsum_map. apply wsum_ext. apply Forall_forall.
  intros kw _. simpl. reflexivity.
Qed.

(* weighted choice: P(index i) = w_i / sum of weights *)
Theorem weighted_prob ws i : (i < length ws)%nat ->
  mass (fun z => Z.eqb z (Z.of_nat i)) (weighted_tree ws) == nth i ws 0 / qsum ws.
Proof.
  intros L. unfold mass, weighted_tree. rewrite expect_choices_tree.
  rewrite accumulate_length.
  set (T := last (accumulate 0 ws) 0).
  rewrite (wsum_combine_Forall2 (fun z a => a / T * ind (Z.eqb z (Z.of_nat i))) _ ws).
  - rewrite (pick_index (fun a => a / T) ws 0 i L).
    assert (HT : T == qsum ws).
    { unfold T. rewrite last_accumulate; [ring|]. destruct ws; simpl in L; [lia|discriminate]. }
    rewrite HT. reflexivity.
  - intros z a b E. rewrite E. reflexivity.
  - apply diffs_accumulate.
Qed.

(* an index outside the list is never returned *)
Theorem weighted_prob_out ws z : (z < 0 \/ Z.of_nat (length ws) <= z)%Z ->
  mass (fun x => Z.eqb x z) (weighted_tree ws) == 0.
Proof.
  intros O. unfold mass, weighted_tree. rewrite expect_choices_tree, accumulate_length.
  set (T := last (accumulate 0 ws) 0).
  transitivity (wsum (fun _ : Z * Q => 0) (combine (zrange 0 (length ws)) (diffs 0 (accumulate 0 ws))));
    [|apply wsum_zero].
  apply wsum_ext. apply Forall_forall. intros [k w] Hin. simpl.
  apply in_combine_l in Hin.
  assert (R : forall n lo x, In x (zrange lo n) -> (lo <= x < lo + Z.of_nat n)%Z).
  { induction n; intros lo x Hx; simpl in Hx; [destruct Hx|]. destruct Hx as [<-|Hx]; [lia|].
    apply IHn in Hx. lia. }
  apply R in Hin. replace (Z.eqb k z) with false by (symmetry; apply Z.eqb_neq; lia).
  simpl. ring.
Qed.

(* ---- CPython's bisect_right: binary search returns the number of entries <= x *)
Definition sorted (a : list Q) : Prop :=
  forall i j, (i <= j < length a)%nat -> nth i a 0 <= nth j a 0.

Lemma div2_bounds lo hi : (lo < hi)%nat -> (lo <= Nat.div2 (lo + hi) < hi)%nat.
Proof.
  intros L. pose proof (Nat.div2_odd (lo + hi)) as E.
  destruct (Nat.odd (lo + hi)); simpl in E; lia.
Qed.

Lemma bisect_loop_spec a x : sorted a -> forall fuel lo hi,
  (hi - lo < fuel)%nat -> (lo <= hi <= length a)%nat ->
  (forall i, (i < lo)%nat -> nth i a 0 <= x) ->
  (forall i, (hi <= i < length a)%nat -> x < nth i a 0) ->
  let r := bisect_loop fuel a x lo hi in
  (lo <= r <= hi)%nat /\ (forall i, (i < r)%nat -> nth i a 0 <= x) /\
  (forall i, (r <= i < length a)%nat -> x < nth i a 0).
Proof.
  intros Srt. induction fuel as [|f IH]; intros lo hi F B Lo Hi; [lia|].
  simpl. destruct (Nat.ltb lo hi) eqn:E.
  - apply Nat.ltb_lt in E. pose proof (div2_bounds lo hi E) as M.
    set (mid := Nat.div2 (lo + hi)) in *.
    destruct (Qlt_le_dec x (nth mid a 0)) as [Lt|Ge].
    + destruct (IH lo mid) as (R1 & R2 & R3); try lia; try assumption.
      * intros i Hi'. destruct (Nat.lt_ge_cases i hi) as [Hlt|Hge]; [|apply Hi; lia].
        apply Qlt_le_trans with (nth mid a 0); [exact Lt|]. apply Srt. lia.
      * split; [lia|]. split; assumption.
    + destruct (IH (S mid) hi) as (R1 & R2 & R3); try lia; try assumption.
      * intros i Hi'. destruct (Nat.lt_ge_cases i lo) as [Hlt|Hge]; [apply Lo; exact Hlt|].
        apply Qle_trans with (nth mid a 0); [|exact Ge]. apply Srt. lia.
      * split; [lia|]. split; assumption.
  - apply Nat.ltb_ge in E. assert (lo = hi) by lia. subst. split; [lia|]. split; assumption.
Qed.

(* random.choices returns index i exactly when cum(i-1) <= u*total < cum(i): an interval of
   length w_i out of total, i.e. probability w_i / total for an exact uniform u *)
Theorem choices_interval cum u : sorted cum -> cum <> [] -> 0 <= u -> u * last cum 0 < last cum 0 ->
  let i := choices_index cum u in
  (i < length cum)%nat /\ u * last cum 0 < nth i cum 0 /\
  (forall j, (j < i)%nat -> nth j cum 0 <= u * last cum 0).
Proof.
  intros Srt NE U0 U1. unfold choices_index, bisect_right.
  set (x := u * last cum 0) in *.
  assert (Hlast : last cum 0 = nth (length cum - 1) cum 0).
  { clear -NE. induction cum as [|c r IH]; [congruence|]. destruct r as [|c2 r2]; [reflexivity|].
    change (last (c :: c2 :: r2) 0) with (last (c2 :: r2) 0). rewrite IH by discriminate.
    simpl length. replace (S (S (length r2)) - 1)%nat with (S (length r2)) by lia.
    replace (S (length r2) - 1)%nat with (length r2) by lia. reflexivity. }
  assert (Lpos : (0 < length cum)%nat) by (destruct cum; [congruence|simpl; lia]).
  destruct (bisect_loop_spec cum x Srt (S (length cum)) 0 (length cum - 1)) as (R1 & R2 & R3);
    try lia.
  - intros i Hi. replace i with (length cum - 1)%nat by lia. rewrite <- Hlast. exact U1.
  - split; [lia|]. split; [|exact R2].
    apply R3. lia.
Qed.
