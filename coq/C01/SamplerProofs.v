(* The memoised depth-first sampler draws every needed node exactly once, and its distribution is
   that of drawing the same nodes in ANY valid (operands-first) order — in particular the prior. *)
From Coq Require Import QArith ZArith List Bool Lia Permutation.
From Scenic Require Import C01.Prob C01.ProbProofs C01.Sampler C01.Prior.
Import ListNotations.

(* ---- memo *)
Lemma upd_length m : forall i v, length (upd m i v) = length m.
Proof. induction m; intros [|i] v; simpl; auto. Qed.

Lemma get_upd_same m : forall i v, (i < length m)%nat -> get (upd m i v) i = Some v.
Proof.
  unfold get. induction m; intros [|i] v L; simpl in *; try lia; auto; try (apply IHm; lia).
Qed.

Lemma get_upd_other m : forall i j v, i <> j -> get (upd m i v) j = get m j.
Proof.
  unfold get. induction m; intros [|i] [|j] v N; simpl; auto; try congruence; try (apply IHm; congruence).
Qed.

Lemma upd_comm m : forall i j a b, i <> j -> upd (upd m i a) j b = upd (upd m j b) i a.
Proof.
  induction m; intros [|i] [|j] x y N; simpl; auto; try congruence; try (f_equal; apply IHm; congruence).
Qed.

Lemma has_upd m i v j : (i < length m)%nat -> (has (upd m i v) j = true <-> j = i \/ has m j = true).
Proof.
  intros L. unfold has. destruct (Nat.eq_dec i j) as [<-|N].
  - rewrite get_upd_same by exact L. split; auto.
  - rewrite get_upd_other by exact N. split; auto. intros [E|H]; [congruence|exact H].
Qed.

Lemma memb_In i l : memb i l = true <-> In i l.
Proof.
  unfold memb. rewrite existsb_exists. split.
  - intros (x & Hx & E). apply Nat.eqb_eq in E. subst. exact Hx.
  - intros H. exists i. split; [exact H|apply Nat.eqb_refl].
Qed.

Lemma memb_false i l : memb i l = false <-> ~ In i l.
Proof. rewrite <- memb_In. destruct (memb i l); split; congruence. Qed.

Lemma draw_upd_other g i j m v : ~ In j (args (node_at g i)) -> draw g i (upd m j v) = draw g i m.
Proof.
  intros N. unfold draw. f_equal. apply map_ext_in. intros a Ha. apply get_upd_other.
  intro E. subst. contradiction.
Qed.

(* ---- schedules *)
Lemma draw_seq_app g l1 : forall l2 m,
  teq (draw_seq g (l1 ++ l2) m) (bind (draw_seq g l1 m) (draw_seq g l2)).
Proof.
  induction l1 as [|i l1 IH]; intros l2 m; simpl; [apply teq_refl|].
  eapply teq_trans; [|apply teq_sym; apply teq_bind_assoc].
  apply (teq_bind_r (fun _ => True)); [apply leaves_true|]. intros v _. apply IH.
Qed.

(* two adjacent draws neither of which is an operand of the other can be exchanged *)
Lemma swap_adjacent g j k r m :
  j <> k -> ~ In k (args (node_at g j)) -> ~ In j (args (node_at g k)) ->
  teq (draw_seq g (j :: k :: r) m) (draw_seq g (k :: j :: r) m).
Proof.
  intros N1 N2 N3. simpl.
  apply teq_trans with
    (bind (draw g j m) (fun a => bind (draw g k m) (fun b => draw_seq g r (upd (upd m j a) k b)))).
  { apply (teq_bind_r (fun _ => True)); [apply leaves_true|]. intros a _.
    rewrite (draw_upd_other g k j m a N3). apply teq_refl. }
  apply teq_trans with
    (bind (draw g k m) (fun b => bind (draw g j m) (fun a => draw_seq g r (upd (upd m j a) k b)))).
  { apply (bind_swap (draw g j m) (draw g k m) (fun a b => draw_seq g r (upd (upd m j a) k b))). }
  apply (teq_bind_r (fun _ => True)); [apply leaves_true|]. intros b _.
  rewrite (draw_upd_other g j k m b N2).
  apply (teq_bind_r (fun _ => True)); [apply leaves_true|]. intros a _.
  rewrite (upd_comm m j k a b N1). apply teq_refl.
Qed.

Lemma bubble g x b : forall a m,
  (forall y, In y a -> y <> x /\ ~ In x (args (node_at g y)) /\ ~ In y (args (node_at g x))) ->
  teq (draw_seq g (a ++ x :: b) m) (draw_seq g (x :: a ++ b) m).
Proof.
  induction a as [|y a IH]; intros m H; [apply teq_refl|].
  destruct (H y (or_introl eq_refl)) as (N1 & N2 & N3).
  apply teq_trans with (draw_seq g (y :: x :: a ++ b) m).
  - simpl. apply (teq_bind_r (fun _ => True)); [apply leaves_true|]. intros v _.
    apply (IH (upd m y v)). intros z Hz. apply H. right. exact Hz.
  - apply swap_adjacent; auto.
Qed.

Lemma valid_ext g l : forall vis vis', (forall x, In x vis <-> In x vis') -> valid g vis l -> valid g vis' l.
Proof.
  induction l as [|i r IH]; intros vis vis' E V; simpl in *; [exact I|].
  destruct V as (V1 & V2 & V3). split; [rewrite <- E; exact V1|]. split.
  - intros a Ha. apply E. apply V2. exact Ha.
  - apply (IH (i :: vis)); [|exact V3]. intros x. simpl. rewrite E. tauto.
Qed.

Lemma valid_app g l1 : forall vis l2,
  valid g vis (l1 ++ l2) <-> valid g vis l1 /\ valid g (rev l1 ++ vis) l2.
Proof.
  induction l1 as [|i l1 IH]; intros vis l2; simpl; [tauto|].
  rewrite IH. rewrite <- app_assoc. simpl. tauto.
Qed.

Lemma valid_elem g l : forall vis y, valid g vis l -> In y l ->
  ~ In y vis /\ (forall c, In c (args (node_at g y)) -> In c (l ++ vis)).
Proof.
  induction l as [|i r IH]; intros vis y V Hy; [destruct Hy|].
  destruct V as (V1 & V2 & V3). destruct Hy as [<-|Hy].
  - split; [exact V1|]. intros c Hc. apply in_or_app. right. apply V2. exact Hc.
  - destruct (IH (i :: vis) y V3 Hy) as (A & B). split.
    + intro. apply A. right. assumption.
    + intros c Hc. specialize (B c Hc). apply in_app_or in B. simpl in *.
      destruct B as [B|[B|B]]; [right; apply in_or_app; left; exact B|left; exact B|
                                 right; apply in_or_app; right; exact B].
Qed.

Lemma valid_add g l : forall vis x, valid g vis l -> ~ In x l -> valid g (x :: vis) l.
Proof.
  induction l as [|i r IH]; intros vis x V N; simpl in *; [exact I|].
  destruct V as (V1 & V2 & V3). split; [|split].
  - intros [E|E]; [apply N; left; congruence|apply V1; exact E].
  - intros a Ha. right. apply V2. exact Ha.
  - apply (valid_ext g r (x :: i :: vis)); [intros z; simpl; tauto|].
    apply IH; [exact V3|]. intro. apply N. right. assumption.
Qed.

Lemma valid_nodup g l : forall vis, valid g vis l -> NoDup l.
Proof.
  induction l as [|i r IH]; intros vis V; [constructor|].
  destruct V as (V1 & V2 & V3). constructor; [|apply (IH _ V3)].
  intro Hi. destruct (valid_elem g r (i :: vis) i V3 Hi) as (A & _). apply A. left. reflexivity.
Qed.

(* any two valid schedules of the same nodes have the same distribution *)
Theorem schedule_irrelevant g l1 : forall l2 vis m,
  valid g vis l1 -> valid g vis l2 -> Permutation l1 l2 ->
  teq (draw_seq g l1 m) (draw_seq g l2 m).
Proof.
  induction l1 as [|x l1 IH]; intros l2 vis m V1 V2 P.
  - apply Permutation_nil in P. subst. apply teq_refl.
  - assert (Hx : In x l2) by (apply (Permutation_in _ P); left; reflexivity).
    apply in_split in Hx. destruct Hx as (a & b & ->).
    destruct V1 as (X1 & X2 & X3).
    pose proof V2 as V2'. apply valid_app in V2'. destruct V2' as (Va & Vxb).
    destruct Vxb as (Y1 & Y2 & Y3).
    assert (Nxa : ~ In x a) by (intro Hi; apply Y1; apply in_or_app; left; apply in_rev in Hi; exact Hi).
    apply teq_trans with (draw_seq g (x :: a ++ b) m).
    2:{ apply teq_sym. apply bubble. intros y Hy.
        destruct (valid_elem g a vis y Va Hy) as (A & B). split; [|split].
        - intro E. subst. contradiction.
        - intro Hc. specialize (B x Hc). apply in_app_or in B. destruct B; contradiction.
        - intro Hc. apply A. apply X2. exact Hc. }
    simpl. apply (teq_bind_r (fun _ => True)); [apply leaves_true|]. intros v _.
    apply (IH (a ++ b) (x :: vis)); [exact X3| |].
    + apply valid_app. split; [apply valid_add; assumption|].
      apply (valid_ext g b (x :: rev a ++ vis)); [|exact Y3].
      intros z. simpl. rewrite !in_app_iff. simpl. tauto.
    + apply Permutation_cons_app_inv with x. exact P.
Qed.

(* ---- the memoised sampler draws along [ord] *)
Definition inv (g : dag) (X : list nat) (m : memo) : Prop :=
  length m = length g /\ forall j, has m j = true <-> In j X.

Lemma inv_ext g X Y m : (forall j, In j X <-> In j Y) -> inv g X m -> inv g Y m.
Proof. intros E [L H]. split; [exact L|]. intros j. rewrite H. apply E. Qed.

Section Fold.
  Variable g : dag.
  Variable f : nat.
  Hypothesis Hvisit : forall c vis m, (c < f)%nat -> (c < length g)%nat -> inv g vis m ->
    teq (visit f g c m) (draw_seq g (ord f g c vis) m) /\
    leaves (inv g (ord f g c vis ++ vis)) (visit f g c m).

  Lemma fold_visit_ord : forall l vis m,
    (forall c, In c l -> (c < f)%nat /\ (c < length g)%nat) -> inv g vis m ->
    teq (fold_visit (visit f g) l m) (draw_seq g (ord_list (ord f g) l vis) m) /\
    leaves (inv g (ord_list (ord f g) l vis ++ vis)) (fold_visit (visit f g) l m).
  Proof.
    induction l as [|c cs IH]; intros vis m B I.
    - simpl. split; [apply teq_refl|exact I].
    - destruct (B c (or_introl eq_refl)) as (Bf & Bg).
      destruct (Hvisit c vis m Bf Bg I) as (T1 & L1).
      assert (Bcs : forall c', In c' cs -> (c' < f)%nat /\ (c' < length g)%nat)
        by (intros c' Hc'; apply B; right; exact Hc').
      set (n1 := ord f g c vis) in *. simpl. fold n1. split.
      + apply teq_trans with (bind (visit f g c m) (draw_seq g (ord_list (ord f g) cs (n1 ++ vis)))).
        { apply (teq_bind_r (inv g (n1 ++ vis))); [exact L1|]. intros m' I'.
          apply (IH (n1 ++ vis) m' Bcs I'). }
        apply teq_trans with (bind (draw_seq g n1 m) (draw_seq g (ord_list (ord f g) cs (n1 ++ vis)))).
        { apply teq_bind_l. exact T1. }
        apply teq_sym. apply draw_seq_app.
      + apply (leaves_bind (inv g (n1 ++ vis))); [exact L1|]. intros m' I'.
        eapply leaves_impl; [|apply (IH (n1 ++ vis) m' Bcs I')].
        intros m''. apply inv_ext. intros j. rewrite !in_app_iff. tauto.
  Qed.
End Fold.

Lemma visit_ord g : wf_dag g -> forall fuel i vis m,
  (i < fuel)%nat -> (i < length g)%nat -> inv g vis m ->
  teq (visit fuel g i m) (draw_seq g (ord fuel g i vis) m) /\
  leaves (inv g (ord fuel g i vis ++ vis)) (visit fuel g i m).
Proof.
  intros W. induction fuel as [|f IH]; intros i vis m Lf Lg I; [lia|].
  simpl. destruct (has m i) eqn:Hh.
  - assert (M : memb i vis = true) by (apply memb_In; apply (proj2 I); exact Hh).
    rewrite M. simpl. split; [apply teq_refl|exact I].
  - assert (M : memb i vis = false).
    { apply memb_false. intro Hi. apply (proj2 I) in Hi. congruence. }
    rewrite M.
    assert (B : forall c, In c (args (node_at g i)) -> (c < f)%nat /\ (c < length g)%nat).
    { intros c Hc. specialize (W i Lg c Hc). lia. }
    destruct (fold_visit_ord g f IH (args (node_at g i)) vis m B I) as (T & L).
    set (LL := ord_list (ord f g) (args (node_at g i)) vis) in *.
    split.
    + apply teq_trans with
        (bind (draw_seq g LL m) (fun m' => bind (draw g i m') (fun v => Ret (upd m' i v)))).
      { apply teq_bind_l. exact T. }
      apply teq_sym. apply (draw_seq_app g LL [i] m).
    + apply (leaves_bind (inv g (LL ++ vis))); [exact L|]. intros m' [Len I'].
      apply (leaves_bind (fun _ => True)); [apply leaves_true|]. intros v _. simpl. split.
      * rewrite upd_length. exact Len.
      * intros j. rewrite has_upd by (rewrite Len; exact Lg). rewrite I'.
        rewrite !in_app_iff. simpl. intuition.
Qed.

Lemma has_empty g j : has (empty_memo g) j = false.
Proof.
  unfold has, get, empty_memo.
  destruct (Nat.lt_ge_cases j (length g)).
  - rewrite nth_repeat. reflexivity.
  - rewrite nth_overflow; [reflexivity|]. rewrite repeat_length. exact H.
Qed.

Lemma inv_empty g : inv g [] (empty_memo g).
Proof.
  split; [apply repeat_length|]. intros j. rewrite has_empty. simpl. split; [congruence|tauto].
Qed.

(* the sampler = drawing along its (value-independent) depth-first order *)
Theorem sampler_draws_dfs g deps :
  wf_dag g -> (forall d, In d deps -> (d < length g)%nat) ->
  teq (sample_all g deps) (draw_seq g (dfs_order g deps) (empty_memo g)).
Proof.
  intros W D. unfold sample_all, dfs_order.
  apply (fold_visit_ord g (length g)).
  - intros c vis m Lf Lg I. apply visit_ord; assumption.
  - intros c Hc. split; apply D; exact Hc.
  - apply inv_empty.
Qed.

(* ---- the depth-first order is a valid schedule *)
Section OrdValid.
  Variable g : dag.
  Hypothesis W : wf_dag g.

  Lemma ord_list_valid f :
    (forall c vis, (c < f)%nat -> (c < length g)%nat ->
       valid g vis (ord f g c vis) /\ In c (ord f g c vis ++ vis) /\
       (forall j, In j (ord f g c vis) -> (j <= c)%nat)) ->
    forall l vis, (forall c, In c l -> (c < f)%nat /\ (c < length g)%nat) ->
      valid g vis (ord_list (ord f g) l vis) /\
      (forall c, In c l -> In c (ord_list (ord f g) l vis ++ vis)) /\
      (forall j, In j (ord_list (ord f g) l vis) -> exists c, In c l /\ (j <= c)%nat).
  Proof.
    intros H. induction l as [|c cs IH]; intros vis B; simpl.
    - split; [exact I|]. split; [intros c []|intros j []].
    - destruct (B c (or_introl eq_refl)) as (Bf & Bg).
      destruct (H c vis Bf Bg) as (V1 & C1 & U1).
      assert (Bcs : forall c', In c' cs -> (c' < f)%nat /\ (c' < length g)%nat)
        by (intros c' Hc'; apply B; right; exact Hc').
      destruct (IH (ord f g c vis ++ vis) Bcs) as (V2 & C2 & U2).
      split; [|split].
      + apply valid_app. split; [exact V1|].
        eapply valid_ext; [|exact V2]. intros x. rewrite !in_app_iff, <- in_rev. tauto.
      + intros c' [<-|Hc'].
        * rewrite !in_app_iff in *. tauto.
        * specialize (C2 c' Hc'). rewrite !in_app_iff in *. tauto.
      + intros j Hj. apply in_app_or in Hj. destruct Hj as [Hj|Hj].
        * exists c. split; [left; reflexivity|apply U1; exact Hj].
        * destruct (U2 j Hj) as (c' & Hc' & Le). exists c'. split; [right; exact Hc'|exact Le].
  Qed.

  Lemma ord_valid : forall fuel c vis, (c < fuel)%nat -> (c < length g)%nat ->
    valid g vis (ord fuel g c vis) /\ In c (ord fuel g c vis ++ vis) /\
    (forall j, In j (ord fuel g c vis) -> (j <= c)%nat).
  Proof.
    induction fuel as [|f IH]; intros i vis Lf Lg; [lia|]. simpl.
    destruct (memb i vis) eqn:M.
    - simpl. split; [exact I|]. split; [apply memb_In; exact M|intros j []].
    - assert (B : forall c, In c (args (node_at g i)) -> (c < f)%nat /\ (c < length g)%nat).
      { intros c Hc. specialize (W i Lg c Hc). lia. }
      destruct (ord_list_valid f IH (args (node_at g i)) vis B) as (V & C & U).
      set (LL := ord_list (ord f g) (args (node_at g i)) vis) in *.
      split; [|split].
      + apply valid_app. split; [exact V|]. simpl. split; [|split; [|exact I]].
        * rewrite in_app_iff, <- in_rev. intros [Hi|Hi].
          -- destruct (U i Hi) as (c & Hc & Le). specialize (W i Lg c Hc). lia.
          -- apply memb_false in M. contradiction.
        * intros a Ha. specialize (C a Ha). rewrite in_app_iff in *. rewrite <- in_rev. exact C.
      + rewrite !in_app_iff. simpl. tauto.
      + intros j Hj. apply in_app_or in Hj. destruct Hj as [Hj|[<-|[]]]; [|lia].
        destruct (U j Hj) as (c & Hc & Le). specialize (W i Lg c Hc). lia.
  Qed.

  Lemma dfs_order_valid deps : (forall d, In d deps -> (d < length g)%nat) ->
    valid g [] (dfs_order g deps) /\
    (forall d, In d deps -> In d (dfs_order g deps)) /\
    (forall j, In j (dfs_order g deps) -> (j < length g)%nat).
  Proof.
    intros D. unfold dfs_order.
    destruct (ord_list_valid (length g) (fun c vis => ord_valid (length g) c vis) deps [])
      as (V & C & U).
    { intros c Hc. split; apply D; exact Hc. }
    split; [exact V|]. split.
    - intros d Hd. specialize (C d Hd). rewrite app_nil_r in C. exact C.
    - intros j Hj. destruct (U j Hj) as (c & Hc & Le). specialize (D c Hc). lia.
  Qed.
End OrdValid.

(* every needed node is drawn at most once per scene *)
Theorem sample_once g deps :
  wf_dag g -> (forall d, In d deps -> (d < length g)%nat) -> NoDup (dfs_order g deps).
Proof.
  intros W D. destruct (dfs_order_valid g W deps D) as (V & _). apply (valid_nodup g _ [] V).
Qed.

(* ---- ascending (creation) order over an operand-closed set is a valid schedule *)
Lemma valid_asc g (Sx : list nat) : wf_dag g ->
  (forall i, In i Sx -> (i < length g)%nat /\ forall a, In a (args (node_at g i)) -> In a Sx) ->
  forall len k, (k + len <= length g)%nat ->
    valid g (filter (fun i => memb i Sx) (seq 0 k)) (filter (fun i => memb i Sx) (seq k len)).
Proof.
  intros W C. induction len as [|len IH]; intros k B; simpl; [exact I|].
  destruct (memb k Sx) eqn:M.
  - simpl. split; [|split].
    + rewrite filter_In, in_seq. lia.
    + intros a Ha. apply memb_In in M. destruct (C k M) as (Lk & Ca).
      rewrite filter_In, in_seq. split; [specialize (W k Lk a Ha); lia|].
      apply memb_In. apply Ca. exact Ha.
    + eapply valid_ext; [|apply (IH (S k))]; [|lia].
      intros x. rewrite seq_S, filter_app. simpl. rewrite M. rewrite in_app_iff. simpl. tauto.
  - eapply valid_ext; [|apply (IH (S k))]; [|lia].
    intros x. rewrite seq_S, filter_app. simpl. rewrite M. rewrite in_app_iff. simpl. tauto.
Qed.

(* MAIN: the memoised sampler has exactly the prior's distribution *)
Theorem sampler_is_prior_given_reach g deps :
  wf_dag g -> (forall d, In d deps -> (d < length g)%nat) ->
  same_set (needed g deps) (dfs_order g deps) ->
  teq (sample_all g deps) (prior g deps).
Proof.
  intros W D SS.
  eapply teq_trans; [apply sampler_draws_dfs; assumption|].
  destruct (dfs_order_valid g W deps D) as (V & C & U).
  unfold prior, prior_order.
  assert (Mem : forall i, memb i (needed g deps) = memb i (dfs_order g deps)).
  { intros i. destruct (memb i (dfs_order g deps)) eqn:E.
    - apply memb_In. apply SS. apply memb_In. exact E.
    - apply memb_false. intro Hi. apply SS in Hi. apply memb_In in Hi. congruence. }
  rewrite (filter_ext _ _ Mem).
  apply (schedule_irrelevant g _ _ []); [exact V| |].
  - apply (valid_asc g (dfs_order g deps) W) with (k := 0%nat) (len := length g); [|lia].
    intros i Hi. split; [apply U; exact Hi|]. intros a Ha.
    destruct (valid_elem g _ [] i V Hi) as (_ & B). specialize (B a Ha).
    rewrite app_nil_r in B. exact B.
  - apply NoDup_Permutation.
    + apply (valid_nodup g _ [] V).
    + apply NoDup_filter. apply seq_NoDup.
    + intros x. rewrite filter_In, in_seq, memb_In. split; [|tauto].
      intros Hx. split; [specialize (U x Hx); lia|exact Hx].
Qed.

(* the order in which the dependencies are listed does not matter *)
Theorem order_irrelevant g deps1 deps2 :
  wf_dag g -> (forall d, In d deps1 -> (d < length g)%nat) -> (forall d, In d deps2 -> (d < length g)%nat) ->
  same_set (dfs_order g deps1) (dfs_order g deps2) ->
  teq (sample_all g deps1) (sample_all g deps2).
Proof.
  intros W D1 D2 SS.
  eapply teq_trans; [apply sampler_draws_dfs; assumption|].
  eapply teq_trans; [|apply teq_sym; apply sampler_draws_dfs; assumption].
  destruct (dfs_order_valid g W deps1 D1) as (V1 & _).
  destruct (dfs_order_valid g W deps2 D2) as (V2 & _).
  apply (schedule_irrelevant g _ _ []); [exact V1|exact V2|].
  apply NoDup_Permutation; [apply (valid_nodup g _ [] V1)|apply (valid_nodup g _ [] V2)|exact SS].
Qed.

(* a clone (resample) is distributed as its original given the same operand values:
   two nodes with the same kind and operands have the same draw in every memo *)
Theorem resample_same_law g i j m :
  kind (node_at g i) = kind (node_at g j) -> args (node_at g i) = args (node_at g j) ->
  draw g i m = draw g j m.
Proof. intros K A. unfold draw. rewrite K, A. reflexivity. Qed.

(* ... and independent of it: the two draws commute and neither reads the other *)
Theorem resample_independent g i j r m :
  i <> j -> ~ In j (args (node_at g i)) -> ~ In i (args (node_at g j)) ->
  teq (draw_seq g (i :: j :: r) m)
      (bind (draw g i m) (fun a => bind (draw g j m) (fun b => draw_seq g r (upd (upd m i a) j b)))).
Proof.
  intros N1 N2 N3. simpl.
  apply (teq_bind_r (fun _ => True)); [apply leaves_true|]. intros a _.
  rewrite (draw_upd_other g j i m a N3). apply teq_refl.
Qed.
