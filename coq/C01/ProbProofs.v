(* Laws of finite probability trees: linearity, bind, Fubini (independent draws commute),
   catch, total mass, weighted-choice probabilities. *)
From Coq Require Import QArith ZArith List Bool Lia Lqa Setoid.
From Scenic Require Import C01.Prob.
Import ListNotations.
Open Scope Q_scope.

Section Ind.
  Variable A : Type.
  Variable P : ptree A -> Prop.
  Hypothesis HRet : forall a, P (Ret a).
  Hypothesis HRej : P Rej.
  Hypothesis HChoice : forall l bs, Forall (fun qt => P (snd qt)) bs -> P (Choice l bs).
  Fixpoint ptree_ind2 (t : ptree A) : P t :=
    match t with
    | Ret a => HRet a
    | Rej => HRej
    | Choice l bs =>
        HChoice l bs
          ((fix go (bs : list (Q * ptree A)) : Forall (fun qt => P (snd qt)) bs :=
              match bs with
              | [] => Forall_nil _
              | qt :: r =>
                  Forall_cons qt
                    (match qt as qt0 return P (snd qt0) with (q, t') => ptree_ind2 t' end) (go r)
              end) bs)
    end.
End Ind.

(* ---- unfolding lemmas for the nested fixpoints *)
Lemma expect_choice {A} (h : A -> Q) l bs :
  expect h (Choice l bs) = wsum (fun qt => fst qt * expect h (snd qt)) bs.
Proof. simpl. induction bs as [|[q t'] r IH]; simpl; [reflexivity|]. rewrite IH. reflexivity. Qed.

Lemma rejmass_choice {A} l (bs : list (Q * ptree A)) :
  rejmass (Choice l bs) = wsum (fun qt => fst qt * rejmass (snd qt)) bs.
Proof. simpl. induction bs as [|[q t'] r IH]; simpl; [reflexivity|]. rewrite IH. reflexivity. Qed.

Lemma bind_choice {A B} l (bs : list (Q * ptree A)) (k : A -> ptree B) :
  bind (Choice l bs) k = Choice l (map (fun qt => (fst qt, bind (snd qt) k)) bs).
Proof. simpl. f_equal. induction bs as [|[q t'] r IH]; simpl; [reflexivity|]. rewrite IH. reflexivity. Qed.

Lemma catch_choice {A} l (bs : list (Q * ptree A)) t2 :
  catch (Choice l bs) t2 = Choice l (map (fun qt => (fst qt, catch (snd qt) t2)) bs).
Proof. simpl. f_equal. induction bs as [|[q t'] r IH]; simpl; [reflexivity|]. rewrite IH. reflexivity. Qed.

Lemma leaves_choice {A} (P : A -> Prop) l bs :
  leaves P (Choice l bs) <-> Forall (fun qt => leaves P (snd qt)) bs.
Proof.
  simpl. induction bs as [|[q t'] r IH]; simpl.
  - split; intros; [constructor|exact I].
  - split.
    + intros [H1 H2]. constructor; [exact H1|apply IH; exact H2].
    + intros H. inversion H; subst. split; [assumption|apply IH; assumption].
Qed.

Lemma wf_choice {A} l (bs : list (Q * ptree A)) :
  wf_tree (Choice l bs) <-> wsum fst bs == 1 /\ Forall (fun qt => 0 <= fst qt /\ wf_tree (snd qt)) bs.
Proof.
  simpl. split; intros [H0 H]; split; try exact H0; clear H0.
  - induction bs as [|[q t'] r IH]; [constructor|]. destruct H as (H1 & H2 & H3).
    constructor; [split; assumption|apply IH; assumption].
  - induction bs as [|[q t'] r IH]; [exact I|]. inversion H; subst. destruct H2.
    split; [assumption|split; [assumption|apply IH; assumption]].
Qed.

(* ---- weighted sums *)
Lemma wsum_ext {B} (w1 w2 : B -> Q) l :
  Forall (fun b => w1 b == w2 b) l -> wsum w1 l == wsum w2 l.
Proof. induction 1; simpl; [reflexivity|]. rewrite H, IHForall. reflexivity. Qed.

Lemma wsum_scale {B} c (w : B -> Q) l : wsum (fun b => c * w b) l == c * wsum w l.
Proof. induction l; simpl; [ring|]. rewrite IHl. ring. Qed.

Lemma wsum_plus {B} (w1 w2 : B -> Q) l : wsum (fun b => w1 b + w2 b) l == wsum w1 l + wsum w2 l.
Proof. induction l; simpl; [ring|]. rewrite IHl. ring. Qed.

Lemma wsum_zero {B} (l : list B) : wsum (fun _ => 0) l == 0.
Proof. induction l; simpl; [reflexivity|]. rewrite IHl. ring. Qed.

Lemma wsum_map {B C} (f : B -> C) (w : C -> Q) l : wsum w (map f l) = wsum (fun b => w (f b)) l.
Proof. induction l; simpl; [reflexivity|]. rewrite IHl. reflexivity. Qed.

Lemma wsum_app {B} (w : B -> Q) l1 l2 : wsum w (l1 ++ l2) == wsum w l1 + wsum w l2.
Proof. induction l1; simpl; [ring|]. rewrite IHl1. ring. Qed.

(* ---- expectation *)
Lemma expect_ext {A} (t : ptree A) :
  forall h1 h2, (forall a, h1 a == h2 a) -> expect h1 t == expect h2 t.
Proof.
  induction t using ptree_ind2; intros h1 h2 E; [simpl; apply E|simpl; reflexivity|].
  rewrite !expect_choice. apply wsum_ext. eapply Forall_impl; [|exact H].
  intros qt Hq. cbv beta in Hq. cbn [fst snd]. rewrite (Hq h1 h2 E). reflexivity.
Qed.

Lemma expect_ext_leaves {A} (P : A -> Prop) (t : ptree A) :
  forall h1 h2, leaves P t -> (forall a, P a -> h1 a == h2 a) -> expect h1 t == expect h2 t.
Proof.
  induction t using ptree_ind2; intros h1 h2 L E; [apply E; exact L|reflexivity|].
  rewrite !expect_choice. apply wsum_ext. apply leaves_choice in L.
  rewrite Forall_forall in *. intros qt Hin. rewrite (H qt Hin h1 h2 (L qt Hin) E). reflexivity.
Qed.

Lemma expect_bind {A B} (t : ptree A) :
  forall (k : A -> ptree B) h, expect h (bind t k) == expect (fun a => expect h (k a)) t.
Proof.
  induction t using ptree_ind2; intros k h; [simpl; reflexivity|simpl; reflexivity|].
  rewrite bind_choice, !expect_choice, wsum_map. apply wsum_ext.
  eapply Forall_impl; [|exact H]. intros qt Hq. cbv beta in Hq. cbn [fst snd]. rewrite Hq. reflexivity.
Qed.

Lemma expect_scale {A} (t : ptree A) :
  forall c h, expect (fun a => c * h a) t == c * expect h t.
Proof.
  induction t using ptree_ind2; intros c h; [simpl; reflexivity|simpl; ring|].
  rewrite !expect_choice.
  transitivity (wsum (fun qt => c * (fst qt * expect h (snd qt))) bs); [|apply wsum_scale].
  apply wsum_ext. eapply Forall_impl; [|exact H]. intros qt Hq. cbv beta in Hq. cbn [fst snd]. rewrite Hq. ring.
Qed.

Lemma expect_plus {A} (t : ptree A) :
  forall h1 h2, expect (fun a => h1 a + h2 a) t == expect h1 t + expect h2 t.
Proof.
  induction t using ptree_ind2; intros h1 h2; [simpl; reflexivity|simpl; ring|].
  rewrite !expect_choice.
  transitivity (wsum (fun qt => fst qt * expect h1 (snd qt) + fst qt * expect h2 (snd qt)) bs);
    [|apply wsum_plus].
  apply wsum_ext. eapply Forall_impl; [|exact H]. intros qt Hq. cbv beta in Hq. cbn [fst snd]. rewrite Hq. ring.
Qed.

Lemma expect_zero {A} (t : ptree A) : expect (fun _ => 0) t == 0.
Proof.
  induction t using ptree_ind2; [simpl; reflexivity|simpl; reflexivity|].
  rewrite expect_choice.
  transitivity (wsum (fun _ : Q * ptree A => 0) bs); [|apply wsum_zero].
  apply wsum_ext. eapply Forall_impl; [|exact H]. intros qt Hq. cbv beta in Hq. cbn [fst snd]. rewrite Hq. ring.
Qed.

Lemma expect_wsum {A X} (F : X -> A -> Q) (l : list X) (t : ptree A) :
  expect (fun a => wsum (fun x => F x a) l) t == wsum (fun x => expect (F x) t) l.
Proof.
  induction l; simpl; [apply expect_zero|].
  rewrite expect_plus, IHl. reflexivity.
Qed.

(* independent draws commute *)
Theorem fubini {A B} (t1 : ptree A) :
  forall (t2 : ptree B) (h : A -> B -> Q),
    expect (fun a => expect (fun b => h a b) t2) t1 == expect (fun b => expect (fun a => h a b) t1) t2.
Proof.
  induction t1 using ptree_ind2; intros t2 h.
  - simpl. apply expect_ext. intros b. reflexivity.
  - simpl. symmetry. apply expect_zero.
  - rewrite expect_choice.
    transitivity (expect (fun b => wsum (fun qt => fst qt * expect (fun a => h a b) (snd qt)) bs) t2).
    2:{ apply expect_ext. intros b. rewrite expect_choice. reflexivity. }
    rewrite (expect_wsum (fun qt b => fst qt * expect (fun a => h a b) (snd qt))).
    apply wsum_ext. eapply Forall_impl; [|exact H]. intros qt Hq. cbv beta in Hq. cbn [fst snd].
    rewrite (expect_scale t2 (fst qt) (fun b => expect (fun a => h a b) (snd qt))).
    rewrite (Hq t2 h). reflexivity.
Qed.

Lemma wsum_scale_r {B} c (w : B -> Q) l : wsum (fun b => w b * c) l == wsum w l * c.
Proof. induction l; simpl; [ring|]. rewrite IHl. ring. Qed.

Lemma expect_catch {A} (t : ptree A) :
  forall t2 h, expect h (catch t t2) == expect h t + rejmass t * expect h t2.
Proof.
  induction t using ptree_ind2; intros t2 h; [simpl; ring|simpl; ring|].
  rewrite catch_choice, !expect_choice, rejmass_choice, wsum_map.
  rewrite <- wsum_scale_r, <- wsum_plus.
  apply wsum_ext. eapply Forall_impl; [|exact H]. intros qt Hq. cbv beta in Hq. cbn [fst snd]. rewrite Hq. ring.
Qed.

Lemma rejmass_catch {A} (t : ptree A) :
  forall t2, rejmass (catch t t2) == rejmass t * rejmass t2.
Proof.
  induction t using ptree_ind2; intros t2; [simpl; ring|simpl; ring|].
  rewrite catch_choice, !rejmass_choice, wsum_map, <- wsum_scale_r.
  apply wsum_ext. eapply Forall_impl; [|exact H]. intros qt Hq. cbv beta in Hq. cbn [fst snd]. rewrite Hq. ring.
Qed.

Lemma rejmass_bind {A B} (t : ptree A) :
  forall (k : A -> ptree B), rejmass (bind t k) == rejmass t + expect (fun a => rejmass (k a)) t.
Proof.
  induction t using ptree_ind2; intros k; [simpl; ring|simpl; ring|].
  rewrite bind_choice, !rejmass_choice, expect_choice, wsum_map, <- wsum_plus.
  apply wsum_ext. eapply Forall_impl; [|exact H]. intros qt Hq. cbv beta in Hq. cbn [fst snd]. rewrite Hq. ring.
Qed.

(* total probability: accepted mass + rejected mass = 1 *)
Lemma wf_total {A} (t : ptree A) : wf_tree t -> expect (fun _ => 1) t + rejmass t == 1.
Proof.
  induction t using ptree_ind2; intros W; [simpl; ring|simpl; ring|].
  apply wf_choice in W. destruct W as [S W].
  rewrite expect_choice, rejmass_choice, <- wsum_plus, <- S.
  apply wsum_ext. rewrite Forall_forall in *. intros qt Hin.
  destruct (W qt Hin) as [_ Wq]. specialize (H qt Hin Wq). simpl.
  rewrite <- Qmult_plus_distr_r, H. ring.
Qed.

Lemma wf_bind {A B} (t : ptree A) (k : A -> ptree B) :
  wf_tree t -> (forall a, wf_tree (k a)) -> wf_tree (bind t k).
Proof.
  induction t using ptree_ind2; intros W K; [simpl; apply K|simpl; exact I|].
  rewrite bind_choice. apply wf_choice in W. destruct W as [S W]. apply wf_choice. split.
  - rewrite <- S. clear. induction bs as [|[q t'] r IH]; simpl; [reflexivity|]. rewrite IH. reflexivity.
  - rewrite Forall_forall in *. intros qt Hin. apply in_map_iff in Hin. destruct Hin as (x & <- & Hx).
    simpl. destruct (W x Hx). split; [assumption|]. apply H; assumption.
Qed.

(* ---- leaves *)
Lemma leaves_impl {A} (P Q : A -> Prop) (t : ptree A) :
  (forall a, P a -> Q a) -> leaves P t -> leaves Q t.
Proof.
  intros PQ. induction t using ptree_ind2; intros L.
  - apply PQ. exact L.
  - exact I.
  - apply leaves_choice in L. apply leaves_choice. rewrite Forall_forall in *.
    intros qt Hin. apply H; [exact Hin|apply L; exact Hin].
Qed.

Lemma leaves_bind {A B} (P : A -> Prop) (Q : B -> Prop) (t : ptree A) (k : A -> ptree B) :
  leaves P t -> (forall a, P a -> leaves Q (k a)) -> leaves Q (bind t k).
Proof.
  induction t using ptree_ind2; intros L K.
  - simpl. apply K. exact L.
  - exact I.
  - rewrite bind_choice. apply leaves_choice. apply leaves_choice in L.
    rewrite Forall_forall in *. intros qt Hin. apply in_map_iff in Hin.
    destruct Hin as (x & <- & Hx). simpl. apply H; [exact Hx|apply L; exact Hx|exact K].
Qed.

Lemma leaves_true {A} (t : ptree A) : leaves (fun _ => True) t.
Proof.
  induction t using ptree_ind2; [simpl; exact I|simpl; exact I|].
  apply leaves_choice. exact H.
Qed.

(* ---- teq *)
Lemma teq_refl {A} (t : ptree A) : teq t t.
Proof. intros h. reflexivity. Qed.
Lemma teq_sym {A} (t1 t2 : ptree A) : teq t1 t2 -> teq t2 t1.
Proof. intros H h. symmetry. apply H. Qed.
Lemma teq_trans {A} (t1 t2 t3 : ptree A) : teq t1 t2 -> teq t2 t3 -> teq t1 t3.
Proof. intros H1 H2 h. rewrite (H1 h). apply H2. Qed.

Lemma teq_bind_l {A B} (t1 t2 : ptree A) (k : A -> ptree B) : teq t1 t2 -> teq (bind t1 k) (bind t2 k).
Proof. intros H h. rewrite !expect_bind. apply H. Qed.

Lemma teq_bind_r {A B} (P : A -> Prop) (t : ptree A) (k1 k2 : A -> ptree B) :
  leaves P t -> (forall a, P a -> teq (k1 a) (k2 a)) -> teq (bind t k1) (bind t k2).
Proof.
  intros L K h. rewrite !expect_bind. apply (expect_ext_leaves P); [exact L|].
  intros a Pa. apply K. exact Pa.
Qed.

Lemma teq_bind_assoc {A B C} (t : ptree A) (k1 : A -> ptree B) (k2 : B -> ptree C) :
  teq (bind (bind t k1) k2) (bind t (fun a => bind (k1 a) k2)).
Proof.
  intros h. rewrite !expect_bind. apply expect_ext. intros a. rewrite expect_bind. reflexivity.
Qed.

Lemma teq_mass {A} (t1 t2 : ptree A) : teq t1 t2 -> forall f, mass f t1 == mass f t2.
Proof. intros H f. apply H. Qed.

(* two independent draws can be made in either order *)
Lemma bind_swap {A B C} (t1 : ptree A) (t2 : ptree B) (k : A -> B -> ptree C) :
  teq (bind t1 (fun a => bind t2 (fun b => k a b))) (bind t2 (fun b => bind t1 (fun a => k a b))).
Proof.
  intros h. rewrite !expect_bind.
  transitivity (expect (fun a => expect (fun b => expect h (k a b)) t2) t1).
  { apply expect_ext. intros a. apply expect_bind. }
  rewrite fubini. apply expect_ext. intros b. symmetry. apply expect_bind.
Qed.

(* ---- the RNG calls *)
Lemma wsum_const {B} c (l : list B) : wsum (fun _ => c) l == inject_Z (Z.of_nat (length l)) * c.
Proof.
  induction l; [simpl; ring|].
  change (length (a :: l)) with (S (length l)). rewrite Nat2Z.inj_succ. unfold Z.succ.
  rewrite inject_Z_plus. simpl wsum. rewrite IHl. ring.
Qed.

(* uniform tree: each listed value has probability (number of occurrences)/n; with distinct values 1/n *)
Lemma uniform_tree_expect l vals (h : Z -> Q) : vals <> [] ->
  expect h (uniform_tree l vals) == wsum h vals / inject_Z (Z.of_nat (length vals)).
Proof.
  intros NE. unfold uniform_tree. rewrite expect_choice, wsum_map. simpl.
  set (n := inject_Z (Z.of_nat (length vals))).
  assert (Hn : ~ n == 0).
  { unfold n. destruct vals; [congruence|]. simpl length. rewrite Nat2Z.inj_succ.
    intro E. unfold Qeq in E. simpl in E. lia. }
  transitivity (wsum (fun v => (1 / n) * h v) vals).
  { apply wsum_ext. apply Forall_forall. intros; reflexivity. }
  rewrite wsum_scale. field. exact Hn.
Qed.

Lemma uniform_tree_wf l vals : vals <> [] -> wf_tree (A:=Z) (uniform_tree l vals).
Proof.
  intros NE. unfold uniform_tree. apply wf_choice. split.
  - rewrite wsum_map. simpl. rewrite wsum_const.
    assert (Hn : ~ inject_Z (Z.of_nat (length vals)) == 0).
    { destruct vals; [congruence|]. simpl length. rewrite Nat2Z.inj_succ.
      intro E. unfold Qeq in E. simpl in E. lia. }
    field. exact Hn.
  - apply Forall_forall. intros qt Hin. apply in_map_iff in Hin. destruct Hin as (v & <- & _). simpl.
    split; [|exact I]. apply Qle_shift_div_l.
    + destruct vals; [congruence|]. simpl length. rewrite Nat2Z.inj_succ. unfold Qlt. simpl. lia.
    + rewrite Qmult_0_l. discriminate.
Qed.
