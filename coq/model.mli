
val negb : bool -> bool

type nat =
| O
| S of nat

val length : 'a1 list -> nat

val app : 'a1 list -> 'a1 list -> 'a1 list

type comparison =
| Eq
| Lt
| Gt

val compOpp : comparison -> comparison

val add : nat -> nat -> nat

type positive =
| XI of positive
| XO of positive
| XH

type z =
| Z0
| Zpos of positive
| Zneg of positive

module Nat :
 sig
  val eqb : nat -> nat -> bool
 end

module Pos :
 sig
  val succ : positive -> positive

  val add : positive -> positive -> positive

  val add_carry : positive -> positive -> positive

  val pred_double : positive -> positive

  val mul : positive -> positive -> positive

  val iter : ('a1 -> 'a1) -> 'a1 -> positive -> 'a1

  val size : positive -> positive

  val compare_cont : comparison -> positive -> positive -> comparison

  val compare : positive -> positive -> comparison

  val eqb : positive -> positive -> bool

  val iter_op : ('a1 -> 'a1 -> 'a1) -> positive -> 'a1 -> 'a1

  val to_nat : positive -> nat

  val of_succ_nat : nat -> positive
 end

module Z :
 sig
  val double : z -> z

  val succ_double : z -> z

  val pred_double : z -> z

  val pos_sub : positive -> positive -> z

  val add : z -> z -> z

  val opp : z -> z

  val sub : z -> z -> z

  val mul : z -> z -> z

  val pow_pos : z -> positive -> z

  val pow : z -> z -> z

  val compare : z -> z -> comparison

  val leb : z -> z -> bool

  val ltb : z -> z -> bool

  val eqb : z -> z -> bool

  val max : z -> z -> z

  val abs : z -> z

  val to_nat : z -> nat

  val of_nat : nat -> z

  val pos_div_eucl : positive -> z -> z * z

  val div_eucl : z -> z -> z * z

  val div : z -> z -> z

  val modulo : z -> z -> z

  val log2 : z -> z
 end

val nth_error : 'a1 list -> nat -> 'a1 option

val fold_left : ('a1 -> 'a2 -> 'a1) -> 'a2 list -> 'a1 -> 'a1

val existsb : ('a1 -> bool) -> 'a1 list -> bool

val forallb : ('a1 -> bool) -> 'a1 list -> bool

val combine : 'a1 list -> 'a2 list -> ('a1 * 'a2) list

type byte = z

type bytes = byte list

type err =
| ETrunc
| EBadIndex
| EBadHeader
| EUnsupported
| EFuel

type 'a res =
| OK of 'a
| Err of err

val bind : 'a1 res -> ('a1 -> 'a2 res) -> 'a2 res

val take_exact : nat -> bytes -> (bytes * bytes) res

val le_encode : nat -> z -> bytes

val le_decode : bytes -> z

val pow256 : nat -> z

val to_signed : nat -> z -> bytes

val from_signed : bytes -> z

val bit_length : z -> z

val write_int : z -> bytes option

val read_int : bytes -> (z * bytes) res

val write_bool : bool -> bytes

val read_bool : bytes -> (bool * bytes) res

val write_bytes : bytes -> bytes option

val read_bytes : bytes -> (bytes * bytes) res

type vty =
| TInt
| TBool
| TFloat
| TVec
| TOri
| TStr
| TBytes
| TNone

type val0 =
| VInt of z
| VBool of bool
| VFix of bytes
| VBlob of bytes
| VNone

val fixed_width : vty -> nat

val write_value : vty -> val0 -> bytes option

val read_value : vty -> bytes -> (val0 * bytes) res

type node =
| NFixed
| NPrim of vty
| NDet of nat list
| NMux of nat * nat list

type dag = node list

type seen = nat list

val mem : nat -> seen -> bool

val ival : dag -> (nat -> val0) -> nat -> z option

val needs_sampling : dag -> nat -> bool

val py_index : z -> nat -> nat option

val enc_node :
  dag -> (nat -> val0) -> nat -> nat -> seen -> (bytes * seen) option

val enc_sample : dag -> (nat -> val0) -> nat list -> bytes option

type penv = (nat * val0) list

val plook : nat -> penv -> val0 option

val ieval : dag -> penv -> nat -> z option

val dec_node :
  dag -> nat -> nat -> ((seen * penv) * bytes) -> ((seen * penv) * bytes) res

val dec_sample : dag -> nat list -> bytes -> (penv * bytes) res

type header = { h_version : z; h_ast : bytes; h_opts : bytes }

val write_header : header -> bytes

val bytes_eqb : bytes -> bytes -> bool

val read_header : header -> bytes -> bytes res

val values_have_diverged : z -> z -> z -> bool
