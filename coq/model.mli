
val negb : bool -> bool

type nat =
| O
| S of nat

val fst : ('a1 * 'a2) -> 'a1

val snd : ('a1 * 'a2) -> 'a2

val app : 'a1 list -> 'a1 list -> 'a1 list

type comparison =
| Eq
| Lt
| Gt

val compOpp : comparison -> comparison

val add : nat -> nat -> nat

type positive =
| XI of positive
| XO of positive
| XH

type z =
| Z0
| Zpos of positive
| Zneg of positive

val gmax : ('a1 -> 'a1 -> comparison) -> 'a1 -> 'a1 -> 'a1

val gmin : ('a1 -> 'a1 -> comparison) -> 'a1 -> 'a1 -> 'a1

module Nat :
 sig
  val eqb : nat -> nat -> bool
 end

module Pos :
 sig
  type mask =
  | IsNul
  | IsPos of positive
  | IsNeg
 end

module Coq_Pos :
 sig
  val succ : positive -> positive

  val add : positive -> positive -> positive

  val add_carry : positive -> positive -> positive

  val pred_double : positive -> positive

  type mask = Pos.mask =
  | IsNul
  | IsPos of positive
  | IsNeg

  val succ_double_mask : mask -> mask

  val double_mask : mask -> mask

  val double_pred_mask : positive -> mask

  val sub_mask : positive -> positive -> mask

  val sub_mask_carry : positive -> positive -> mask

  val sub : positive -> positive -> positive

  val mul : positive -> positive -> positive

  val size_nat : positive -> nat

  val compare_cont : comparison -> positive -> positive -> comparison

  val compare : positive -> positive -> comparison

  val ggcdn : nat -> positive -> positive -> positive * (positive * positive)

  val ggcd : positive -> positive -> positive * (positive * positive)
 end

module Z :
 sig
  val double : z -> z

  val succ_double : z -> z

  val pred_double : z -> z

  val pos_sub : positive -> positive -> z

  val add : z -> z -> z

  val opp : z -> z

  val sub : z -> z -> z

  val mul : z -> z -> z

  val compare : z -> z -> comparison

  val sgn : z -> z

  val leb : z -> z -> bool

  val ltb : z -> z -> bool

  val abs : z -> z

  val to_pos : z -> positive

  val pos_div_eucl : positive -> z -> z * z

  val div_eucl : z -> z -> z * z

  val div : z -> z -> z

  val ggcd : z -> z -> z * (z * z)
 end

val zeq_bool : z -> z -> bool

val map : ('a1 -> 'a2) -> 'a1 list -> 'a2 list

val fold_left : ('a1 -> 'a2 -> 'a1) -> 'a2 list -> 'a1 -> 'a1

val fold_right : ('a2 -> 'a1 -> 'a1) -> 'a1 -> 'a2 list -> 'a1

val existsb : ('a1 -> bool) -> 'a1 list -> bool

val forallb : ('a1 -> bool) -> 'a1 list -> bool

val filter : ('a1 -> bool) -> 'a1 list -> 'a1 list

type q = { qnum : z; qden : positive }

val inject_Z : z -> q

val qcompare : q -> q -> comparison

val qeq_bool : q -> q -> bool

val qle_bool : q -> q -> bool

val qplus : q -> q -> q

val qmult : q -> q -> q

val qopp : q -> q

val qminus : q -> q -> q

val qinv : q -> q

val qdiv : q -> q -> q

val qred : q -> q

type vec = { vx : q; vy : q; vz : q }

val vsub : vec -> vec -> vec

val vscale : q -> vec -> vec

val dot : vec -> vec -> q

type mat = { r0 : vec; r1 : vec; r2 : vec }

val mapply : mat -> vec -> vec

val mT : mat -> mat

val qfloor : q -> z

val qabs : q -> q

val qmax : q -> q -> q

val qmin : q -> q -> q

val qltb : q -> q -> bool

val qmod : q -> q -> q

val clip : q -> q -> q -> q

val in_window : q -> q -> bool

val qmin_list : q -> q list -> q

val qmax_list : q -> q list -> q

type xform =
| Old
| Fixed

val local_vec : xform -> mat option -> vec -> vec -> vec

val world_ray : mat option -> vec -> vec

val wrap_az : q -> q -> q

val near_occluders : ('a1 -> q) -> q -> 'a1 list -> 'a1 list

val point_ray : (vec -> q) -> xform -> mat option -> vec -> vec -> vec

val point_az :
  q -> (q -> q -> q) -> (vec -> q) -> xform -> mat option -> vec -> vec -> q

val point_alt :
  (q -> q) -> (vec -> q) -> xform -> mat option -> vec -> vec -> q

val ray_unblocked : ('a1 -> vec -> q list) -> q -> vec -> 'a1 list -> bool

val point_visible :
  q -> (q -> q -> q) -> (q -> q) -> (vec -> q) -> ('a1 -> q) -> ('a1 -> vec
  -> q list) -> xform -> vec -> mat option -> q -> q -> q -> vec -> 'a1 list
  -> bool

val point_margin :
  q -> (q -> q -> q) -> (q -> q) -> (vec -> q) -> xform -> vec -> mat option
  -> q -> q -> q -> vec -> q

type window = { h_lo : q; h_hi : q; v_lo : q; v_hi : q }

val to_back : q -> q -> q

val view_windows :
  q -> q -> q -> bool -> bool -> (q * q) -> (q * q) list -> window list option

val edge_cross : (vec * vec) -> q option

val crosses : (vec * vec) list -> bool * bool

val closest_within : q -> q list -> q option

val candidates : ('a1 -> q list) -> q -> 'a1 list -> ('a1 * q) list

val blocked_by : ('a2 -> 'a1 -> q list) -> 'a2 -> ('a1 * q) -> bool

val batch_survivors :
  ('a1 -> q list) -> ('a2 -> 'a1 -> q list) -> q -> 'a1 list -> 'a2 list ->
  ('a1 * q) list

val rays_visible :
  ('a1 -> q list) -> ('a2 -> 'a1 -> q list) -> q -> 'a1 list list -> 'a2 list
  -> bool

type sobj = { oid : nat; occluding : bool }

val req_potential : sobj list -> nat -> nat -> sobj list

val req_occluders : sobj list -> nat -> nat -> sobj list

val op_occluders : sobj list -> nat option -> nat option -> sobj list

type vkind =
| MustSee
| MustNotSee

type vreq = { rk : vkind; rsrc : nat; rtgt : nat; rocc : sobj list }

val observer_reqs :
  bool -> sobj list -> ((vkind * nat) * nat) list -> vreq list

val default_visibility_reqs :
  bool -> sobj list -> (nat * nat) list -> (nat * nat) list -> nat -> nat
  list -> vreq list
