(* C19 (round 3): run-time DiscreteRange draws with arbitrary rational, state-dependent endpoints and
   the weighted form with a non-zero low endpoint, as statements of the executable model [exec]. *)
From Coq Require Import QArith ZArith List Bool Lia Qround.
From Scenic Require Import C01.Prob C01.ProbProofs C01.ChoiceProofs C01.RangeProofs C19.Choose C19.ChooseProofs.
Import ListNotations.
Open Scope Q_scope.

(* what the statement does while steps are left: one draw from the integers between the endpoint
   VALUES at that moment (computed from the current step and the last value drawn) *)
Theorem exec_draw P maxSteps f lo hi base rest s : Nat.leb maxSteps (time s) = false ->
  exec P maxSteps (S f) (SDrawTake lo hi base :: rest) s =
  bind (ndrange_tree (bval lo s) (bval hi s))
       (fun x => exec P maxSteps f rest (mkState (S (time s)) x ((time s, (base + x)%Z) :: log s))).
Proof. intros E. cbn [exec]. rewrite E. reflexivity. Qed.

Theorem exec_wrange P maxSteps f lo ws base rest s : Nat.leb maxSteps (time s) = false ->
  exec P maxSteps (S f) (SWRangeTake lo ws base :: rest) s =
  bind (wrange_tree lo ws)
       (fun x => exec P maxSteps f rest (mkState (S (time s)) x ((time s, (base + x)%Z) :: log s))).
Proof. intros E. cbn [exec]. rewrite E. reflexivity. Qed.

(* product form: the draw is uniform over the integers between the endpoints whatever the
   continuation does with it (and whatever happened before) *)
Theorem runtime_ndrange_product {A} lo hi (k : Z -> ptree A) (h : A -> Q) :
  (Qceiling lo <= Qfloor hi)%Z ->
  let n := Z.to_nat (Qfloor hi - Qceiling lo + 1) in
  expect h (bind (ndrange_tree lo hi) k) ==
  wsum (fun v => expect h (k v)) (zrange (Qceiling lo) n) / inject_Z (Z.of_nat n).
Proof.
  intros L n. unfold ndrange_tree.
  replace (Z.ltb (Qfloor hi) (Qceiling lo)) with false by (symmetry; apply Z.ltb_ge; exact L).
  apply runtime_draw_product. exact L.
Qed.

(* no integer between the endpoints: the simulation is rejected at that statement *)
Theorem runtime_ndrange_empty {A} lo hi (k : Z -> ptree A) :
  (forall j, in_range lo hi j = false) -> bind (ndrange_tree lo hi) k = Rej.
Proof. intros N. rewrite (ndrange_rejects lo hi N). reflexivity. Qed.

(* weighted range as a statement: the continuation receives low + i with probability w_i / sum *)
Theorem runtime_wrange_product {A} lo ws (k : Z -> ptree A) (h : A -> Q) :
  expect h (bind (wrange_tree lo ws) k) ==
  expect (fun i => expect h (k (lo + i)%Z)) (weighted_tree ws).
Proof.
  unfold wrange_tree. rewrite !expect_bind. apply expect_ext. intros a. reflexivity.
Qed.
