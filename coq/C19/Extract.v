(* Extraction of the C19 model (ExtrOcamlBasic only). *)
From Coq Require Import QArith ZArith List.
From Coq Require Extraction.
From Coq Require Import ExtrOcamlBasic.
From Scenic Require Import C01.Prob C19.Choose.
Extraction Language OCaml.
Extraction "model.ml" paths run_main run_program pick_pos shuffle_order Qred.
