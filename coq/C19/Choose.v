(* C19 model: `do choose` / `do shuffle` (core/dynamics/invocables.py _invokeSubBehavior,
   pickEnabledInvocable) and run-time distribution draws (Distribution.__new__ during a
   simulation), as probability trees over the RNG calls.  Definitions only. *)
From Coq Require Import QArith ZArith List Bool.
From Scenic Require Import C01.Prob.
Import ListNotations.
Open Scope Q_scope.

(* precondition of a sub-behaviour: a test on the current step *)
Inductive guard := GTrue | GFalse | GTimeGe (t : nat) | GTimeLt (t : nat) | GTimeEq (t : nat) | GTimeNe (t : nat).
Definition guard_ok (gd : guard) (t : nat) : bool :=
  match gd with
  | GTrue => true | GFalse => false
  | GTimeGe k => Nat.leb k t | GTimeLt k => Nat.ltb t k
  | GTimeEq k => Nat.eqb t k | GTimeNe k => negb (Nat.eqb t k)
  end.

(* an endpoint of a run-time DiscreteRange: a rational computed from the simulation state,
   c + kt * currentTime + kx * x   (x = the last value drawn) *)
Record bnd := mkBnd { bc : Q; bkt : Q; bkx : Q }.

Inductive stmt :=
| STake (a : Z)                           (* take a : one step *)
| SDrawTake (lo hi : bnd) (base : Z)      (* x = DiscreteRange(lo, hi); take base + x   (any rational endpoints) *)
| SWRangeTake (lo : Z) (ws : list Q) (base : Z)
                                          (* x = DiscreteRange(lo, lo+n-1, weights=ws); take base + x *)
| SWDrawTake (ws : list Q) (base : Z)     (* x = Options({0: w0, 1: w1, ...}); take base + x *)
| SRequire (p : Q) (thr : Z)              (* require[p] x > thr   (x = the last value drawn) *)
| SDo (b : nat)
| SChoose (opts : list (nat * Q))
| SShuffle (opts : list (nat * Q)).

Record behavior := mkBeh { pre : guard; body : list stmt }.
Definition program := list behavior.
Definition beh (P : program) (b : nat) : behavior := nth b P (mkBeh GFalse []).

(* Options({opt: weight, ...}) (core/distributions.py Options.__init__): entries of weight 0 are
   dropped (`if prob == 0: continue`), an empty remainder is a RejectionException ("empty domain"),
   otherwise the selector is DiscreteRange(0, n-1, weights) = random.choices on the cumulative
   weights of the REMAINING entries.  Result: position of the chosen entry in the original dict. *)
Definition nonzero (w : Q) : bool := negb (Qeq_bool w 0).
Definition nzpos (ws : list Q) : list nat :=
  filter (fun k => nonzero (nth k ws 0)) (seq 0 (length ws)).
Definition options_tree (ws : list Q) : ptree nat :=
  match nzpos ws with
  | [] => Rej
  | ps => bind (weighted_tree (map (fun k => nth k ws 0) ps)) (fun z => Ret (nth (Z.to_nat z) ps O))
  end.

(* pickEnabledInvocable: position (in the enabled list) of the chosen item.
   none enabled: RejectSimulationException; exactly one: no draw (whatever its weight);
   else Options(enabled) *)
Definition pick_pos (ws : list Q) : ptree nat :=
  match ws with
  | [] => Rej
  | [_] => Ret O
  | _ => options_tree ws
  end.

Definition enabled (P : program) (t : nat) (opts : list (nat * Q)) : list (nat * Q) :=
  filter (fun o => guard_ok (pre (beh P (fst o))) t) opts.

Fixpoint remove_first (x : nat * Q) (l : list (nat * Q)) (eqb : nat * Q -> nat * Q -> bool) : list (nat * Q) :=
  match l with [] => [] | y :: r => if eqb x y then r else y :: remove_first x r eqb end.

(* positions: items carry their position in the statement so that equal behaviours stay apart *)
Fixpoint number {X : Type} (k : nat) (l : list X) : list (nat * X) :=
  match l with [] => [] | x :: r => (k, x) :: number (S k) r end.

Record state := mkState { time : nat; lastx : Z; log : list (nat * Z) }.   (* log: (step, action), newest first *)

Definition bval (b : bnd) (s : state) : Q :=
  bc b + bkt b * inject_Z (Z.of_nat (time s)) + bkx b * inject_Z (lastx s).

Section Exec.
  Variable P : program.
  Variable maxSteps : nat.

  (* items: (position, (behaviour, weight)) *)
  Definition item := (nat * (nat * Q))%type.
  Definition item_enabled (t : nat) (it : item) : bool := guard_ok (pre (beh P (fst (snd it)))) t.
  Fixpoint drop_pos (p : nat) (l : list item) : list item :=
    match l with [] => [] | it :: r => if Nat.eqb (fst it) p then r else it :: drop_pos p r end.

  Definition pick_item (t : nat) (items : list item) : ptree item :=
    let en := filter (item_enabled t) items in
    bind (pick_pos (map (fun it => snd (snd it)) en))
         (fun k => Ret (nth k en (O, (O, 0)))).

  (* statements run only while the simulation has steps left; a behaviour invoked by `do`
     whose precondition fails is a PreconditionViolation: outside the fragment, modelled as Rej *)
  Fixpoint exec (fuel : nat) (ss : list stmt) (s : state) : ptree state :=
    match fuel with
    | O => Rej
    | S f =>
        match ss with
        | [] => Ret s
        | st :: rest =>
            if Nat.leb maxSteps (time s) then Ret s
            else
              let step a x := mkState (S (time s)) x ((time s, a) :: log s) in
              match st with
              | STake a => exec f rest (step a (lastx s))
              | SDrawTake lo hi base =>        (* ceil(lo) .. floor(hi); empty: RejectionException *)
                  bind (ndrange_tree (bval lo s) (bval hi s)) (fun x => exec f rest (step (base + x)%Z x))
              | SWRangeTake lo ws base =>
                  bind (wrange_tree lo ws) (fun x => exec f rest (step (base + x)%Z x))
              | SWDrawTake ws base =>
                  bind (options_tree ws) (fun k => let x := Z.of_nat k in exec f rest (step (base + x)%Z x))
              | SRequire p thr =>
                  if Qle_bool 1 p then (if Z.ltb thr (lastx s) then exec f rest s else Rej)
                  else bind (bern_tree p) (fun on =>
                         if on then (if Z.ltb thr (lastx s) then exec f rest s else Rej)
                         else exec f rest s)
              | SDo b =>
                  if guard_ok (pre (beh P b)) (time s)
                  then bind (exec f (body (beh P b)) s) (fun s' => exec f rest s')
                  else Rej
              | SChoose opts =>
                  bind (pick_item (time s) (number O opts))
                       (fun it => bind (exec f (body (beh P (fst (snd it)))) s) (fun s' => exec f rest s'))
              | SShuffle opts =>
                  bind (shuffle f f (number O opts) s) (fun r => exec f rest (fst r))
              end
        end
    end
  (* `while subs: choice = pickEnabledInvocable(subs); subs.pop(choice); run choice`.
     Returns the final state and (for the theorems only; `exec` discards it) the positions of the
     items in the order they were run. *)
  with shuffle (fuel : nat) (n : nat) (items : list item) (s : state) : ptree (state * list nat) :=
    match fuel with
    | O => Rej
    | S f =>
        match items with
        | [] => Ret (s, [])
        | _ =>
            if Nat.leb maxSteps (time s) then Ret (s, [])
            else
              bind (pick_item (time s) items)
                (fun it => bind (exec f (body (beh P (fst (snd it)))) s)
                             (fun s' => bind (shuffle f n (drop_pos (fst it) items) s')
                                          (fun r => Ret (fst r, fst it :: snd r))))
        end
    end.
End Exec.

Definition run_main (P : program) (maxSteps fuel : nat) (main : nat) : ptree state :=
  exec P maxSteps fuel (body (beh P main)) (mkState O 0 []).

(* The same invocables as behaviours of an agent or as compose blocks of modular scenarios
   (sub-scenarios invoked by do / do choose / do shuffle from the compose block of the top-level
   scenario): pickEnabledInvocable and the shuffle loop are shared (Invocable._invokeSubBehavior).
   They differ in when the simulator stops resuming them: Simulation._run steps the compose blocks
   first and tests the time limit afterwards, so a compose block's code still runs (up to its
   next `wait`) at currentTime = maxSteps; behaviours are not resumed at that time. *)
Inductive form := FBehavior | FCompose.
Definition step_limit (fm : form) (maxSteps : nat) : nat :=
  match fm with FBehavior => maxSteps | FCompose => S maxSteps end.
Definition run_program (fm : form) (P : program) (maxSteps fuel : nat) (main : nat) : ptree state :=
  run_main P (step_limit fm maxSteps) fuel main.

(* ---- the abstract shuffle used by the permutation theorem: the executed order, with
   enabledness an arbitrary function of (stage clock, item) and each item advancing the clock *)
Section AbstractShuffle.
  Variable en : nat -> nat -> bool.            (* clock -> position -> enabled *)
  Variable dur : nat -> nat.                   (* steps taken by the item at a position *)
  Fixpoint drop (p : nat) (l : list (nat * Q)) : list (nat * Q) :=
    match l with [] => [] | it :: r => if Nat.eqb (fst it) p then r else it :: drop p r end.
  Fixpoint shuffle_order (fuel : nat) (items : list (nat * Q)) (clock : nat) : ptree (list nat) :=
    match fuel with
    | O => match items with [] => Ret [] | _ => Rej end
    | S f =>
        match items with
        | [] => Ret []
        | _ =>
            let e := filter (fun it => en clock (fst it)) items in
            bind (pick_pos (map snd e))
              (fun k => let it := nth k e (O, 0) in
                        bind (shuffle_order f (drop (fst it) items) (clock + dur (fst it)))
                             (fun r => Ret (fst it :: r)))
        end
    end.
End AbstractShuffle.
