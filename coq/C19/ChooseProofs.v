(* do choose / do shuffle: weight-proportional choice among the enabled items, exactly one item,
   no draw when only one is enabled, deadlock rejects, shuffle runs a permutation. *)
From Coq Require Import QArith ZArith List Bool Lia Permutation.
From Scenic Require Import C01.Prob C01.ProbProofs C01.ChoiceProofs C19.Choose.
Import ListNotations.
Open Scope Q_scope.

Lemma zrange_bounds : forall n lo x, In x (zrange lo n) -> (lo <= x < lo + Z.of_nat n)%Z.
Proof.
  induction n; intros lo x Hx; simpl in Hx; [destruct Hx|]. destruct Hx as [<-|Hx]; [lia|].
  apply IHn in Hx. lia.
Qed.

Lemma zrange_length : forall n lo, length (zrange lo n) = n.
Proof. induction n; intros; simpl; auto. Qed.

Lemma leaves_weighted ws : leaves (fun z => (0 <= z < Z.of_nat (length ws))%Z) (weighted_tree ws).
Proof.
  unfold weighted_tree, choices_tree. apply leaves_choice. apply Forall_forall.
  intros qt Hin. apply in_map_iff in Hin. destruct Hin as ([k w] & <- & Hin). simpl.
  apply in_combine_l in Hin. apply zrange_bounds in Hin. rewrite accumulate_length in Hin. lia.
Qed.

Lemma leaves_pick_pos ws : leaves (fun k => (k < length ws)%nat) (pick_pos ws).
Proof.
  destruct ws as [|w [|w2 r]]; [simpl; exact I|simpl; lia|].
  unfold pick_pos.
  apply (leaves_bind (fun z => (0 <= z < Z.of_nat (length (w :: w2 :: r)))%Z)).
  - apply leaves_weighted.
  - intros z Hz. simpl. simpl length in Hz. lia.
Qed.

(* P(the i-th enabled item is picked) = w_i / sum of the enabled weights *)
Theorem choose_prob ws i : (2 <= length ws)%nat -> (i < length ws)%nat ->
  mass (Nat.eqb i) (pick_pos ws) == nth i ws 0 / qsum ws.
Proof.
  intros L2 Li. destruct ws as [|w [|w2 r]]; simpl in L2; try lia.
  rewrite <- (weighted_prob (w :: w2 :: r) i Li).
  unfold pick_pos, mass. rewrite expect_bind.
  apply (expect_ext_leaves _ _ _ _ (leaves_weighted (w :: w2 :: r))).
  intros z Hz. simpl.
  destruct (Z.eqb_spec z (Z.of_nat i)) as [->|N].
  - rewrite Nat2Z.id, Nat.eqb_refl. reflexivity.
  - replace (Nat.eqb i (Z.to_nat z)) with false; [reflexivity|].
    symmetry. apply Nat.eqb_neq. intro E. apply N. subst. rewrite Z2Nat.id; lia.
Qed.

(* exactly one enabled: it is taken and the RNG is not consulted *)
Theorem choose_single_no_draw w : pick_pos [w] = Ret O.
Proof. reflexivity. Qed.

(* none enabled: the simulation is rejected *)
Theorem deadlock_rejects P t items :
  filter (item_enabled P t) items = [] -> pick_item P t items = Rej.
Proof. intros E. unfold pick_item. rewrite E. reflexivity. Qed.

(* the item run by `do choose` is one of the listed items and is enabled at the current step *)
Theorem choose_exactly_one P t items :
  leaves (fun it => In it items /\ item_enabled P t it = true) (pick_item P t items).
Proof.
  unfold pick_item. set (en := filter (item_enabled P t) items).
  apply (leaves_bind (fun k => (k < length (map (fun it : item => snd (snd it)) en))%nat)).
  - apply leaves_pick_pos.
  - intros k Hk. simpl. rewrite map_length in Hk.
    assert (Hin : In (nth k en (O, (O, 0))) en) by (apply nth_In; exact Hk).
    unfold en in Hin. apply filter_In in Hin. exact Hin.
Qed.

(* ---- shuffle *)
Lemma drop_perm : forall items it, In it items ->
  Permutation (fst it :: map fst (drop (fst it) items)) (map fst items) /\
  length (drop (fst it) items) = pred (length items).
Proof.
  induction items as [|a r IH]; intros it Hin; [destruct Hin|]. simpl.
  destruct (Nat.eqb (fst a) (fst it)) eqn:E.
  - apply Nat.eqb_eq in E. rewrite E. split; [apply Permutation_refl|reflexivity].
  - destruct Hin as [->|Hin]; [rewrite Nat.eqb_refl in E; discriminate|].
    destruct (IH it Hin) as (Pm & Len). split.
    + simpl. eapply perm_trans; [apply perm_swap|]. apply perm_skip. exact Pm.
    + simpl. rewrite Len. destruct r; [destruct Hin|reflexivity].
Qed.

(* every completed shuffle runs each listed item exactly once *)
Theorem shuffle_permutation en dur : forall fuel items clock,
  (length items <= fuel)%nat ->
  leaves (fun l => Permutation l (map fst items)) (shuffle_order en dur fuel items clock).
Proof.
  induction fuel as [|f IH]; intros items clock L.
  - destruct items; simpl in *; [apply Permutation_refl|lia].
  - destruct items as [|it0 r]; [simpl; apply Permutation_refl|].
    cbn [shuffle_order].
    set (items := it0 :: r) in *.
    set (e := filter (fun it => en clock (fst it)) items).
    apply (leaves_bind (fun k => (k < length (map snd e))%nat)); [apply leaves_pick_pos|].
    intros k Hk. rewrite map_length in Hk.
    assert (Hin : In (nth k e (O, 0)) items).
    { assert (H : In (nth k e (O, 0)) e) by (apply nth_In; exact Hk).
      unfold e in H. apply filter_In in H. apply H. }
    destruct (drop_perm items _ Hin) as (Pm & Len).
    apply (leaves_bind (fun l => Permutation l (map fst (drop (fst (nth k e (O, 0))) items)))).
    + apply IH. rewrite Len. unfold items in *. simpl in *. lia.
    + intros l Pl. simpl. eapply perm_trans; [apply perm_skip; exact Pl|exact Pm].
Qed.

(* each stage of the shuffle is a `pick` among the not-yet-run items enabled at that moment *)
Theorem shuffle_stage en dur f it0 r clock :
  shuffle_order en dur (S f) (it0 :: r) clock =
  bind (pick_pos (map snd (filter (fun it => en clock (fst it)) (it0 :: r))))
       (fun k => let it := nth k (filter (fun it => en clock (fst it)) (it0 :: r)) (O, 0) in
                 bind (shuffle_order en dur f (drop (fst it) (it0 :: r)) (clock + dur (fst it)))
                      (fun rest => Ret (fst it :: rest))).
Proof. reflexivity. Qed.

(* a run-time DiscreteRange draw is uniform whatever happened before: product form *)
Theorem runtime_draw_product {A} lo hi (k : Z -> ptree A) (h : A -> Q) : (lo <= hi)%Z ->
  expect h (bind (randint_tree lo hi) k) ==
  wsum (fun v => expect h (k v)) (zrange lo (Z.to_nat (hi - lo + 1))) /
  inject_Z (Z.of_nat (Z.to_nat (hi - lo + 1))).
Proof.
  intros L. rewrite expect_bind. unfold randint_tree.
  rewrite uniform_tree_expect.
  - rewrite zrange_length. reflexivity.
  - destruct (Z.to_nat (hi - lo + 1)) eqn:E; [lia|]. simpl. discriminate.
Qed.
