(* do choose / do shuffle: weight-proportional choice among the enabled items, exactly one item,
   no draw when only one is enabled, deadlock rejects, shuffle runs a permutation. *)
From Coq Require Import QArith ZArith List Bool Lia Permutation.
From Scenic Require Import C01.Prob C01.ProbProofs C01.ChoiceProofs C19.Choose.
Import ListNotations.
Open Scope Q_scope.

Lemma zrange_bounds : forall n lo x, In x (zrange lo n) -> (lo <= x < lo + Z.of_nat n)%Z.
Proof.
  induction n; intros lo x Hx; simpl in Hx; [destruct Hx|]. destruct Hx as [<-|Hx]; [lia|].
  apply IHn in Hx. lia.
Qed.

Lemma zrange_length : forall n lo, length (zrange lo n) = n.
Proof. induction n; intros; simpl; auto. Qed.

Lemma leaves_weighted ws : leaves (fun z => (0 <= z < Z.of_nat (length ws))%Z) (weighted_tree ws).
Proof.
  unfold weighted_tree, choices_tree. apply leaves_choice. apply Forall_forall.
  intros qt Hin. apply in_map_iff in Hin. destruct Hin as ([k w] & <- & Hin). simpl.
  apply in_combine_l in Hin. apply zrange_bounds in Hin. rewrite accumulate_length in Hin. lia.
Qed.

(* ---- Options(dict): zero weights are dropped *)
Lemma nzpos_In ws i : In i (nzpos ws) <-> (i < length ws)%nat /\ nonzero (nth i ws 0) = true.
Proof. unfold nzpos. rewrite filter_In, in_seq. simpl. intuition lia. Qed.

Lemma nzpos_NoDup ws : NoDup (nzpos ws).
Proof. apply NoDup_filter, seq_NoDup. Qed.

Lemma nonzero_false w : nonzero w = false -> w == 0.
Proof. unfold nonzero. intros H. apply negb_false_iff in H. apply Qeq_bool_iff in H. exact H. Qed.

Lemma nonzero_true w : nonzero w = true -> ~ w == 0.
Proof. unfold nonzero. intros H E. apply Qeq_bool_iff in E. rewrite E in H. discriminate. Qed.

Lemma qsum_filter_nz (f : nat -> Q) l :
  qsum (map f (filter (fun k => nonzero (f k)) l)) == qsum (map f l).
Proof.
  unfold qsum. induction l as [|a r IH]; [reflexivity|]. cbn [filter map].
  destruct (nonzero (f a)) eqn:E; cbn [map wsum].
  - rewrite IH. reflexivity.
  - rewrite IH, (nonzero_false _ E). ring.
Qed.

Lemma map_nth_seq (ws : list Q) : map (fun k => nth k ws 0) (seq 0 (length ws)) = ws.
Proof.
  apply (nth_ext _ _ (nth O ws 0) 0).
  - rewrite map_length, seq_length. reflexivity.
  - intros n Hn. rewrite map_length, seq_length in Hn.
    rewrite (map_nth (fun k => nth k ws 0) (seq 0 (length ws)) O n).
    rewrite seq_nth by exact Hn. reflexivity.
Qed.

Lemma qsum_nzpos ws : qsum (map (fun k => nth k ws 0) (nzpos ws)) == qsum ws.
Proof.
  unfold nzpos. rewrite (qsum_filter_nz (fun k => nth k ws 0)). rewrite map_nth_seq. reflexivity.
Qed.

(* every result of Options(dict) is an entry of non-zero weight *)
Lemma leaves_options ws :
  leaves (fun k => (k < length ws)%nat /\ nonzero (nth k ws 0) = true) (options_tree ws).
Proof.
  unfold options_tree. destruct (nzpos ws) as [|p0 ps'] eqn:E; [exact I|]. rewrite <- E.
  apply (leaves_bind (fun z => (0 <= z < Z.of_nat (length (map (fun k => nth k ws 0%Q) (nzpos ws))))%Z)).
  - apply leaves_weighted.
  - intros z Hz. simpl. rewrite map_length in Hz. apply nzpos_In. apply nth_In. lia.
Qed.

Theorem zero_weight_never_picked ws :
  leaves (fun k => ~ nth k ws 0 == 0) (options_tree ws).
Proof.
  eapply leaves_impl; [|apply leaves_options]. intros k (_ & H). apply nonzero_true. exact H.
Qed.

(* P(entry i) = w_i / sum of all weights (zero-weight entries: probability 0; all weights zero:
   rejection, and x / 0 = 0 in Q) *)
Theorem options_prob ws i : (i < length ws)%nat ->
  mass (Nat.eqb i) (options_tree ws) == nth i ws 0 / qsum ws.
Proof.
  intros Li. unfold options_tree.
  destruct (nonzero (nth i ws 0)) eqn:Nz.
  - assert (Hin : In i (nzpos ws)) by (apply nzpos_In; split; assumption).
    destruct (nzpos ws) as [|p0 ps'] eqn:E; [destruct Hin|]. rewrite <- E in *.
    set (ps := nzpos ws) in *. set (w := fun k => nth k ws 0).
    destruct (In_nth ps i O Hin) as (j & Lj & Ej).
    unfold mass. rewrite expect_bind.
    transitivity (mass (fun z => Z.eqb z (Z.of_nat j)) (weighted_tree (map w ps))).
    + unfold mass. apply (expect_ext_leaves _ _ _ _ (leaves_weighted (map w ps))).
      intros z Hz. rewrite map_length in Hz. simpl.
      destruct (Z.eqb_spec z (Z.of_nat j)) as [->|N].
      * rewrite Nat2Z.id, Ej, Nat.eqb_refl. reflexivity.
      * replace (Nat.eqb i (nth (Z.to_nat z) ps O)) with false; [reflexivity|].
        symmetry. apply Nat.eqb_neq. intro Ei. apply N.
        assert (Z.to_nat z = j).
        { apply (proj1 (NoDup_nth ps O) (nzpos_NoDup ws)); [lia|exact Lj|]. rewrite Ej. symmetry. exact Ei. }
        lia.
    + rewrite weighted_prob by (rewrite map_length; exact Lj).
      assert (Hn : nth j (map w ps) 0 = nth i ws 0).
      { rewrite (nth_indep _ 0 (w O)) by (rewrite map_length; exact Lj).
        rewrite (map_nth w ps O j). rewrite Ej. reflexivity. }
      rewrite Hn. unfold ps, w. rewrite qsum_nzpos. reflexivity.
  - rewrite (nonzero_false _ Nz).
    assert (R0 : 0 / qsum ws == 0) by (unfold Qdiv; ring). rewrite R0.
    destruct (nzpos ws) as [|p0 ps'] eqn:E; [reflexivity|]. rewrite <- E.
    unfold mass. rewrite expect_bind.
    rewrite <- (expect_zero (weighted_tree (map (fun k => nth k ws 0) (nzpos ws)))).
    apply (expect_ext_leaves _ _ _ _ (leaves_weighted _)).
    intros z Hz. rewrite map_length in Hz. simpl.
    replace (Nat.eqb i (nth (Z.to_nat z) (nzpos ws) O)) with false; [reflexivity|].
    symmetry. apply Nat.eqb_neq. intro Ei.
    assert (Hin : In (nth (Z.to_nat z) (nzpos ws) O) (nzpos ws)) by (apply nth_In; lia).
    rewrite <- Ei in Hin. apply nzpos_In in Hin. destruct Hin as (_ & H). rewrite H in Nz. discriminate.
Qed.

Lemma leaves_pick_pos ws : leaves (fun k => (k < length ws)%nat) (pick_pos ws).
Proof.
  destruct ws as [|w [|w2 r]]; [simpl; exact I|simpl; lia|].
  unfold pick_pos. eapply leaves_impl; [|apply leaves_options]. intros k (H & _). exact H.
Qed.

(* P(the i-th enabled item is picked) = w_i / sum of the enabled weights *)
Theorem choose_prob ws i : (2 <= length ws)%nat -> (i < length ws)%nat ->
  mass (Nat.eqb i) (pick_pos ws) == nth i ws 0 / qsum ws.
Proof.
  intros L2 Li. destruct ws as [|w [|w2 r]]; simpl in L2; try lia.
  unfold pick_pos. apply options_prob. exact Li.
Qed.

(* with >= 2 enabled items an item of weight 0 is never picked *)
Theorem choose_zero_weight_never ws : (2 <= length ws)%nat ->
  leaves (fun k => ~ nth k ws 0 == 0) (pick_pos ws).
Proof.
  intros L2. destruct ws as [|w [|w2 r]]; simpl in L2; try lia.
  unfold pick_pos. apply zero_weight_never_picked.
Qed.

(* exactly one enabled: it is taken and the RNG is not consulted *)
Theorem choose_single_no_draw w : pick_pos [w] = Ret O.
Proof. reflexivity. Qed.

(* none enabled: the simulation is rejected *)
Theorem deadlock_rejects P t items :
  filter (item_enabled P t) items = [] -> pick_item P t items = Rej.
Proof. intros E. unfold pick_item. rewrite E. reflexivity. Qed.

(* the item run by `do choose` is one of the listed items and is enabled at the current step *)
Theorem choose_exactly_one P t items :
  leaves (fun it => In it items /\ item_enabled P t it = true) (pick_item P t items).
Proof.
  unfold pick_item. set (en := filter (item_enabled P t) items).
  apply (leaves_bind (fun k => (k < length (map (fun it : item => snd (snd it)) en))%nat)).
  - apply leaves_pick_pos.
  - intros k Hk. simpl. rewrite map_length in Hk.
    assert (Hin : In (nth k en (O, (O, 0))) en) by (apply nth_In; exact Hk).
    unfold en in Hin. apply filter_In in Hin. exact Hin.
Qed.

(* ---- shuffle *)
Lemma drop_perm : forall items it, In it items ->
  Permutation (fst it :: map fst (drop (fst it) items)) (map fst items) /\
  length (drop (fst it) items) = pred (length items).
Proof.
  induction items as [|a r IH]; intros it Hin; [destruct Hin|]. simpl.
  destruct (Nat.eqb (fst a) (fst it)) eqn:E.
  - apply Nat.eqb_eq in E. rewrite E. split; [apply Permutation_refl|reflexivity].
  - destruct Hin as [->|Hin]; [rewrite Nat.eqb_refl in E; discriminate|].
    destruct (IH it Hin) as (Pm & Len). split.
    + simpl. eapply perm_trans; [apply perm_swap|]. apply perm_skip. exact Pm.
    + simpl. rewrite Len. destruct r; [destruct Hin|reflexivity].
Qed.

(* every completed shuffle runs each listed item exactly once *)
Theorem shuffle_permutation en dur : forall fuel items clock,
  (length items <= fuel)%nat ->
  leaves (fun l => Permutation l (map fst items)) (shuffle_order en dur fuel items clock).
Proof.
  induction fuel as [|f IH]; intros items clock L.
  - destruct items; simpl in *; [apply Permutation_refl|lia].
  - destruct items as [|it0 r]; [simpl; apply Permutation_refl|].
    cbn [shuffle_order].
    set (items := it0 :: r) in *.
    set (e := filter (fun it => en clock (fst it)) items).
    apply (leaves_bind (fun k => (k < length (map snd e))%nat)); [apply leaves_pick_pos|].
    intros k Hk. rewrite map_length in Hk.
    assert (Hin : In (nth k e (O, 0)) items).
    { assert (H : In (nth k e (O, 0)) e) by (apply nth_In; exact Hk).
      unfold e in H. apply filter_In in H. apply H. }
    destruct (drop_perm items _ Hin) as (Pm & Len).
    apply (leaves_bind (fun l => Permutation l (map fst (drop (fst (nth k e (O, 0))) items)))).
    + apply IH. rewrite Len. unfold items in *. simpl in *. lia.
    + intros l Pl. simpl. eapply perm_trans; [apply perm_skip; exact Pl|exact Pm].
Qed.

(* each stage of the shuffle is a `pick` among the not-yet-run items enabled at that moment *)
Theorem shuffle_stage en dur f it0 r clock :
  shuffle_order en dur (S f) (it0 :: r) clock =
  bind (pick_pos (map snd (filter (fun it => en clock (fst it)) (it0 :: r))))
       (fun k => let it := nth k (filter (fun it => en clock (fst it)) (it0 :: r)) (O, 0) in
                 bind (shuffle_order en dur f (drop (fst it) (it0 :: r)) (clock + dur (fst it)))
                      (fun rest => Ret (fst it :: rest))).
Proof. reflexivity. Qed.

(* a run-time DiscreteRange draw is uniform whatever happened before: product form *)
Theorem runtime_draw_product {A} lo hi (k : Z -> ptree A) (h : A -> Q) : (lo <= hi)%Z ->
  expect h (bind (randint_tree lo hi) k) ==
  wsum (fun v => expect h (k v)) (zrange lo (Z.to_nat (hi - lo + 1))) /
  inject_Z (Z.of_nat (Z.to_nat (hi - lo + 1))).
Proof.
  intros L. rewrite expect_bind. unfold randint_tree.
  rewrite uniform_tree_expect.
  - rewrite zrange_length. reflexivity.
  - destruct (Z.to_nat (hi - lo + 1)) eqn:E; [lia|]. simpl. discriminate.
Qed.

(* ---- the executable shuffle (the [shuffle] of [exec], sub-behaviour bodies run in between) *)
Lemma drop_pos_perm : forall (items : list item) (it : item), In it items ->
  Permutation (fst it :: map fst (drop_pos (fst it) items)) (map fst items).
Proof.
  induction items as [|a r IH]; intros it Hin; [destruct Hin|]. simpl.
  destruct (Nat.eqb (fst a) (fst it)) eqn:E.
  - apply Nat.eqb_eq in E. rewrite E. apply Permutation_refl.
  - destruct Hin as [->|Hin]; [rewrite Nat.eqb_refl in E; discriminate|].
    simpl. eapply perm_trans; [apply perm_swap|]. apply perm_skip. apply IH. exact Hin.
Qed.

(* every shuffle that completes before the simulation's time limit has run each listed item
   exactly once (whatever the sub-behaviours did in between) *)
Theorem shuffle_exec_permutation P maxSteps : forall fuel n items s,
  leaves (fun r => (time (fst r) < maxSteps)%nat -> Permutation (snd r) (map fst items))
         (shuffle P maxSteps fuel n items s).
Proof.
  induction fuel as [|f IH]; intros n items s; [exact I|].
  destruct items as [|it0 r]; [simpl; intros _; apply Permutation_refl|].
  cbn [shuffle]. set (items := it0 :: r) in *.
  destruct (Nat.leb maxSteps (time s)) eqn:Et.
  - simpl. intros Hlt. apply Nat.leb_le in Et. lia.
  - apply (leaves_bind (fun it => In it items /\ item_enabled P (time s) it = true));
      [apply choose_exactly_one|].
    intros it (Hin & _).
    apply (leaves_bind (fun _ => True)); [apply leaves_true|]. intros s' _.
    eapply leaves_bind; [apply (IH n (drop_pos (fst it) items) s')|].
    intros r' Hr. simpl. intros Hlt.
    eapply perm_trans; [apply perm_skip; apply Hr; exact Hlt|]. apply drop_pos_perm. exact Hin.
Qed.

(* each stage of the executable shuffle: a pick among the not-yet-run items enabled at the current
   step, the picked item's body, then the shuffle of the others *)
Theorem shuffle_exec_stage P maxSteps f n it0 r s : Nat.leb maxSteps (time s) = false ->
  shuffle P maxSteps (S f) n (it0 :: r) s =
  bind (pick_item P (time s) (it0 :: r))
    (fun it => bind (exec P maxSteps f (body (beh P (fst (snd it)))) s)
       (fun s' => bind (shuffle P maxSteps f n (drop_pos (fst it) (it0 :: r)) s')
          (fun r' => Ret (fst r', fst it :: snd r')))).
Proof. intros E. cbn [shuffle]. rewrite E. reflexivity. Qed.
