(* C16 — evaluators for generated correspondence cases (kernel path: gen/C16_*.v). Definitions only. *)
From Coq Require Import QArith Qabs List Bool ZArith NArith.
From Scenic Require Import C16.RegionAlg C16.Project C16.Pass1.
Import ListNotations.
Open Scope Q_scope.

Definition close (a b tol : Q) : bool := Qle_bool (Qabs (a - b)) tol.

Inductive pcase :=
| CDiscMem (c : pt) (R : Q) (p : pt) (expect : bool)
| CDiscDist (c : pt) (R : Q) (p : pt) (rho impl_d tol : Q)
| CDiscDisc (c1 : pt) (R1 : Q) (c2 : pt) (R2 : Q) (expect : bool)
| CSectorMem (c : pt) (R half va : Q) (p : pt) (expect : bool)
| CRectMem (cx cy co si hw hl x y : Q) (expect : bool)
| CRectAABB (co si hw hl hx hy tol : Q)
| CBoxMem (hx hy hz u v w : Q) (expect : bool)
| CBoxDist (hx hy hz u v w impl_d tol : Q)
| CSphMem (a b c u v w : Q) (expect : bool)
| CPointSetMem (pts : list pt) (tol : Q) (p : pt) (expect : bool)
| CGridMem (grid : list (list Z)) (Ax Ay Bx By : Q) (sx sy : Z) (x y : Q) (expect : bool)
| CComp (r : region) (p : pt) (expect : bool)
| CProject (contains : bool) (ts : list Q) (impl : option Q) (tol : Q)
| CPass1 (position : pt) (vs : list pt) (r tol : Q)
| CPass1Ix (c1 : pt) (r1 : Q) (c2 : pt) (r2 : Q) (impl_intersects : bool).

Definition eval_case (c : pcase) : bool :=
  match c with
  | CDiscMem c R p e => Bool.eqb (disc_member c R p) e
  | CDiscDist c R p rho d tol => close (disc_dist_sq c R p rho) (d * d) tol
  | CDiscDisc c1 R1 c2 R2 e => Bool.eqb (disc_disc_intersects c1 R1 c2 R2) e
  | CSectorMem c R half va p e => Bool.eqb (sector_member c R half va p) e
  | CRectMem cx cy co si hw hl x y e => Bool.eqb (rect_member cx cy co si hw hl x y) e
  | CRectAABB co si hw hl hx hy tol => close (rect_aabb_hx co si hw hl) hx tol && close (rect_aabb_hy co si hw hl) hy tol
  | CBoxMem hx hy hz u v w e => Bool.eqb (box_member hx hy hz u v w) e
  | CBoxDist hx hy hz u v w d tol => close (box_dist_sq hx hy hz u v w) (d * d) tol
  | CSphMem a b c u v w e => Bool.eqb (spheroid_member a b c u v w) e
  | CPointSetMem pts tol p e => Bool.eqb (pointset_member pts tol p) e
  | CGridMem g Ax Ay Bx By sx sy x y e => Bool.eqb (grid_member g Ax Ay Bx By sx sy x y) e
  | CComp r p e => Bool.eqb (contains r p) e
  | CProject c ts impl tol =>
      match project_vector c ts, impl with
      | Some t, Some t' =>
          (* the same crossing, or (a tie) another crossing at the same distance *)
          close t t' tol || (close (Qabs t) (Qabs t') tol && existsb (fun x => close x t' tol) ts)
      | None, None => true
      | _, _ => false
      end
  (* the fallback circumradius is the largest vertex distance from the region's POSITION *)
  | CPass1 p vs r tol => Qle_bool 0 r && close (circumradius_sq p vs) (r * r) tol
  (* whenever PASS 1 separates the operands the implementation answers False *)
  | CPass1Ix c1 r1 c2 r2 impl => implb (pass1_disjoint c1 r1 c2 r2) (negb impl)
  end.

(* indices of failing cases *)
Fixpoint failing (i : N) (cs : list pcase) : list N :=
  match cs with
  | [] => []
  | c :: rest => if eval_case c then failing (N.succ i) rest else i :: failing (N.succ i) rest
  end.

Fixpoint failing_cases (fuel maxrev : nat) (t : list entry) (i : N) (cs : list dcase) : list N :=
  match cs with
  | [] => []
  | c :: rest => if case_ok fuel maxrev t c then failing_cases fuel maxrev t (N.succ i) rest
                 else i :: failing_cases fuel maxrev t (N.succ i) rest
  end.
Fixpoint failing_entries (rank : N -> nat) (lvl : N -> bool) (D : nat) (i : N) (t : list entry) : list N :=
  match t with
  | [] => []
  | e :: rest => if entry_ok rank lvl D e then failing_entries rank lvl D (N.succ i) rest
                 else i :: failing_entries rank lvl D (N.succ i) rest
  end.
Definition in_list (l : list N) (k : N) : bool := existsb (N.eqb k) l.
Fixpoint assoc_rank (l : list (N * nat)) (k : N) : nat :=
  match l with [] => 0%nat | (k', v) :: rest => if N.eqb k k' then v else assoc_rank rest k end.
