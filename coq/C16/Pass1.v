(* C16 - PASS 1 of MeshVolumeRegion.intersects (regions.py): two mesh volumes are declared disjoint when the distance
   between their nominal positions exceeds the sum of their circumradii.  Definitions only.
   Square roots enter as arguments: the code's radius r is a binary64 with r*r >= max |v - centre|^2 (checked per case). *)
From Coq Require Import QArith List Bool.
From Scenic Require Import C16.RegionAlg.
Import ListNotations.
Open Scope Q_scope.

(* largest squared distance of the vertices from a centre: numpy.max(numpy.linalg.norm(vertices - centre, axis=1)) ** 2 *)
Fixpoint max_d3sq (c : pt) (vs : list pt) : Q :=
  match vs with
  | [] => 0
  | v :: r => let m := max_d3sq c r in if Qle_bool m (d3sq c v) then d3sq c v else m
  end.

Definition origin : pt := mkpt 0 0 0.

(* the repaired fallback measures about the region's position, the code before the repair (and the seeded variant
   "about the bounding-box centre") about some other point *)
Definition circumradius_sq (position : pt) (vs : list pt) : Q := max_d3sq position vs.
Definition circumradius_sq_old (position : pt) (vs : list pt) : Q := max_d3sq origin vs.

(* r is an admissible value of sqrt R *)
Definition radius_of (R r : Q) : Prop := 0 <= r /\ R <= r * r.

(* PASS 1: `if center_distance > self._circumradius + other._circumradius: return False`, both sides squared *)
Definition pass1_disjoint (c1 : pt) (r1 : Q) (c2 : pt) (r2 : Q) : bool :=
  negb (Qle_bool (d3sq c1 c2) (sq (r1 + r2))).

(* a set of points all within r of c *)
Definition within (mem : pt -> Prop) (c : pt) (r : Q) : Prop := 0 <= r /\ forall x, mem x -> d3sq c x <= sq r.

(* the point (1-t) a + t b of the segment a b *)
Definition lerp (t : Q) (a b : pt) : pt :=
  mkpt ((1 - t) * px a + t * px b) ((1 - t) * py a + t * py b) ((1 - t) * pz a + t * pz b).
