(* C16 — MeshRegion.projectVector ("on" with a direction): the point is returned if the region contains it;
   otherwise one ray is cast along the direction and one along its negation, each reports its FIRST hit, and the
   nearer of the two is returned (None when neither ray hits).  The model works with the signed parameters t of the
   crossings of the line  p + t * d  with the region's surface ([ts], in any order).  Definitions only. *)
From Coq Require Import QArith Qabs List Bool.
Import ListNotations.
Open Scope Q_scope.

(* first hit of the ray along +d: the least positive parameter *)
Fixpoint first_pos (ts : list Q) : option Q :=
  match ts with
  | [] => None
  | t :: r =>
      let rest := first_pos r in
      if Qlt_le_dec 0 t then
        match rest with
        | None => Some t
        | Some a => if Qlt_le_dec a t then Some a else Some t
        end
      else rest
  end.

(* the ray along -d sees the crossings with opposite parameters *)
Definition first_neg_dist (ts : list Q) : option Q := first_pos (map Qopp ts).

(* repaired code: distances per hit (numpy.linalg.norm(..., axis=1)), argmin *)
Definition project (ts : list Q) : option Q :=
  match first_pos ts, first_neg_dist ts with
  | Some a, Some b => Some (if Qle_bool a b then a else - b)
  | Some a, None => Some a
  | None, Some b => Some (- b)
  | None, None => None
  end.

(* code before the repair: numpy.linalg.norm without axis is ONE number, argmin of a scalar is 0: always the first row,
   i.e. the hit of the ray along +d whenever there is one *)
Definition project_old (ts : list Q) : option Q :=
  match first_pos ts, first_neg_dist ts with
  | Some a, _ => Some a
  | None, Some b => Some (- b)
  | None, None => None
  end.

(* projectVector: parameter of the returned point (0 = the point itself) *)
Definition project_vector (contains : bool) (ts : list Q) : option Q := if contains then Some 0 else project ts.

(* membership up to Qeq *)
Definition InQ (t : Q) (ts : list Q) : Prop := exists t', In t' ts /\ t' == t.

(* ---- axis-aligned boxes: reported AABBs vs region-in-region containment *)
Record box3 := mkbox { lo_x : Q; hi_x : Q; lo_y : Q; hi_y : Q; lo_z : Q; hi_z : Q }.
Definition in_box (b : box3) (x y z : Q) : Prop :=
  lo_x b <= x <= hi_x b /\ lo_y b <= y <= hi_y b /\ lo_z b <= z <= hi_z b.
Definition box_le (b1 b2 : box3) : Prop :=
  lo_x b2 <= lo_x b1 /\ hi_x b1 <= hi_x b2 /\ lo_y b2 <= lo_y b1 /\ hi_y b1 <= hi_y b2 /\ lo_z b2 <= lo_z b1 /\ hi_z b1 <= hi_z b2.
(* an AABB is sound for a region when it contains every member, tight when every face is touched by a member *)
Definition aabb_sound (mem : Q -> Q -> Q -> Prop) (b : box3) : Prop := forall x y z, mem x y z -> in_box b x y z.
Definition aabb_tight (mem : Q -> Q -> Q -> Prop) (b : box3) : Prop :=
  (exists x y z, mem x y z /\ x == lo_x b) /\ (exists x y z, mem x y z /\ x == hi_x b) /\
  (exists x y z, mem x y z /\ y == lo_y b) /\ (exists x y z, mem x y z /\ y == hi_y b) /\
  (exists x y z, mem x y z /\ z == lo_z b) /\ (exists x y z, mem x y z /\ z == hi_z b).
