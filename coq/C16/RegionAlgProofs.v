(* C16 — lemmas about the region algebra model. *)
From Coq Require Import QArith Qabs List Bool ZArith NArith Lia Lqa Psatz Morphisms Setoid.
From Scenic Require Import C16.RegionAlg.
Import ListNotations.
Open Scope Q_scope.

(* ------------------------------------------------------------------ nested induction *)
Lemma region_ind' (P : region -> Prop) :
  P RAll -> P REmpty -> (forall m, P (ROpaque m)) ->
  (forall s fp z, P (RPlanar s fp z)) -> (forall fp, P (RFoot fp)) ->
  (forall rs, Forall P rs -> P (RInter rs)) ->
  (forall rs, Forall P rs -> P (RUnion rs)) ->
  (forall a b, P a -> P b -> P (RDiff a b)) ->
  forall r, P r.
Proof.
  intros HA HE HO HP HF HI HU HD.
  fix IH 1. intros r. destruct r.
  - exact HA. - exact HE. - apply HO. - apply HP. - apply HF.
  - apply HI. induction rs; constructor; [apply IH | assumption].
  - apply HU. induction rs; constructor; [apply IH | assumption].
  - apply HD; apply IH.
Qed.

Lemma forallb_ext_in {A} (f g : A -> bool) l :
  (forall x, In x l -> f x = g x) -> forallb f l = forallb g l.
Proof. induction l; simpl; intros H; [reflexivity|]. rewrite H by (left; reflexivity). f_equal. apply IHl. intros; apply H; right; assumption. Qed.
Lemma existsb_ext_in {A} (f g : A -> bool) l :
  (forall x, In x l -> f x = g x) -> existsb f l = existsb g l.
Proof. induction l; simpl; intros H; [reflexivity|]. rewrite H by (left; reflexivity). f_equal. apply IHl. intros; apply H; right; assumption. Qed.

Lemma forallb_map' {A B} (g : A -> B) (f : B -> bool) l : forallb f (map g l) = forallb (fun x => f (g x)) l.
Proof. induction l; simpl; [reflexivity|]. rewrite IHl. reflexivity. Qed.

(* ------------------------------------------------------------------ (1) composition *)

(* [mem] really is "convert to footprint, then ask each operand": evaluating the converted
   region with plain containsPoint gives what [mem true] computes, and converting twice changes
   nothing. *)
Lemma mem_to_footprint : forall r p foot, mem foot (to_footprint r) p = mem true r p.
Proof.
  intros r p. induction r using region_ind'; intros foot; simpl; try reflexivity.
  - rewrite forallb_map'. apply forallb_ext_in. intros x Hx. rewrite Forall_forall in H. apply H; assumption.
  - rewrite IHr1, IHr2. reflexivity.
Qed.

Lemma contains_inter_unfold : forall rs p,
  contains (RInter rs) p = forallb (fun r => contains (to_footprint r) p) rs.
Proof. intros. unfold contains. simpl. apply forallb_ext_in. intros. symmetry. apply mem_to_footprint. Qed.

Lemma contains_diff_unfold : forall a b p,
  contains (RDiff a b) p = contains (to_footprint a) p && negb (contains (to_footprint b) p).
Proof. intros. unfold contains. simpl. rewrite !mem_to_footprint. reflexivity. Qed.

Lemma contains_union_unfold : forall rs p,
  contains (RUnion rs) p = existsb (fun r => contains r p) rs.
Proof. reflexivity. Qed.

Lemma mem_nostrict : forall r p, nostrict r = true -> forall foot, mem foot r p = sem r p.
Proof.
  intros r p. induction r using region_ind'; simpl; intros Hn foot; try reflexivity.
  - destruct s; simpl in Hn; [discriminate|]. destruct foot; reflexivity.
  - apply forallb_ext_in. intros x Hx. rewrite Forall_forall in H. rewrite forallb_forall in Hn. apply H; auto.
  - apply existsb_ext_in. intros x Hx. rewrite Forall_forall in H. rewrite forallb_forall in Hn. apply H; auto.
  - apply andb_true_iff in Hn. destruct Hn. rewrite IHr1, IHr2 by assumption. reflexivity.
Qed.

Theorem composed_membership : forall r p, nostrict r = true -> contains r p = sem r p.
Proof. intros. apply mem_nostrict. assumption. Qed.

Theorem inter_membership : forall a b p, nostrict a = true -> nostrict b = true ->
  contains (RInter [a; b]) p = contains a p && contains b p.
Proof. intros. unfold contains. simpl. rewrite !(mem_nostrict _ _ H), !(mem_nostrict _ _ H0). rewrite andb_true_r. reflexivity. Qed.

Theorem union_membership : forall a b p, contains (RUnion [a; b]) p = contains a p || contains b p.
Proof. intros. unfold contains. simpl. rewrite orb_false_r. reflexivity. Qed.

Theorem diff_membership : forall a b p, nostrict a = true -> nostrict b = true ->
  contains (RDiff a b) p = contains a p && negb (contains b p).
Proof. intros. unfold contains. simpl. rewrite !(mem_nostrict _ _ H), !(mem_nostrict _ _ H0). reflexivity. Qed.

Theorem sem_inter_iff : forall rs p, sem (RInter rs) p = true <-> (forall r, In r rs -> sem r p = true).
Proof. intros. simpl. apply forallb_forall. Qed.
Theorem sem_union_iff : forall rs p, sem (RUnion rs) p = true <-> (exists r, In r rs /\ sem r p = true).
Proof. intros. simpl. apply existsb_exists. Qed.
Theorem sem_diff_iff : forall a b p, sem (RDiff a b) p = true <-> (sem a p = true /\ sem b p = false).
Proof. intros. simpl. rewrite andb_true_iff, negb_true_iff. tauto. Qed.

(* the faithful model violates set semantics when a z-strict planar region (disc / sector) is
   an operand of a generic IntersectionRegion: its footprint forgets the height *)
Theorem strict_inter_refuted : exists a b p,
  contains (RInter [a; b]) p = true /\ contains a p = false.
Proof.
  exists (RPlanar true (fun _ _ => true) 2), RAll, (mkpt 0 0 0). vm_compute. split; reflexivity.
Qed.

(* ------------------------------------------------------------------ (2) primitives *)

Lemma sq_nonneg : forall a, 0 <= sq a.
Proof. intros. unfold sq. nra. Qed.

Lemma Qmax0_spec : forall a, (0 <= a -> Qmax0 a == a) /\ (a <= 0 -> Qmax0 a == 0).
Proof.
  intros a. unfold Qmax0. destruct (Qle_bool 0 a) eqn:E.
  - apply Qle_bool_iff in E. split; intros; [reflexivity | lra].
  - split; intros; [|reflexivity]. apply Qle_bool_iff in H. congruence.
Qed.
Lemma Qmax0_nonneg : forall a, 0 <= Qmax0 a.
Proof. intros a. unfold Qmax0. destruct (Qle_bool 0 a) eqn:E; [apply Qle_bool_iff in E; assumption | lra]. Qed.

Lemma sq_zero : forall a, sq a == 0 -> a == 0.
Proof. intros a H. unfold sq in H. nra. Qed.

Lemma sq_compat : forall a b, a == b -> sq a == sq b.
Proof. intros a b H. unfold sq. rewrite H. reflexivity. Qed.
Global Instance sq_proper : Proper (Qeq ==> Qeq) sq.
Proof. intros a b H. apply sq_compat. exact H. Qed.

(* disc: member  <->  distance 0 *)
Theorem disc_member_iff_dist0 : forall c R p rho,
  0 <= R -> 0 <= rho -> sq rho == d2sq (px c) (py c) (px p) (py p) ->
  (disc_member c R p = true <-> disc_dist_sq c R p rho == 0).
Proof.
  intros c R p rho HR Hrho Hsq. unfold disc_member, disc_dist_sq.
  rewrite andb_true_iff, Qeq_bool_iff, Qle_bool_iff. rewrite <- Hsq.
  destruct (Qmax0_spec (rho - R)) as [Hpos Hneg]. pose proof (Qmax0_nonneg (rho - R)) as Hm.
  split.
  - intros [Hz Hr]. assert (rho <= R) by (unfold sq in Hr; nra).
    rewrite Hneg by lra. unfold sq. rewrite Hz. ring.
  - intros H0. pose proof (sq_nonneg (Qmax0 (rho - R))). pose proof (sq_nonneg (pz p - pz c)).
    assert (Ha : sq (Qmax0 (rho - R)) == 0) by lra. assert (Hb : sq (pz p - pz c) == 0) by lra.
    apply sq_zero in Ha. apply sq_zero in Hb. split; [lra|].
    destruct (Qlt_le_dec R rho) as [Hlt|Hle].
    + rewrite Hpos in Ha by lra. lra.
    + unfold sq. nra.
Qed.

(* disc: the formula is the Euclidean distance to the nearest member:
   (a) no member is closer, (b) some member is exactly that far (when the centre is not the
   planar foot, i.e. rho > 0, the nearest member is centre + min(1, R/rho) (p - centre)). *)
Lemma cauchy2 : forall a1 a2 b1 b2, sq (a1 * b1 + a2 * b2) <= (sq a1 + sq a2) * (sq b1 + sq b2).
Proof.
  intros. unfold sq.
  assert (E : (a1 * a1 + a2 * a2) * (b1 * b1 + b2 * b2) - (a1 * b1 + a2 * b2) * (a1 * b1 + a2 * b2)
              == (a1 * b2 - a2 * b1) * (a1 * b2 - a2 * b1)) by ring.
  pose proof (sq_nonneg (a1 * b2 - a2 * b1)) as H. unfold sq in H. lra.
Qed.

Theorem disc_distance_lower : forall c R p rho q,
  0 <= R -> 0 <= rho -> sq rho == d2sq (px c) (py c) (px p) (py p) ->
  disc_member c R q = true -> disc_dist_sq c R p rho <= d3sq q p.
Proof.
  intros c R p rho q HR Hrho Hsq Hq. unfold disc_member in Hq.
  rewrite andb_true_iff, Qeq_bool_iff, Qle_bool_iff in Hq. destruct Hq as [Hz Hr].
  unfold disc_dist_sq, d3sq. rewrite Hz.
  assert (Hplan : sq (Qmax0 (rho - R)) <= sq (px p - px q) + sq (py p - py q)).
  { destruct (Qmax0_spec (rho - R)) as [Hpos Hneg].
    destruct (Qlt_le_dec R rho) as [Hlt|Hle].
    - rewrite (sq_compat _ _ (Hpos ltac:(lra))).
      unfold d2sq in *.
      set (a1 := px p - px c) in *. set (a2 := py p - py c) in *.
      set (b1 := px q - px c) in *. set (b2 := py q - py c) in *.
      pose proof (cauchy2 a1 a2 b1 b2) as CS.
      set (d := a1 * b1 + a2 * b2) in *. set (t := sq b1 + sq b2) in *.
      assert (Ht0 : 0 <= t) by (unfold t; pose proof (sq_nonneg b1); pose proof (sq_nonneg b2); lra).
      assert (HtR : t <= sq R) by exact Hr.
      assert (Hd2 : sq d <= sq rho * t) by (rewrite Hsq; exact CS).
      (* goal: (rho-R)^2 <= rho^2 - 2d + t *)
      assert (Hgoal : sq (rho - R) <= sq rho - 2 * d + t).
      { set (B := 2 * rho * R - sq R + t).
        assert (HB0 : 0 <= B) by (unfold B, sq in *; nra).
        assert (HB2 : 4 * (sq rho * t) <= sq B).
        { unfold B.
          assert (E : sq (2 * rho * R - sq R + t) - 4 * (sq rho * t)
                      == (t - sq R) * (4 * rho * R - sq R + t - 4 * sq rho)) by (unfold sq; ring).
          assert (0 <= (t - sq R) * (4 * rho * R - sq R + t - 4 * sq rho)).
          { assert (t - sq R <= 0) by lra.
            assert (4 * rho * R - sq R + t - 4 * sq rho <= 0) by (unfold sq in *; nra).
            nra. }
          lra. }
        assert (H2d : 2 * d <= B).
        { destruct (Qlt_le_dec B (2 * d)) as [Hc|Hc]; [|exact Hc].
          exfalso. assert (sq B < sq (2 * d)) by (unfold sq; nra).
          assert (sq (2 * d) == 4 * sq d) by (unfold sq; ring). lra. }
        unfold B in H2d. unfold sq in *. nra. }
      assert (E2 : sq (px p - px q) + sq (py p - py q) == sq rho - 2 * d + t).
      { rewrite Hsq. unfold d, t, a1, a2, b1, b2, sq. ring. }
      rewrite E2. exact Hgoal.
    - rewrite (sq_compat _ _ (Hneg ltac:(lra))).
      pose proof (sq_nonneg (px p - px q)). pose proof (sq_nonneg (py p - py q)). unfold sq at 1. lra. }
  assert (Ez : sq (pz p - pz c) == sq (pz p - pz c)) by reflexivity.
  assert (E3 : sq (px p - px q) + sq (py p - py q) + sq (pz p - pz c) ==
               sq (px p - px q) + sq (py p - py q) + sq (pz p - pz c)) by reflexivity.
  unfold sq in *. nra.
Qed.

Theorem disc_distance_attained : forall c R p rho,
  0 <= R -> 0 < rho -> sq rho == d2sq (px c) (py c) (px p) (py p) ->
  exists q, disc_member c R q = true /\ d3sq q p == disc_dist_sq c R p rho.
Proof.
  intros c R p rho HR Hrho Hsq.
  destruct (Qlt_le_dec R rho) as [Hlt|Hle].
  - (* outside the cylinder: foot = centre + (R/rho)(p - centre) *)
    exists (mkpt (px c + (R / rho) * (px p - px c)) (py c + (R / rho) * (py p - py c)) (pz c)).
    assert (Hne : ~ rho == 0) by lra.
    split.
    + unfold disc_member. simpl. rewrite andb_true_iff, Qeq_bool_iff, Qle_bool_iff. split; [reflexivity|].
      unfold d2sq in *.
      assert (E : sq (px c + R / rho * (px p - px c) - px c) + sq (py c + R / rho * (py p - py c) - py c)
                  == sq (R / rho) * (sq (px p - px c) + sq (py p - py c))) by (unfold sq; field; exact Hne).
      rewrite E, <- Hsq. assert (E2 : sq (R / rho) * sq rho == sq R) by (unfold sq; field; exact Hne).
      rewrite E2. lra.
    + unfold disc_dist_sq, d3sq. simpl.
      destruct (Qmax0_spec (rho - R)) as [Hpos _]. rewrite (sq_compat _ _ (Hpos ltac:(lra))).
      unfold d2sq in Hsq.
      assert (E : sq (px p - (px c + R / rho * (px p - px c))) + sq (py p - (py c + R / rho * (py p - py c)))
                  == sq (1 - R / rho) * (sq (px p - px c) + sq (py p - py c))) by (unfold sq; field; exact Hne).
      rewrite E, <- Hsq. assert (E2 : sq (1 - R / rho) * sq rho == sq (rho - R)) by (unfold sq; field; exact Hne).
      rewrite E2. reflexivity.
  - (* inside the cylinder: foot = (p.x, p.y, z0) *)
    exists (mkpt (px p) (py p) (pz c)). split.
    + unfold disc_member. simpl. rewrite andb_true_iff, Qeq_bool_iff, Qle_bool_iff. split; [reflexivity|].
      rewrite <- Hsq. unfold sq. nra.
    + unfold disc_dist_sq, d3sq. simpl. destruct (Qmax0_spec (rho - R)) as [_ Hneg].
      rewrite (sq_compat _ _ (Hneg ltac:(lra))). unfold sq. ring.
Qed.

(* the old formula (F15) is not the distance: disc of radius 1 at height 2, point (3,0,0):
   the code computed (sqrt(13) - 1)^2 = 14 - 2 sqrt 13 (~ 6.79) for the squared distance 8.
   With rational data: disc radius 1 at height 4, point (3,0,0): n3 = 5, old = 16, true = 4+16 = 20. *)
Theorem disc_distance_old_refuted : exists c R p rho n3,
  0 <= R /\ 0 <= rho /\ sq rho == d2sq (px c) (py c) (px p) (py p) /\ sq n3 == d3sq c p /\ 0 <= n3 /\
  ~ disc_dist_old_sq c R p rho n3 == disc_dist_sq c R p rho.
Proof.
  exists (mkpt 0 0 4), 1, (mkpt 3 0 0), 3, 5. vm_compute. repeat split; try discriminate.
Qed.

(* two discs share a point iff same height and planar centre distance <= R1 + R2
   (the direction "share a point -> test holds" for all data; the converse needs a rational
   witness and is shown for concentric/axis-aligned data in the harness only) *)
Theorem disc_disc_intersects_sound : forall c1 R1 c2 R2 q,
  0 <= R1 -> 0 <= R2 -> disc_member c1 R1 q = true -> disc_member c2 R2 q = true ->
  disc_disc_intersects c1 R1 c2 R2 = true.
Proof.
  intros c1 R1 c2 R2 q H1 H2 M1 M2. unfold disc_member, disc_disc_intersects in *.
  rewrite andb_true_iff, Qeq_bool_iff, Qle_bool_iff in *. destruct M1 as [Z1 D1], M2 as [Z2 D2].
  split; [lra|]. unfold d2sq in *.
  set (a1 := px q - px c1) in *. set (a2 := py q - py c1) in *.
  set (b1 := px q - px c2) in *. set (b2 := py q - py c2) in *.
  pose proof (cauchy2 a1 a2 b1 b2) as CS.
  set (d := a1 * b1 + a2 * b2) in *.
  assert (Hd : sq d <= sq R1 * sq R2).
  { pose proof (sq_nonneg a1). pose proof (sq_nonneg a2). pose proof (sq_nonneg b1). pose proof (sq_nonneg b2).
    pose proof (sq_nonneg R1). pose proof (sq_nonneg R2).
    assert ((sq a1 + sq a2) * (sq b1 + sq b2) <= sq R1 * sq R2) by nra. lra. }
  assert (Hd' : - d <= R1 * R2).
  { destruct (Qlt_le_dec (R1 * R2) (- d)) as [Hc|Hc]; [|exact Hc]. exfalso.
    assert (0 <= R1 * R2) by nra. assert (sq (R1 * R2) < sq d) by (unfold sq; nra).
    assert (sq (R1 * R2) == sq R1 * sq R2) by (unfold sq; ring). lra. }
  assert (E : sq (px c2 - px c1) + sq (py c2 - py c1) == (sq a1 + sq a2) + (sq b1 + sq b2) - 2 * d) by (unfold d, a1, a2, b1, b2, sq; ring).
  rewrite E. unfold sq in *. nra.
Qed.

Theorem disc_disc_intersects_old_refuted : exists c1 R1 c2 R2,
  disc_disc_intersects_old c1 R1 c2 R2 = true /\ forall q, disc_member c1 R1 q = true -> disc_member c2 R2 q = false.
Proof.
  exists (mkpt 0 0 0), 1, (mkpt 0 0 1), 1. split; [vm_compute; reflexivity|].
  intros q H. unfold disc_member in *. simpl in *. rewrite andb_true_iff, Qeq_bool_iff in H. destruct H as [Hz _].
  apply andb_false_iff. left. apply not_true_is_false. intros E. apply Qeq_bool_iff in E. lra.
Qed.

Theorem sector_subset_disc : forall c R half va p, sector_member c R half va p = true -> disc_member c R p = true.
Proof. intros. unfold sector_member, disc_member in *. rewrite !andb_true_iff in *. tauto. Qed.

(* rectangle: members lie in the reported AABB *)
Lemma Qabs_le_iff : forall a b, Qabs a <= b <-> - b <= a <= b.
Proof. intros. apply Qabs_Qle_condition. Qed.

Lemma mul_abs_bound : forall a c h u, - a <= c <= a -> - h <= u <= h -> - (a * h) <= c * u <= a * h.
Proof. intros a c h u [H1 H2] [H3 H4]. split; nra. Qed.

Lemma Qabs_bounds : forall c, - Qabs c <= c <= Qabs c.
Proof. intros c. apply Qabs_le_iff. apply Qle_refl. Qed.

Theorem rect_member_in_aabb : forall cx cy co si hw hl x y,
  co * co + si * si == 1 ->
  rect_member cx cy co si hw hl x y = true ->
  Qabs (x - cx) <= rect_aabb_hx co si hw hl /\ Qabs (y - cy) <= rect_aabb_hy co si hw hl.
Proof.
  intros cx cy co si hw hl x y Hcs H. unfold rect_member, rect_local in H.
  rewrite andb_true_iff, !Qle_bool_iff in H. destruct H as [Hu Hv].
  apply Qabs_le_iff in Hu. apply Qabs_le_iff in Hv.
  set (dx := x - cx) in *. set (dy := y - cy) in *.
  set (u := co * dx + si * dy) in *. set (v := co * dy - si * dx) in *.
  assert (Ex : dx == co * u - si * v).
  { assert (E : co * u - si * v == (co * co + si * si) * dx) by (unfold u, v; ring). rewrite E, Hcs. ring. }
  assert (Ey : dy == si * u + co * v).
  { assert (E : si * u + co * v == (co * co + si * si) * dy) by (unfold u, v; ring). rewrite E, Hcs. ring. }
  unfold rect_aabb_hx, rect_aabb_hy.
  pose proof (mul_abs_bound _ _ _ _ (Qabs_bounds co) Hu) as B1.
  pose proof (mul_abs_bound _ _ _ _ (Qabs_bounds si) Hv) as B2.
  pose proof (mul_abs_bound _ _ _ _ (Qabs_bounds si) Hu) as B3.
  pose proof (mul_abs_bound _ _ _ _ (Qabs_bounds co) Hv) as B4.
  split; apply Qabs_le_iff; lra.
Qed.

(* box (own frame): member <-> distance 0; members are within the half extents (AABB in the frame) *)
Theorem box_member_iff_dist0 : forall hx hy hz u v w,
  box_member hx hy hz u v w = true <-> box_dist_sq hx hy hz u v w == 0.
Proof.
  intros. unfold box_member, box_dist_sq. rewrite !andb_true_iff, !Qle_bool_iff.
  pose proof (Qmax0_spec (Qabs u - hx)) as [Pu Nu]. pose proof (Qmax0_spec (Qabs v - hy)) as [Pv Nv].
  pose proof (Qmax0_spec (Qabs w - hz)) as [Pw Nw].
  split.
  - intros [[Hu Hv] Hw]. rewrite Nu, Nv, Nw by lra. unfold sq. ring.
  - intros H0.
    pose proof (sq_nonneg (Qmax0 (Qabs u - hx))). pose proof (sq_nonneg (Qmax0 (Qabs v - hy))).
    pose proof (sq_nonneg (Qmax0 (Qabs w - hz))).
    assert (A : sq (Qmax0 (Qabs u - hx)) == 0) by lra. assert (B : sq (Qmax0 (Qabs v - hy)) == 0) by lra.
    assert (C : sq (Qmax0 (Qabs w - hz)) == 0) by lra.
    apply sq_zero in A. apply sq_zero in B. apply sq_zero in C.
    repeat split.
    + destruct (Qlt_le_dec hx (Qabs u)); [rewrite Pu in A by lra; lra | assumption].
    + destruct (Qlt_le_dec hy (Qabs v)); [rewrite Pv in B by lra; lra | assumption].
    + destruct (Qlt_le_dec hz (Qabs w)); [rewrite Pw in C by lra; lra | assumption].
Qed.

(* box distance is a lower bound of the distance to every member (own frame) *)
Lemma axis_gap : forall h u q, Qabs q <= h -> sq (Qmax0 (Qabs u - h)) <= sq (u - q).
Proof.
  intros h u q Hq. apply Qabs_le_iff in Hq. destruct (Qmax0_spec (Qabs u - h)) as [P N].
  destruct (Qlt_le_dec h (Qabs u)) as [Hlt|Hle].
  - rewrite P by lra. pose proof (Qabs_bounds u) as Bu.
    destruct (Qlt_le_dec u 0) as [Hn|Hp].
    + rewrite (Qabs_neg u) in * by lra. unfold sq. nra.
    + rewrite (Qabs_pos u) in * by lra. unfold sq. nra.
  - rewrite N by lra. pose proof (sq_nonneg (u - q)). unfold sq at 1. lra.
Qed.

Theorem box_distance_lower : forall hx hy hz u v w qu qv qw,
  box_member hx hy hz qu qv qw = true ->
  box_dist_sq hx hy hz u v w <= sq (u - qu) + sq (v - qv) + sq (w - qw).
Proof.
  intros. unfold box_member in H. rewrite !andb_true_iff, !Qle_bool_iff in H. destruct H as [[A B] C].
  unfold box_dist_sq. pose proof (axis_gap _ u _ A). pose proof (axis_gap _ v _ B). pose proof (axis_gap _ w _ C). lra.
Qed.

(* spheroid (own frame): members are within the semi-axes *)
Theorem spheroid_member_in_aabb : forall a b c u v w, 0 < a -> 0 < b -> 0 < c ->
  spheroid_member a b c u v w = true -> Qabs u <= a /\ Qabs v <= b /\ Qabs w <= c.
Proof.
  intros a b c u v w Ha Hb Hc H. unfold spheroid_member in H. apply Qle_bool_iff in H.
  pose proof (sq_nonneg (u / a)). pose proof (sq_nonneg (v / b)). pose proof (sq_nonneg (w / c)).
  assert (Eu : u == (u / a) * a) by (field; lra). assert (Ev : v == (v / b) * b) by (field; lra).
  assert (Ew : w == (w / c) * c) by (field; lra).
  set (x := u / a) in *. set (y := v / b) in *. set (z := w / c) in *.
  assert (Hx : sq x <= 1) by lra. assert (Hy : sq y <= 1) by lra. assert (Hz : sq z <= 1) by lra.
  assert (B1 : forall t, sq t <= 1 -> -1 <= t <= 1) by (intros t Ht; unfold sq in Ht; split; nra).
  apply B1 in Hx. apply B1 in Hy. apply B1 in Hz.
  repeat split; apply Qabs_le_iff; split; nra.
Qed.

(* point set: the tolerance test on the nearest neighbour is "some point within tolerance" *)
Lemma min_d3sq_spec : forall pts p,
  match min_d3sq pts p with
  | None => pts = []
  | Some m => (exists q, In q pts /\ d3sq q p == m) /\ (forall q, In q pts -> m <= d3sq q p)
  end.
Proof.
  induction pts as [|q rest IH]; intros p; simpl; [reflexivity|].
  specialize (IH p). destruct (min_d3sq rest p) as [m|].
  - destruct IH as [[q0 [Hin Heq]] Hmin]. destruct (Qle_bool (d3sq q p) m) eqn:E.
    + apply Qle_bool_iff in E. split; [exists q; split; [left; reflexivity | reflexivity]|].
      intros q' [->|Hq']; [lra | specialize (Hmin _ Hq'); lra].
    + assert (m < d3sq q p). { apply Qnot_le_lt. intros C. apply Qle_bool_iff in C. congruence. }
      split; [exists q0; split; [right; assumption | assumption]|].
      intros q' [->|Hq']; [lra | apply Hmin; assumption].
  - subst rest. split; [exists q; split; [left; reflexivity | reflexivity]|].
    intros q' [->|[]]. lra.
Qed.

Theorem pointset_member_iff : forall pts tol p,
  pointset_member pts tol p = true <-> exists q, In q pts /\ d3sq q p <= sq tol.
Proof.
  intros. unfold pointset_member. pose proof (min_d3sq_spec pts p) as S. destruct (min_d3sq pts p) as [m|].
  - destruct S as [[q0 [Hin Heq]] Hmin]. rewrite Qle_bool_iff. split.
    + intros Hm. exists q0. split; [assumption | lra].
    + intros [q [Hq Hd]]. specialize (Hmin _ Hq). lra.
  - subst pts. split; [discriminate | intros [q [[] _]]].
Qed.

(* grid: rounding an integer gives it back, so every point the grid generates for a free cell is a
   member and every point generated for an obstacle is not *)
Lemma round_half_even_proper : forall a b, a == b -> round_half_even a = round_half_even b.
Proof. intros a b H. unfold round_half_even. rewrite (Qred_complete _ _ H). reflexivity. Qed.

Lemma round_half_even_Z : forall z, round_half_even (inject_Z z) = z.
Proof.
  intros z. unfold round_half_even.
  assert (E : Qred (inject_Z z) = inject_Z z).
  { unfold inject_Z, Qred.
    pose proof (Z.ggcd_correct_divisors z 1) as H. pose proof (Z.ggcd_gcd z 1) as G.
    destruct (Z.ggcd z 1) as [g [aa bb]]. cbn [fst snd] in *. rewrite Z.gcd_1_r in G. subst g.
    destruct H as [H1 H2]. rewrite Z.mul_1_l in H1, H2. subst aa bb. reflexivity. }
  rewrite E. unfold inject_Z. cbn [Qnum Qden]. rewrite Z.div_1_r.
  replace (2 * (z - z * 1))%Z with 0%Z by lia. reflexivity.
Qed.

Theorem grid_index_of_point : forall A B size i, ~ A == 0 -> (0 <= i < size)%Z ->
  grid_index A B size (A * inject_Z i + B) = Some i.
Proof.
  intros A B size i HA Hi. unfold grid_index.
  assert (E : (A * inject_Z i + B - B) / A == inject_Z i) by (field; exact HA).
  rewrite (round_half_even_proper _ _ E), round_half_even_Z.
  destruct (i <? 0)%Z eqn:E1; [apply Z.ltb_lt in E1; lia|].
  destruct (size <=? i)%Z eqn:E2; [apply Z.leb_le in E2; lia|]. reflexivity.
Qed.

Theorem grid_point_member : forall grid Ax Ay Bx By sx sy ix iy,
  ~ Ax == 0 -> ~ Ay == 0 -> (0 <= ix < sx)%Z -> (0 <= iy < sy)%Z ->
  let '(x, y) := grid_point Ax Ay Bx By ix iy in
  grid_member grid Ax Ay Bx By sx sy x y =
  match grid_cell grid ix iy with Some 0%Z => true | _ => false end.
Proof.
  intros. unfold grid_point, grid_member. rewrite !grid_index_of_point by assumption. reflexivity.
Qed.

(* ------------------------------------------------------------------ (3) dispatch *)
Open Scope nat_scope.

Lemma lookup_in : forall t s a, lookup t s = a -> a <> AMissing -> exists k, In (k, a) t /\ st_eqb k s = true.
Proof.
  induction t as [|[k a'] rest IH]; simpl; intros s a H Hn; [congruence|].
  destruct (st_eqb k s) eqn:E.
  - subst. exists k. split; [left; reflexivity | assumption].
  - destruct (IH _ _ H Hn) as [k' [Hin He]]. exists k'. split; [right; assumption | assumption].
Qed.

Lemma st_eqb_def : forall k s, st_eqb k s = true -> st_def k = st_def s /\ st_flag k = st_flag s.
Proof.
  intros k s H. unfold st_eqb in H. rewrite !andb_true_iff in H. destruct H as [[[A _] _] B].
  apply N.eqb_eq in A. apply Bool.eqb_prop in B. split; assumption.
Qed.

Definition measure (rank : N -> nat) (lvl : N -> bool) (D : nat) (s : dstate) : nat :=
  (if st_flag s then 0 else if lvl (st_def s) then 2 * S D else S D) + rank (st_def s).

(* For EVERY well-formed table the protocol returns or raises: it never runs out of fuel 3D+4
   (D = bound on the depth of the class hierarchy), whatever the operand classes.  [OMissing]
   (state absent from the table) is a result of the model, excluded for the probed table by
   the regenerated check. *)
Lemma run_terminates_aux : forall rank lvl D t, table_ok rank lvl D t = true ->
  forall fuel s calls revs, rank (st_def s) <= D -> measure rank lvl D s < fuel ->
  out_of (run fuel t s calls revs) <> OFuel.
Proof.
  intros rank lvl D t Hok. induction fuel as [|fuel IH]; intros s calls revs HD Hm; [lia|].
  simpl. destruct (lookup t s) as [k|e|d|f d|] eqn:L; unfold out_of; simpl; try discriminate.
  - (* super *)
    destruct (lookup_in _ _ _ L ltac:(discriminate)) as [k [Hin He]].
    unfold table_ok in Hok. rewrite forallb_forall in Hok. specialize (Hok _ Hin). simpl in Hok.
    apply andb_true_iff in Hok. destruct Hok as [Hok Hl].
    apply Nat.ltb_lt in Hok. destruct (st_eqb_def _ _ He) as [Ed Ef]. rewrite Ed in Hok, Hl.
    apply IH; simpl.
    + lia.
    + unfold measure in *. simpl. destruct (st_flag s); [lia|].
      destruct (lvl d), (lvl (st_def s)); simpl in Hl; try discriminate; lia.
  - (* reversed *)
    destruct (lookup_in _ _ _ L ltac:(discriminate)) as [k [Hin He]].
    unfold table_ok in Hok. rewrite forallb_forall in Hok. specialize (Hok _ Hin). simpl in Hok.
    rewrite !andb_true_iff in Hok. destruct Hok as [[Hf Hr] Hf']. apply Nat.leb_le in Hr.
    destruct (st_eqb_def _ _ He) as [Ed Ef]. rewrite Ef in Hf. apply negb_true_iff in Hf. rewrite Ed in Hf'.
    apply IH; simpl; [assumption|].
    unfold measure in *. simpl. rewrite Hf in Hm.
    destruct f; [destruct (lvl (st_def s)); lia|]. simpl in Hf'. apply andb_true_iff in Hf'. destruct Hf' as [H1 H2].
    apply negb_true_iff in H2. rewrite H1 in Hm. rewrite H2. lia.
Qed.

Theorem protocol_terminates : forall rank lvl D t, table_ok rank lvl D t = true ->
  forall s, rank (st_def s) <= D -> out_of (run (3 * D + 4) t s 0 0) <> OFuel.
Proof.
  intros. eapply run_terminates_aux; eauto. unfold measure. destruct (st_flag s); [lia|]. destruct (lvl (st_def s)); lia.
Qed.

(* and a well-formed table re-dispatches at most twice (once if no deferring class is involved) *)
Definition pot (lvl : N -> bool) (s : dstate) : nat :=
  if st_flag s then 0 else if lvl (st_def s) then 2 else 1.

Lemma run_revs_aux : forall rank lvl D t, table_ok rank lvl D t = true ->
  forall fuel s calls revs,
  snd (run fuel t s calls revs) <= revs + pot lvl s.
Proof.
  intros rank lvl D t Hok. induction fuel as [|fuel IH]; intros s calls revs; simpl; [lia|].
  destruct (lookup t s) as [k|e|d|f d|] eqn:L; simpl; try lia.
  - destruct (lookup_in _ _ _ L ltac:(discriminate)) as [k [Hin He]].
    unfold table_ok in Hok. rewrite forallb_forall in Hok. specialize (Hok _ Hin). simpl in Hok.
    apply andb_true_iff in Hok. destruct Hok as [_ Hl]. destruct (st_eqb_def _ _ He) as [Ed Ef]. rewrite Ed in Hl.
    specialize (IH (mkst d (st_self s) (st_other s) (st_flag s)) (S calls) revs).
    unfold pot in *. simpl in IH. destruct (st_flag s); [lia|].
    destruct (lvl d), (lvl (st_def s)); simpl in Hl; try discriminate; lia.
  - destruct (lookup_in _ _ _ L ltac:(discriminate)) as [k [Hin He]].
    unfold table_ok in Hok. rewrite forallb_forall in Hok. specialize (Hok _ Hin). simpl in Hok.
    rewrite !andb_true_iff in Hok. destruct Hok as [[Hf Hr] Hf'].
    destruct (st_eqb_def _ _ He) as [Ed Ef]. rewrite Ef in Hf. apply negb_true_iff in Hf. rewrite Ed in Hf'.
    specialize (IH (mkst d (st_other s) (st_self s) f) (S calls) (S revs)).
    unfold pot in *. simpl in IH. rewrite Hf.
    destruct f; [destruct (lvl (st_def s)); lia|]. simpl in Hf'. apply andb_true_iff in Hf'. destruct Hf' as [H1 H2].
    apply negb_true_iff in H2. rewrite H1. rewrite H2 in IH. lia.
Qed.

Theorem protocol_two_reversals : forall rank lvl D t, table_ok rank lvl D t = true ->
  forall fuel s, snd (run fuel t s 0 0) <= 2.
Proof. intros. pose proof (run_revs_aux _ _ _ _ H fuel s 0 0). unfold pot in *. destruct (st_flag s); [lia|]. destruct (lvl (st_def s)); lia. Qed.

(* the defect F16 as a table: PointSetRegion.intersect re-dispatches with triedReversed dropped *)
Theorem dropped_flag_diverges : exists t s, forall fuel, out_of (run fuel t s 0 0) = OFuel.
Proof.
  exists [(mkst 1%N 1%N 1%N false, ARev false 1%N)], (mkst 1%N 1%N 1%N false).
  intros fuel. generalize 0 at 1 2. induction fuel; intros; simpl; [reflexivity|]. apply IHfuel.
Qed.
