(* C16 - PASS 1 of MeshVolumeRegion.intersects: soundness of the circumradius test about the positions; refutation of
   radii measured about another point (world origin, bounding-box centre) *)
From Coq Require Import QArith Qabs List Bool Lqa Lia.
From Scenic Require Import C16.RegionAlg C16.RegionAlgProofs C16.Pass1.
Import ListNotations.
Open Scope Q_scope.

Lemma cauchy3 : forall a1 a2 a3 b1 b2 b3,
  sq (a1 * b1 + a2 * b2 + a3 * b3) <= (sq a1 + sq a2 + sq a3) * (sq b1 + sq b2 + sq b3).
Proof.
  intros. unfold sq.
  assert (E : (a1 * a1 + a2 * a2 + a3 * a3) * (b1 * b1 + b2 * b2 + b3 * b3)
              - (a1 * b1 + a2 * b2 + a3 * b3) * (a1 * b1 + a2 * b2 + a3 * b3)
              == (a1 * b2 - a2 * b1) * (a1 * b2 - a2 * b1) + (a1 * b3 - a3 * b1) * (a1 * b3 - a3 * b1)
                 + (a2 * b3 - a3 * b2) * (a2 * b3 - a3 * b2)) by ring.
  pose proof (sq_nonneg (a1 * b2 - a2 * b1)) as H1. pose proof (sq_nonneg (a1 * b3 - a3 * b1)) as H2.
  pose proof (sq_nonneg (a2 * b3 - a3 * b2)) as H3. unfold sq in *. lra.
Qed.

Lemma d3sq_nonneg : forall c p, 0 <= d3sq c p.
Proof.
  intros. unfold d3sq. pose proof (sq_nonneg (px p - px c)). pose proof (sq_nonneg (py p - py c)).
  pose proof (sq_nonneg (pz p - pz c)). lra.
Qed.

(* triangle inequality in squared form: |c1 - c2| <= r1 + r2 when x is within r1 of c1 and within r2 of c2 *)
Lemma triangle_sq : forall c1 c2 x r1 r2,
  0 <= r1 -> 0 <= r2 -> d3sq c1 x <= sq r1 -> d3sq c2 x <= sq r2 -> d3sq c1 c2 <= sq (r1 + r2).
Proof.
  intros c1 c2 x r1 r2 H1 H2 D1 D2. unfold d3sq in *.
  set (a1 := px x - px c1) in *. set (a2 := py x - py c1) in *. set (a3 := pz x - pz c1) in *.
  set (b1 := px x - px c2) in *. set (b2 := py x - py c2) in *. set (b3 := pz x - pz c2) in *.
  pose proof (cauchy3 a1 a2 a3 b1 b2 b3) as CS.
  set (d := a1 * b1 + a2 * b2 + a3 * b3) in *.
  set (A := sq a1 + sq a2 + sq a3) in *. set (B := sq b1 + sq b2 + sq b3) in *.
  assert (HA : 0 <= A) by (unfold A; pose proof (sq_nonneg a1); pose proof (sq_nonneg a2); pose proof (sq_nonneg a3); lra).
  assert (HB : 0 <= B) by (unfold B; pose proof (sq_nonneg b1); pose proof (sq_nonneg b2); pose proof (sq_nonneg b3); lra).
  assert (Hd : sq d <= sq r1 * sq r2).
  { pose proof (sq_nonneg r1). pose proof (sq_nonneg r2). assert (A * B <= sq r1 * sq r2) by nra. lra. }
  assert (Hd' : - d <= r1 * r2).
  { destruct (Qlt_le_dec (r1 * r2) (- d)) as [Hc|Hc]; [|exact Hc]. exfalso.
    assert (0 <= r1 * r2) by nra. assert (sq (r1 * r2) < sq d) by (unfold sq; nra).
    assert (sq (r1 * r2) == sq r1 * sq r2) by (unfold sq; ring). lra. }
  assert (E : sq (px c2 - px c1) + sq (py c2 - py c1) + sq (pz c2 - pz c1) == A + B - 2 * d)
    by (unfold A, B, d, a1, a2, a3, b1, b2, b3, sq; ring).
  rewrite E. assert (sq (r1 + r2) == sq r1 + sq r2 + 2 * (r1 * r2)) by (unfold sq; ring). lra.
Qed.

(* PASS 1 never separates two regions that share a point, whenever each radius bounds its region about its position *)
Theorem pass1_sound : forall (m1 m2 : pt -> Prop) c1 r1 c2 r2 x,
  within m1 c1 r1 -> within m2 c2 r2 -> m1 x -> m2 x -> pass1_disjoint c1 r1 c2 r2 = false.
Proof.
  intros m1 m2 c1 r1 c2 r2 x [H1 W1] [H2 W2] M1 M2. unfold pass1_disjoint.
  apply negb_false_iff. apply Qle_bool_iff.
  apply (triangle_sq c1 c2 x r1 r2 H1 H2 (W1 x M1) (W2 x M2)).
Qed.

(* max_d3sq bounds every vertex and is attained (or the list is empty) *)
Lemma max_d3sq_bound : forall c vs v, In v vs -> d3sq c v <= max_d3sq c vs.
Proof.
  induction vs as [|w r IH]; intros v Hin; [destruct Hin|]. cbn [max_d3sq].
  destruct (Qle_bool (max_d3sq c r) (d3sq c w)) eqn:E.
  - apply Qle_bool_iff in E. destruct Hin as [->|Hin]; [lra|]. specialize (IH v Hin). lra.
  - assert (~ max_d3sq c r <= d3sq c w) by (intro K; apply Qle_bool_iff in K; congruence).
    destruct Hin as [->|Hin]; [lra|]. exact (IH v Hin).
Qed.

Lemma max_d3sq_nonneg : forall c vs, 0 <= max_d3sq c vs.
Proof.
  induction vs as [|w r IH]; cbn [max_d3sq]; [lra|].
  destruct (Qle_bool (max_d3sq c r) (d3sq c w)); [apply d3sq_nonneg|exact IH].
Qed.

Lemma max_d3sq_attained : forall c vs, vs <> [] -> exists v, In v vs /\ max_d3sq c vs == d3sq c v.
Proof.
  induction vs as [|w r IH]; intros Hne; [congruence|]. cbn [max_d3sq].
  destruct (Qle_bool (max_d3sq c r) (d3sq c w)) eqn:E.
  - exists w. split; [left; reflexivity|reflexivity].
  - destruct r as [|w' r'].
    + cbn [max_d3sq] in E. assert (Qle_bool 0 (d3sq c w) = true) by (apply Qle_bool_iff; apply d3sq_nonneg). congruence.
    + destruct IH as [v [Hin Hv]]; [discriminate|]. exists v. split; [right; exact Hin|exact Hv].
Qed.

(* the ball is convex: every point of a segment between two points within r of c is within r of c - hence a radius that
   bounds the VERTICES of a mesh bounds every point of its faces and (by a second application) of its convex hull *)
Theorem ball_convex : forall c r a b t,
  0 <= t -> t <= 1 -> d3sq c a <= sq r -> d3sq c b <= sq r -> d3sq c (lerp t a b) <= sq r.
Proof.
  intros c r a b t Ht0 Ht1 Da Db. unfold d3sq, lerp in *. cbn [px py pz].
  set (a1 := px a - px c) in *. set (a2 := py a - py c) in *. set (a3 := pz a - pz c) in *.
  set (b1 := px b - px c) in *. set (b2 := py b - py c) in *. set (b3 := pz b - pz c) in *.
  pose proof (cauchy3 a1 a2 a3 b1 b2 b3) as CS.
  set (d := a1 * b1 + a2 * b2 + a3 * b3) in *.
  set (A := sq a1 + sq a2 + sq a3) in *. set (B := sq b1 + sq b2 + sq b3) in *. set (R := sq r) in *.
  assert (HA : 0 <= A) by (unfold A; pose proof (sq_nonneg a1); pose proof (sq_nonneg a2); pose proof (sq_nonneg a3); lra).
  assert (HB : 0 <= B) by (unfold B; pose proof (sq_nonneg b1); pose proof (sq_nonneg b2); pose proof (sq_nonneg b3); lra).
  assert (Hd : d <= R).
  { destruct (Qlt_le_dec R d) as [Hc|Hc]; [|exact Hc]. exfalso.
    assert (A * B <= R * R) by nra. assert (R * R < d * d) by nra. unfold sq in CS. nra. }
  assert (E : sq ((1 - t) * px a + t * px b - px c) + sq ((1 - t) * py a + t * py b - py c) + sq ((1 - t) * pz a + t * pz b - pz c)
              == (1 - t) * (1 - t) * A + t * t * B + 2 * t * (1 - t) * d)
    by (unfold A, B, d, a1, a2, a3, b1, b2, b3, sq; ring).
  rewrite E.
  assert (0 <= t * (1 - t)) by nra. assert (0 <= (1 - t) * (1 - t)) by nra. assert (0 <= t * t) by nra.
  assert ((1 - t) * (1 - t) * A <= (1 - t) * (1 - t) * R) by nra.
  assert (t * t * B <= t * t * R) by nra.
  assert (2 * t * (1 - t) * d <= 2 * t * (1 - t) * R) by nra.
  nra.
Qed.

(* the repaired fallback: with the radius taken about the POSITION, any r with r^2 >= circumradius_sq bounds the vertices *)
Theorem circumradius_within : forall position vs r,
  radius_of (circumradius_sq position vs) r -> within (fun x => In x vs) position r.
Proof.
  intros p vs r [H0 HR]. split; [exact H0|]. intros x Hx. unfold circumradius_sq in HR.
  pose proof (max_d3sq_bound p vs x Hx). unfold sq. lra.
Qed.

Corollary pass1_repaired_sound : forall p1 vs1 r1 p2 vs2 r2 x,
  radius_of (circumradius_sq p1 vs1) r1 -> radius_of (circumradius_sq p2 vs2) r2 ->
  In x vs1 -> In x vs2 -> pass1_disjoint p1 r1 p2 r2 = false.
Proof.
  intros. eapply pass1_sound with (m1 := fun x => In x vs1) (m2 := fun x => In x vs2) (x := x); eauto using circumradius_within.
Qed.

(* the code before the repair (radius about the world origin, F24): a region given by a mesh near the origin with its position
   elsewhere shares a vertex with a small region there, the radii are exact, and PASS 1 still declares them disjoint *)
Theorem pass1_origin_refuted : exists p1 vs1 r1 p2 vs2 r2 x,
  radius_of (circumradius_sq_old p1 vs1) r1 /\ radius_of (circumradius_sq_old p2 vs2) r2 /\
  In x vs1 /\ In x vs2 /\ pass1_disjoint p1 r1 p2 r2 = true.
Proof.
  exists (mkpt 10 0 0), [mkpt (-8) 0 0; mkpt (-7) 0 0], 8, (mkpt (-8) 0 0), [mkpt (-8) 0 0], 8, (mkpt (-8) 0 0).
  unfold radius_of. vm_compute. repeat split; try discriminate; auto.
Qed.

(* measuring about ANY point other than the position is unsound (the seeded variant used the bounding-box centre):
   for every offset e <> 0 there are overlapping regions with exact radii about position + e that PASS 1 separates *)
Theorem pass1_other_centre_refuted : forall e : Q, ~ e == 0 ->
  exists p1 vs1 r1 p2 vs2 r2 x,
    radius_of (max_d3sq (mkpt (px p1 + e) 0 0) vs1) r1 /\ radius_of (circumradius_sq p2 vs2) r2 /\
    In x vs1 /\ In x vs2 /\ pass1_disjoint p1 r1 p2 r2 = true.
Proof.
  intros e He.
  (* region 1: the single vertex at position + e, radius 0 about that point; region 2: the same vertex, position there *)
  exists (mkpt 0 0 0), [mkpt e 0 0], 0, (mkpt e 0 0), [mkpt e 0 0], 0, (mkpt e 0 0).
  assert (Z : d3sq (mkpt e 0 0) (mkpt e 0 0) == 0) by (unfold d3sq, sq; cbn [px py pz]; ring).
  repeat split.
  - lra.
  - cbn [max_d3sq px]. assert (E0 : 0 + e == e) by ring.
    destruct (Qle_bool 0 (d3sq (mkpt (0 + e) 0 0) (mkpt e 0 0))); unfold d3sq, sq; cbn [px py pz]; nra.
  - lra.
  - unfold circumradius_sq. cbn [max_d3sq]. destruct (Qle_bool 0 (d3sq (mkpt e 0 0) (mkpt e 0 0))); lra.
  - left; reflexivity.
  - left; reflexivity.
  - unfold pass1_disjoint. apply negb_true_iff. apply not_true_iff_false. intro K. apply Qle_bool_iff in K.
    unfold d3sq, sq in K. cbn [px py pz] in K. assert (0 < e * e) by nra. nra.
Qed.
