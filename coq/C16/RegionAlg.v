(* C16 — region algebra: executable model of (1) membership of composed regions as
   scenic/core/regions.py computes it (through convertToFootprint), (2) membership / distance
   formulas of the analytic primitives over Q, (3) the double-dispatch protocol of
   intersect / intersects / union / difference as a function over a (probed) class table.
   Definitions only; proofs are in RegionAlgProofs.v. *)
From Coq Require Import QArith Qabs List Bool ZArith NArith.
Import ListNotations.
Open Scope Q_scope.

Record pt := mkpt { px : Q; py : Q; pz : Q }.

(* ------------------------------------------------------------------------------------ *)
(* (1) Composed regions                                                                  *)
(* ------------------------------------------------------------------------------------ *)

(* [RPlanar strict fp z] is a member of the PolygonalRegion family at height z whose 2-D
   footprint is [fp]:  strict = false : PolygonalRegion / RectangularRegion, whose containsPoint
   IS footprint.containsPoint (z ignored);  strict = true : CircularRegion / SectorRegion,
   whose containsPoint override first tests point.z == self.z.
   [RFoot fp] is a PolygonalFootprintRegion.  [ROpaque m] is any other region (mesh, point set,
   polyline, path, grid, voxel ...) : convertToFootprint leaves it alone. *)
Inductive region :=
| RAll | REmpty
| ROpaque (m : pt -> bool)
| RPlanar (strict : bool) (fp : Q -> Q -> bool) (z : Q)
| RFoot (fp : Q -> Q -> bool)
| RInter (rs : list region)
| RUnion (rs : list region)
| RDiff (a b : region).

(* regions.py convertToFootprint: PolygonalRegion -> its footprint; Intersection / Difference
   rebuilt from converted operands; everything else (UnionRegion included) returned as is. *)
Fixpoint to_footprint (r : region) : region :=
  match r with
  | RPlanar _ fp _ => RFoot fp
  | RInter rs => RInter (map to_footprint rs)
  | RDiff a b => RDiff (to_footprint a) (to_footprint b)
  | _ => r
  end.

(* [mem foot r p]: containsPoint as the code evaluates it; [foot = true] when [r] is reached
   through a converted footprint (operand of an IntersectionRegion / DifferenceRegion), [false]
   when its own containsPoint is called (top level, or operand of a UnionRegion, whose
   footprint is the union itself). *)
Fixpoint mem (foot : bool) (r : region) (p : pt) : bool :=
  match r with
  | RAll => true
  | REmpty => false
  | ROpaque m => m p
  | RPlanar strict fp z =>
      if foot then fp (px p) (py p)
      else (if strict then Qeq_bool (pz p) z else true) && fp (px p) (py p)
  | RFoot fp => fp (px p) (py p)
  | RInter rs => forallb (fun r => mem true r p) rs
  | RUnion rs => existsb (fun r => mem false r p) rs
  | RDiff a b => mem true a p && negb (mem true b p)
  end.

Definition contains (r : region) (p : pt) : bool := mem false r p.

(* The specification: set semantics over each operand's OWN membership test. *)
Fixpoint sem (r : region) (p : pt) : bool :=
  match r with
  | RAll => true
  | REmpty => false
  | ROpaque m => m p
  | RPlanar strict fp z => (if strict then Qeq_bool (pz p) z else true) && fp (px p) (py p)
  | RFoot fp => fp (px p) (py p)
  | RInter rs => forallb (fun r => sem r p) rs
  | RUnion rs => existsb (fun r => sem r p) rs
  | RDiff a b => sem a p && negb (sem b p)
  end.

(* no z-strict planar operand anywhere below *)
Fixpoint nostrict (r : region) : bool :=
  match r with
  | RPlanar strict _ _ => negb strict
  | RInter rs => forallb nostrict rs
  | RUnion rs => forallb nostrict rs
  | RDiff a b => nostrict a && nostrict b
  | _ => true
  end.

(* ------------------------------------------------------------------------------------ *)
(* (2) Analytic primitives over Q.  Square roots / trigonometric values enter as arguments *)
(* ------------------------------------------------------------------------------------ *)

Definition sq (a : Q) : Q := a * a.
Definition Qmax0 (a : Q) : Q := if Qle_bool 0 a then a else 0.
Definition d2sq (cx cy x y : Q) : Q := sq (x - cx) + sq (y - cy).
Definition d3sq (c p : pt) : Q := sq (px p - px c) + sq (py p - py c) + sq (pz p - pz c).

(* CircularRegion.containsPoint: point.z == self.z and |point - center| <= radius *)
Definition disc_member (c : pt) (R : Q) (p : pt) : bool :=
  Qeq_bool (pz p) (pz c) && Qle_bool (d2sq (px c) (py c) (px p) (py p)) (sq R).

(* CircularRegion.distanceTo, REPAIRED (fix F15): hypot(max(0, rho - R), z - z0) with rho the planar
   distance to the centre; returned squared.  [rho] is an argument (rho^2 = planar d^2, rho >= 0). *)
Definition disc_dist_sq (c : pt) (R : Q) (p : pt) (rho : Q) : Q :=
  sq (Qmax0 (rho - R)) + sq (pz p - pz c).

(* the formula of the code before the repair: if point.z == 0 then max(0, dist3D - R) else the
   polygonal distance hypot(dist2D-to-polygon, z - z0) (polygon ~ disc).  [n3] = 3-D distance. *)
Definition disc_dist_old_sq (c : pt) (R : Q) (p : pt) (rho n3 : Q) : Q :=
  if Qeq_bool (pz p) 0 then sq (Qmax0 (n3 - R)) else disc_dist_sq c R p rho.

(* CircularRegion.intersects(CircularRegion), REPAIRED: same height and planar centre distance
   <= r1 + r2 (the old code compared the 3-D centre distance and ignored the heights). *)
Definition disc_disc_intersects (c1 : pt) (R1 : Q) (c2 : pt) (R2 : Q) : bool :=
  Qeq_bool (pz c1) (pz c2) && Qle_bool (d2sq (px c1) (py c1) (px c2) (py c2)) (sq (R1 + R2)).
Definition disc_disc_intersects_old (c1 : pt) (R1 : Q) (c2 : pt) (R2 : Q) : bool :=
  Qle_bool (d3sq c1 c2) (sq (R1 + R2)).

(* SectorRegion.containsPoint: z test, |viewAngle| <= angle/2 (the normalised angle [va] is an
   argument: atan2 is not modelled), radius *)
Definition sector_member (c : pt) (R half va : Q) (p : pt) : bool :=
  Qeq_bool (pz p) (pz c) && Qle_bool (Qabs va) half && Qle_bool (d2sq (px c) (py c) (px p) (py p)) (sq R).

(* RectangularRegion: polygon with corners position.offsetRotated(heading, (+-hw, +-hl)); a point
   belongs to it iff its coordinates in the rectangle's frame are within the half extents.
   [co si] = cos / sin of the heading.  z is ignored (PolygonalRegion.containsPoint). *)
Definition rect_local (cx cy co si x y : Q) : Q * Q :=
  (co * (x - cx) + si * (y - cy), co * (y - cy) - si * (x - cx)).
Definition rect_member (cx cy co si hw hl : Q) (x y : Q) : bool :=
  let '(u, v) := rect_local cx cy co si x y in
  Qle_bool (Qabs u) hw && Qle_bool (Qabs v) hl.
(* RectangularRegion.AABB from the four corners: centre +- (|co| hw + |si| hl), (|si| hw + |co| hl) *)
Definition rect_aabb_hx (co si hw hl : Q) : Q := Qabs co * hw + Qabs si * hl.
Definition rect_aabb_hy (co si hw hl : Q) : Q := Qabs si * hw + Qabs co * hl.

(* BoxRegion / SpheroidRegion in their own frame ([u v w] = R^T (p - position)) *)
Definition box_member (hx hy hz u v w : Q) : bool :=
  Qle_bool (Qabs u) hx && Qle_bool (Qabs v) hy && Qle_bool (Qabs w) hz.
(* squared distance to the box [-hx,hx]x[-hy,hy]x[-hz,hz] *)
Definition box_dist_sq (hx hy hz u v w : Q) : Q :=
  sq (Qmax0 (Qabs u - hx)) + sq (Qmax0 (Qabs v - hy)) + sq (Qmax0 (Qabs w - hz)).
Definition spheroid_member (a b c u v w : Q) : bool :=
  Qle_bool (sq (u / a) + sq (v / b) + sq (w / c)) 1.

(* PointSetRegion: kd-tree nearest neighbour distance <= tolerance *)
Fixpoint min_d3sq (pts : list pt) (p : pt) : option Q :=
  match pts with
  | [] => None
  | q :: rest =>
      match min_d3sq rest p with
      | None => Some (d3sq q p)
      | Some m => Some (if Qle_bool (d3sq q p) m then d3sq q p else m)
      end
  end.
Definition pointset_member (pts : list pt) (tol : Q) (p : pt) : bool :=
  match min_d3sq pts p with Some m => Qle_bool m (sq tol) | None => false end.

(* GridRegion.pointToGrid / containsPoint.  Python's round() = round-half-to-even. *)
Definition round_half_even (q0 : Q) : Z :=
  let q := Qred q0 in
  let n := Qnum q in let d := Zpos (Qden q) in
  let f := Z.div n d in
  let r2 := (2 * (n - f * d))%Z in          (* twice the fractional part, scaled by d *)
  if (r2 <? d)%Z then f else if (d <? r2)%Z then (f + 1)%Z
  else if Z.even f then f else (f + 1)%Z.
Definition grid_index (A B : Q) (size : Z) (x : Q) : option Z :=
  let n := round_half_even ((x - B) / A) in
  if ((n <? 0) || (size <=? n))%Z then None else Some n.
(* grid: rows (index y) of cells (index x); 0 = free *)
Definition grid_cell (grid : list (list Z)) (ix iy : Z) : option Z :=
  match nth_error grid (Z.to_nat iy) with
  | Some row => nth_error row (Z.to_nat ix)
  | None => None
  end.
Definition grid_member (grid : list (list Z)) (Ax Ay Bx By : Q) (sx sy : Z) (x y : Q) : bool :=
  match grid_index Ax Bx sx x, grid_index Ay By sy y with
  | Some ix, Some iy => match grid_cell grid ix iy with Some 0%Z => true | _ => false end
  | _, _ => false
  end.
Definition grid_point (Ax Ay Bx By : Q) (ix iy : Z) : Q * Q :=
  (Ax * inject_Z ix + Bx, Ay * inject_Z iy + By).

(* ------------------------------------------------------------------------------------ *)
(* (3) The double-dispatch protocol                                                      *)
(* ------------------------------------------------------------------------------------ *)

(* One method activation is identified by: the class whose method body runs ([st_def]), the
   classes of self and of the operand, and the value of triedReversed.  What it does: *)
Inductive action :=
| ARet (kind : N)                 (* computes and returns a result (class id [kind]) itself *)
| ARaise (exc : N)                (* raises *)
| ASuper (d : N)                  (* delegates the same question to super(): body of class [d] *)
| ARev (flag : bool) (d : N)      (* re-dispatches to other.op(self, triedReversed=flag), resolved to class [d] *)
| AMissing.                       (* not in the table *)

Record dstate := mkst { st_def : N; st_self : N; st_other : N; st_flag : bool }.
Definition entry := (dstate * action)%type.

Definition st_eqb (a b : dstate) : bool :=
  N.eqb (st_def a) (st_def b) && N.eqb (st_self a) (st_self b) &&
  N.eqb (st_other a) (st_other b) && Bool.eqb (st_flag a) (st_flag b).

Fixpoint lookup (t : list entry) (s : dstate) : action :=
  match t with
  | [] => AMissing
  | (k, a) :: rest => if st_eqb k s then a else lookup rest s
  end.

Inductive outcome := ORet (kind : N) | ORaise (exc : N) | OMissing | OFuel.

(* returns the outcome, the number of activations and the number of re-dispatches *)
Fixpoint run (fuel : nat) (t : list entry) (s : dstate) (calls revs : nat) : outcome * nat * nat :=
  match fuel with
  | O => (OFuel, calls, revs)
  | S fuel' =>
      match lookup t s with
      | ARet k => (ORet k, S calls, revs)
      | ARaise e => (ORaise e, S calls, revs)
      | AMissing => (OMissing, S calls, revs)
      | ASuper d => run fuel' t (mkst d (st_self s) (st_other s) (st_flag s)) (S calls) revs
      | ARev f d => run fuel' t (mkst d (st_other s) (st_self s) f) (S calls) (S revs)
      end
  end.

Definition out_of (r : outcome * nat * nat) : outcome := fst (fst r).

(* well-formedness of a table w.r.t. a rank of classes (length of the MRO) bounded by D and a set
   [lvl] of "deferring" classes (PointSetRegion.intersect first offers the question to the other
   operand with triedReversed = False):  super() goes strictly up the hierarchy and never into a
   deferring class from a non-deferring one;  only a first-try activation re-dispatches;  it passes
   triedReversed = true, unless it is a deferring class handing over to a non-deferring one. *)
Definition entry_ok (rank : N -> nat) (lvl : N -> bool) (D : nat) (e : entry) : bool :=
  let '(s, a) := e in
  match a with
  | ASuper d => Nat.ltb (rank d) (rank (st_def s)) && (negb (lvl d) || lvl (st_def s))
  | ARev f d => negb (st_flag s) && Nat.leb (rank d) D && (f || (lvl (st_def s) && negb (lvl d)))
  | _ => true
  end.
Definition table_ok (rank : N -> nat) (lvl : N -> bool) (D : nat) (t : list entry) : bool :=
  forallb (entry_ok rank lvl D) t.

Definition is_result (o : outcome) : bool := match o with ORet _ | ORaise _ => true | _ => false end.

(* a top-level call of the probed table: initial state, expected outcome and activation count *)
Record dcase := mkcase { c_init : dstate; c_out : outcome; c_calls : nat }.
Definition outcome_eqb (a b : outcome) : bool :=
  match a, b with
  | ORet x, ORet y => N.eqb x y
  | ORaise x, ORaise y => N.eqb x y
  | OMissing, OMissing => true
  | OFuel, OFuel => true
  | _, _ => false
  end.
(* the model protocol reproduces what the probe saw, with at most [maxrev] re-dispatches *)
Definition case_ok (fuel maxrev : nat) (t : list entry) (c : dcase) : bool :=
  let '(o, calls, revs) := run fuel t (c_init c) 0 0 in
  outcome_eqb o (c_out c) && Nat.eqb calls (c_calls c) && Nat.leb revs maxrev && is_result o.
