(* C16 — lemmas about projection along a direction and about AABB / containment consistency. *)
From Coq Require Import QArith Qabs List Bool Lqa Lia.
From Scenic Require Import C16.Project.
Import ListNotations.
Open Scope Q_scope.

Lemma first_pos_some ts a : first_pos ts = Some a ->
  In a ts /\ 0 < a /\ forall t, In t ts -> 0 < t -> a <= t.
Proof.
  revert a. induction ts as [|t r IH]; intros a H; [discriminate|]. cbn [first_pos] in H.
  destruct (Qlt_le_dec 0 t) as [P|N].
  - destruct (first_pos r) as [b|] eqn:E.
    + destruct (IH b eq_refl) as (I1 & I2 & I3). destruct (Qlt_le_dec b t) as [L|G]; inversion H; subst.
      * split; [right; exact I1|]. split; [exact I2|]. intros t' [->|Hin] Ht'; [lra | apply I3; assumption].
      * split; [left; reflexivity|]. split; [exact P|]. intros t' [->|Hin] Ht'; [lra|]. specialize (I3 t' Hin Ht'). lra.
    + inversion H; subst. split; [left; reflexivity|]. split; [exact P|]. intros t' [->|Hin] Ht'; [lra|].
      exfalso. clear -E Hin Ht'. induction r as [|x r IHr]; [contradiction|]. cbn [first_pos] in E.
      destruct (Qlt_le_dec 0 x) as [Px|Nx].
      * destruct (first_pos r); [destruct (Qlt_le_dec q x)|]; discriminate.
      * destruct Hin as [->|Hin]; [lra | apply IHr; assumption].
  - destruct (IH a H) as (I1 & I2 & I3). split; [right; exact I1|]. split; [exact I2|].
    intros t' [->|Hin] Ht'; [lra | apply I3; assumption].
Qed.

Lemma first_pos_none ts : first_pos ts = None -> forall t, In t ts -> t <= 0.
Proof.
  induction ts as [|x r IH]; intros H t Hin; [contradiction|]. cbn [first_pos] in H.
  destruct (Qlt_le_dec 0 x) as [P|N].
  - destruct (first_pos r); [destruct (Qlt_le_dec q x)|]; discriminate.
  - destruct Hin as [->|Hin]; [exact N | apply IH; assumption].
Qed.

Lemma in_map_opp t ts : In t (map Qopp ts) -> exists t', In t' ts /\ t = - t'.
Proof. intros H. apply in_map_iff in H. destruct H as (x & E & Hin). exists x. split; [exact Hin | symmetry; exact E]. Qed.

Lemma neg_some ts b : first_neg_dist ts = Some b ->
  InQ (- b) ts /\ 0 < b /\ forall t, In t ts -> t < 0 -> b <= - t.
Proof.
  unfold first_neg_dist. intros H. destruct (first_pos_some _ _ H) as (I1 & I2 & I3).
  destruct (in_map_opp _ _ I1) as (t' & Hin & E). split; [exists t'; split; [exact Hin | subst b; ring]|].
  split; [exact I2|]. intros t Hin' Ht. apply I3; [apply in_map; exact Hin' | lra].
Qed.

Lemma neg_none ts : first_neg_dist ts = None -> forall t, In t ts -> 0 <= t.
Proof.
  unfold first_neg_dist. intros H t Hin. pose proof (first_pos_none _ H (- t) (in_map Qopp ts t Hin)). lra.
Qed.

Lemma Qabs_cases t : (0 <= t /\ Qabs t == t) \/ (t < 0 /\ Qabs t == - t).
Proof. destruct (Qlt_le_dec t 0) as [N|P]; [right; split; [exact N | apply Qabs_neg; lra] | left; split; [exact P | apply Qabs_pos; exact P]]. Qed.

(* the returned parameter is a crossing, is not the point itself, and no other crossing (in either direction) is nearer *)
Theorem project_nearest ts t : project ts = Some t ->
  InQ t ts /\ ~ t == 0 /\ forall t', In t' ts -> ~ t' == 0 -> Qabs t <= Qabs t'.
Proof.
  unfold project. intros H.
  destruct (first_pos ts) as [a|] eqn:EP; destruct (first_neg_dist ts) as [b|] eqn:EN; inversion H; subst; clear H.
  - destruct (first_pos_some _ _ EP) as (P1 & P2 & P3). destruct (neg_some _ _ EN) as (N1 & N2 & N3).
    destruct (Qle_bool a b) eqn:C.
    + apply Qle_bool_iff in C. split; [exists a; split; [exact P1 | reflexivity]|]. split; [lra|].
      intros t' Hin Hnz. rewrite (Qabs_pos a) by lra.
      destruct (Qabs_cases t') as [[S E]|[S E]]; rewrite E; [apply P3; [exact Hin | lra] | specialize (N3 t' Hin S); lra].
    + assert (b < a) by (destruct (Qlt_le_dec b a) as [L|G]; [exact L | apply Qle_bool_iff in G; congruence]).
      split; [exact N1|]. split; [lra|]. intros t' Hin Hnz. rewrite (Qabs_neg (- b)) by lra.
      destruct (Qabs_cases t') as [[S E]|[S E]]; rewrite E; [specialize (P3 t' Hin ltac:(lra)); lra | specialize (N3 t' Hin S); lra].
  - destruct (first_pos_some _ _ EP) as (P1 & P2 & P3). pose proof (neg_none _ EN) as NN.
    split; [exists t; split; [exact P1 | reflexivity]|]. split; [lra|]. intros t' Hin Hnz. rewrite (Qabs_pos t) by lra.
    specialize (NN t' Hin). rewrite (Qabs_pos t') by exact NN. apply P3; [exact Hin | lra].
  - destruct (neg_some _ _ EN) as (N1 & N2 & N3). pose proof (first_pos_none _ EP) as PN.
    split; [exact N1|]. split; [lra|]. intros t' Hin Hnz. rewrite (Qabs_neg (- b)) by lra.
    specialize (PN t' Hin). rewrite (Qabs_neg t') by exact PN. specialize (N3 t' Hin ltac:(lra)). lra.
Qed.

Theorem project_none ts : project ts = None -> forall t, In t ts -> t == 0.
Proof.
  unfold project. intros H t Hin.
  destruct (first_pos ts) eqn:EP; destruct (first_neg_dist ts) eqn:EN; try discriminate.
  pose proof (first_pos_none _ EP t Hin). pose proof (neg_none _ EN t Hin). lra.
Qed.

Theorem project_some ts t : In t ts -> ~ t == 0 -> project ts <> None.
Proof. intros Hin Hnz H. apply Hnz. exact (project_none ts H t Hin). Qed.

Theorem project_vector_member ts : project_vector true ts = Some 0.
Proof. reflexivity. Qed.

(* the code before the repair returns the hit along +d although the one along -d is nearer *)
Theorem project_old_refuted : exists ts t t', project_old ts = Some t /\ In t' ts /\ ~ t' == 0 /\ Qabs t' < Qabs t.
Proof. exists [(8 # 5); - (2 # 5)], (8 # 5), (- (2 # 5)). vm_compute. intuition congruence. Qed.

(* ---- AABB vs containment *)
Theorem aabb_mono (m1 m2 : Q -> Q -> Q -> Prop) b1 b2 :
  (forall x y z, m2 x y z -> m1 x y z) -> aabb_sound m1 b1 -> aabb_tight m2 b2 -> box_le b2 b1.
Proof.
  intros Sub S T. destruct T as (T1 & T2 & T3 & T4 & T5 & T6). unfold box_le.
  destruct T1 as (x1 & y1 & z1 & M1 & E1). destruct T2 as (x2 & y2 & z2 & M2 & E2).
  destruct T3 as (x3 & y3 & z3 & M3 & E3). destruct T4 as (x4 & y4 & z4 & M4 & E4).
  destruct T5 as (x5 & y5 & z5 & M5 & E5). destruct T6 as (x6 & y6 & z6 & M6 & E6).
  pose proof (S _ _ _ (Sub _ _ _ M1)) as B1. pose proof (S _ _ _ (Sub _ _ _ M2)) as B2.
  pose proof (S _ _ _ (Sub _ _ _ M3)) as B3. pose proof (S _ _ _ (Sub _ _ _ M4)) as B4.
  pose proof (S _ _ _ (Sub _ _ _ M5)) as B5. pose proof (S _ _ _ (Sub _ _ _ M6)) as B6.
  unfold in_box in *. repeat split; lra.
Qed.

(* a member of the inner region outside the outer region's (sound) AABB refutes containment *)
Theorem aabb_refutes_containment (m1 m2 : Q -> Q -> Q -> Prop) b1 x y z :
  aabb_sound m1 b1 -> m2 x y z -> ~ in_box b1 x y z -> ~ (forall x y z, m2 x y z -> m1 x y z).
Proof. intros S M N Sub. apply N. apply S. apply Sub. exact M. Qed.

Theorem box_le_in b1 b2 x y z : box_le b1 b2 -> in_box b1 x y z -> in_box b2 x y z.
Proof. unfold box_le, in_box. intros. lra. Qed.
