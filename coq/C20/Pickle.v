(* C20, round 2 (definitions only): coverage of a road by its lanes at one point, and the placeholder protocol of
   _ElementReferencer.__getstate__ / Network.__setstate__ (scenic.domains.driving.roads). *)
From Coq Require Import List Bool PArith NArith ZArith FMapPositive.
From Scenic Require Import C20.Network.
Import ListNotations.

(* At the sampled point: every road answers the exact (resp. within-tolerance) query exactly when one of its own
   lanes does.  [ex]/[wi] are the elements' own containsPoint / distanceTo answers, as in [model_lookup]. *)
Definition cover_at (nt : net) (m : imap) (ex wi : list positive) : bool :=
  forallb (fun r =>
      Bool.eqb (memb r ex) (existsb (fun l => memb l ex) (of_elem m lanes r)) &&
      Bool.eqb (memb r wi) (existsb (fun l => memb l wi) (of_elem m lanes r)))
    (n_allroads nt).

(* ---- pickling.  In memory a single link is a direct reference to the element with that uid; __getstate__ replaces
   every attribute whose value is a NetworkElement by _ElementPlaceholder(uid) (tuples of elements are left alone);
   Network.__setstate__ then walks  self.elements.values()  and the maneuvers of  self.lanes / self.intersections
   and replaces each placeholder by  self.elements[uid]  (KeyError if absent).  Objects outside that walk keep
   their placeholders. *)
Inductive lref := LDirect (u : positive) | LPlace (u : positive).
Record pobj := mkPobj { po_elem : elem; po_links : list (option lref) }.

Definition getstate (e : elem) : pobj := mkPobj e (map (option_map LPlace) (sl e)).
Definition direct (e : elem) : pobj := mkPobj e (map (option_map LDirect) (sl e)).

Definition reconnect_link (keys : list positive) (l : option lref) : option (option lref) :=
  match l with
  | Some (LPlace u) => if memb u keys then Some (Some (LDirect u)) else None   (* None: KeyError *)
  | other => Some other
  end.
Fixpoint reconnect_links (keys : list positive) (ls : list (option lref)) : option (list (option lref)) :=
  match ls with
  | [] => Some []
  | l :: t => match reconnect_link keys l, reconnect_links keys t with
              | Some l', Some t' => Some (l' :: t')
              | _, _ => None
              end
  end.

(* is the object visited by Network.__setstate__ ? *)
Definition in_scope (nt : net) (m : imap) (e : elem) : bool :=
  if is_man e then existsb (fun u => memb (uid e) (of_elem m mans u)) (n_lanes nt ++ n_inters nt)
  else memb (uid e) (n_elements nt).

Definition setstate_obj (nt : net) (m : imap) (p : pobj) : option pobj :=
  if in_scope nt m (po_elem p)
  then option_map (mkPobj (po_elem p)) (reconnect_links (n_elements nt) (po_links p))
  else Some p.
Fixpoint setstate (nt : net) (m : imap) (ps : list pobj) : option (list pobj) :=
  match ps with
  | [] => Some []
  | p :: t => match setstate_obj nt m p, setstate nt m t with
              | Some p', Some t' => Some (p' :: t')
              | _, _ => None
              end
  end.

(* the checker evaluated on every exported network: every object that has a single link at all is visited by
   __setstate__ and all its links are keys of Network.elements *)
Definition has_link (e : elem) : bool := existsb (fun l => match l with Some _ => true | None => false end) (sl e).
Definition links_in (keys : list positive) (e : elem) : bool :=
  forallb (fun l => match l with Some u => memb u keys | None => true end) (sl e).
Definition pickle_ok_elem (nt : net) (m : imap) (e : elem) : bool :=
  negb (has_link e) || (in_scope nt m e && links_in (n_elements nt) e).
Definition pickle_bad (nt : net) : list positive :=
  let m := index (elems nt) in map uid (filter (fun e => negb (pickle_ok_elem nt m e)) (elems nt)).
Definition pickle_ok (nt : net) : bool := forallb (pickle_ok_elem nt (index (elems nt))) (elems nt).

(* ---- per sampled point: where the hypothesis of lookup_consistent holds, what the implementation reported for laneAt
   (tag 2) and roadAt (tag 1) must be consistent *)
Definition look_result (looks : list (N * option positive * option positive)) (tag : N) : option (option positive) :=
  option_map snd (find (fun l => N.eqb (fst (fst l)) tag && match snd (fst l) with None => true | Some _ => false end) looks).
Definition lc_ok (nt : net) (m : imap) (c : pt_case) : bool :=
  match c with (ex, wi, looks) =>
    if cover_at nt m ex wi then
      match look_result looks 2%N, look_result looks 1%N with
      | Some (Some l), Some r => match PositiveMap.find l m with Some le => opos_eqb (road le) r | None => false end
      | Some None, Some r => opos_eqb r None
      | _, _ => true
      end
    else true
  end.
Definition lc_bad (nt : net) (cs : list pt_case) : list N :=
  let m := index (elems nt) in failing_idx (lc_ok nt m) cs 0%N.
Definition cover_count (nt : net) (cs : list pt_case) : list N :=
  let m := index (elems nt) in
  [N.of_nat (length (filter (fun c => match c with (ex, wi, _) => cover_at nt m ex wi end) cs))].
